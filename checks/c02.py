"""C02 — names resolve by documented source precedence; block bindings are scoped;
call-on-lookup by name but not in expressions; sub-templates see the caller's namespace
with their own defaults on top.

Monitor: every source supplies its own token for the probed name, callables log each call
and return a call-numbered token, sub-templates print what they see; probes by name, by
entity, with missing=, by expression (`seen(n)` reports the identity of what it was given)
are rendered before / inside / after every block.  Part R makes the nest a template that invokes
itself over a tree of objects (every node binds other values in the same block tags): the
groups after an inner activation must show the outer activation's bindings again.  Part N renders
configurations of all parts again with the names spelled differently in front of the engine (template
source, keyword arguments, mapping keys, client attributes, defaults, template variables: capitalised,
upper case, mixed case with digits / underscores, long, all names of a case being case variants of ONE
word) and with the tags in the old <!--#x--> syntax or with the name given as name= attribute; the model
keeps its own canonical names, so the expectation is the same text.  Part X gives every tag that takes a
name OR an expression (var, call, if, elif, unless, with, in, let, return) the same names once by name and
once by an expression that is nothing but the name, in six spellings ("n", expr="n", "(n)", " n ",
"_.getitem('n')", expr="_.getitem('n', 0)"): by name the value is called / rendered / cached, by expression the
tag works on the object itself (a callable object, a callable sequence, a template print / iterate / are
opened as they are, nothing is called); templates are called from expressions with a client object, the
namespace and keywords; with blocks open namespaces built by _.namespace(k=v) / _(k=v) / _(mapping, k=v)
(also block kind withns of parts B / R / N).  Objects that supply names (clients of the call, of a template
called from an expression, subjects of with, items of in) also come with a false truth value (length 0 /
__bool__ False): they are objects with attributes all the same.
Oracle: vlib.c02_util.Model, an interpreter over an ordered list of scopes written from the
documented priority list and the tag docstrings; output and call trace must both agree.
"""
import itertools

from vlib.common import Recorder, short
from vlib import c02_util as U

ID = 'C02'
LEVEL = 'exploration'
RULE = ('part A: exhaustive over the 127 non-empty subsets of the seven concrete sources '
        '(call kw, template vars, last client, first client, call mapping, ctor kw, ctor mapping) '
        'x every assignment of {plain, callable, template} to the defining sources (16383), plus '
        'falsy winners (0, empty string, None, falsy callable, callable returning a false value) and '
        'seeded mixed assignments, each probed by name, entity, missing=, if/elif/else, unless, let and '
        'expression in HTML (and by name in plain HTML / EPFS String); every template object is called '
        'again with the top call-level source dropped and once more in full; part H: histories of calls '
        'on ONE template object (all ordered pairs of the 16 call-level subsets as S1,S2,S1 x ctor '
        'sources x template-variable mode none/bystander/before/between, plus seeded histories of 3-8 '
        'calls with var() in between), every call compared with the model and _vars / defaults / the '
        "caller's mapping / client objects checked unchanged; part B: every nesting of {in, in mapping, "
        'in prefix=, with, with only, with mapping, let name, let expr, if, if-else (false), elif, elif by '
        'name after a first condition that is an expression, unless, '
        'try-except} to depth 2 (quick) / 3 (thorough) x bound value kind x the source delivering the '
        'base namespace, with a probe group before / inside / after every block and sub-template calls '
        'at every probe point, each nest also left through an exception (a raising callable or a raising '
        'sub-template with own defaults and variables) caught by a dtml-try at every level; part R '
        '(re-entrant blocks): the nest is a template that invokes ITSELF by name from inside its innermost '
        'block once per child of the current node of a small tree of objects (walk over <dtml-in kids> or '
        'over <dtml-if nxt><dtml-with nxt>), directly, through a second template with own defaults, or '
        'through a second template that binds names with its own let around the call (mutual '
        'invocation); every node supplies its own subject for every block, so each activation binds '
        'other values, and the probe groups after the inner activations must show the outer activation\'s '
        'bindings again; every block kind at depth 1 x value kind x route x (driver, tree shape), every '
        'pair of kinds at depth 2 (thorough: x value kind x route, depth 3 rotating), with / without the '
        'last leaf raising at the end of its innermost block into a dtml-try of its parent activation, '
        'the self-invoking template with / without construction defaults and variables of its own, '
        'invoked from a wrapper template or called by the application itself (namespace delivered by '
        'call keywords / client / mapping), rendered once or twice on the same objects, plus seeded nests (depth 1-3) over '
        'seeded trees (2-7 nodes, pruned to a logical size cap) rendered 1-3 times; block kind inpfx = '
        '<dtml-in seq prefix=p> with the aliases p_item / p_index probed at every point; part N (names are '
        'just names): an injective spelling map between the generator\'s canonical names and what the '
        'engine sees (template source incl. sub-templates, let targets and sources, in prefix=, call '
        'keywords, call / construction mapping keys, client and item attributes, construction defaults, '
        'template variables) in 7 styles {lower, Capital, UPPER, mIxEd_5xM, lower_0_v5, 80-character, twins '
        '= every name of the case a case variant of the one word "identifier"} x 3 tag syntaxes {<dtml-x n>, '
        '<!--#x n-->, <dtml-x name=n> / name="n"}: every source subset of part A x every other style x 2 of 5 '
        'kind patterns (thorough: all), every 8th systematic history, every block kind at depth 1 x value '
        'kind x style with and without exception modes, every pair of kinds under 3 rotating styles '
        '(thorough: all styles x value kinds; every triple once), every kind / pair of kinds re-entered '
        '(part R) under every / a rotating style; the seeded cases of all parts draw style and syntax '
        '(lower-case in 40 %, <dtml-> syntax in 70 %); block kind withns = <dtml-with "_.namespace(n=src, b=bsrc)"> / '
        '<dtml-with "_(n=src, b=bsrc)"> (the two spellings alternate with the level), a full member of the kinds of '
        'parts B, R and N (thorough: every third / second triple holding it); part B also renders every block kind '
        'that has a subject (in, in mapping, in prefix=, with, with only, with mapping) with the subject given as an '
        'EXPRESSION that is just its name, x 6 expression spellings x value kind (depth 1), every pair / 8th triple of '
        'kinds holding such a block with the spelling rotating, and every block kind that takes names from objects '
        '(in, in prefix=, with, with only; the client of the call) with objects whose truth value is false (length 0 / '
        '__bool__ False) x value kind; part A again for every subset of the sources holding a client x {length 0, '
        '__bool__ False, one of each} x 2 of 5 kind patterns (thorough: all) with the client shapes rotating (bare '
        'object, 1-tuple, 2-tuple, tuple with an attribute-less second object), every 8th systematic history again '
        'with falsy clients, seeded cases draw the truth value with the variant; part X (name or expression): ONE '
        'template holding every tag that takes a name or an expression -- var, call, if, elif (after an expression), '
        'unless, with (over a callable object whose call gives another object), in (over a callable sequence whose '
        'call gives another sequence), let, return (in a sub-template) -- all in one of 7 forms {by name, "n", '
        'expr="n", "(n)", " n ", "_.getitem(\'n\')", expr="_.getitem(\'n\', 0)"}, plus a template called from '
        'expressions as t(o, _), t(None, _, k=n), t(o, _, k=n), with blocks over _.namespace(t=n, u=q), _(t=n, u=xt), '
        '_(pm, u=q) and a namespace kept by a let block and opened by a with block later; form x winner source x '
        '{winner alone, winner over all lower sources} x 8 kinds of the winner (thorough: x all 127 subsets) under '
        'lower-case and one rotating spelling / tag syntax, client truth value and shape rotating, each template '
        'object called twice, plus seeded (form, subset, kinds, variant, spelling). distinct = '
        'distinct (subset, kinds, variant), history, (nest, value kind, base source, exception mode) or '
        '(nest, value kind, base source, tree, driver, route, exception, renders, top, own) or (form, subset, kinds, variant) tuples, each x (spelling, tag syntax); a part-A case is non-trivial when at least two sources define the name or the winner is '
        'callable / template / falsy')
ASSUMPTIONS = [
    'one lookup by name calls the resolved callable exactly once (call trace compared exactly)',
    '`with ... only`: that names of the enclosing namespace are hidden is not asserted '
    '(the statement only says block bindings shadow); such probes are wildcards',
    'dtml-unless binds the tested name like dtml-if does (DT_If docstring: a variable is only '
    'evaluated once in an if tag; unless is the same tag with the test inverted)',
    'variables set on a sub-template are laid on top of its defaults (only the absence of both after '
    'the invocation is decisive; no probed name is defined in both)',
    'the sequence-name cache of dtml-in is not asserted',
    'ctor-mapping keys starting with "_" and client attributes starting with "_" are not used',
    'part R: every node of the tree defines every name the walk tests (kids, nxt, doom) and every '
    'subject, so no activation depends on a name leaking from its caller; names the caller\'s blocks '
    'bound ARE visible to the invoked template (caller\'s current namespace) and the model says so',
    'part R: recursion depth stays at most 4 activations (far below the engine\'s limit of 200 levels)',
    'part N: a legal name is an ASCII letter followed by ASCII letters, digits and underscores (what the '
    'engine itself calls a simple name in its "prefix is not a simple name" error, and what an expression '
    'can spell); names are case-sensitive (the engine\'s own names REQUEST, URL1, sequence-item ... only '
    'make sense if they are); non-ASCII names, names with "-" or "." are not generated',
    'part N: names the engine defines (sequence-*, error_*) and the probe helper `seen` keep their spelling',
    'an expression that consists of one name (however it is spelled: "n", expr="n", "(n)", " n ", '
    '"_.getitem(\'n\')" -- TemplateDict.getitem docstring: without a true second argument the object is returned '
    'without any attempt to call it) yields the object bound to the name as it is; var inserts str() of it (the '
    'harness objects print UNCALLED:<name> / UNRENDERED:<name> / obj:<name>), if / elif / unless test its truth '
    'value and bind nothing, with opens its attributes, in iterates it, call evaluates and discards it, return '
    'makes it the result of the template (inserted by the caller like any value)',
    'a lookup BY NAME calls a callable object / sequence exactly once and the tag (with, in, return, call) works '
    'on the result (statement: a callable value is called when looked up by name in a tag)',
    '_.namespace(k=v, ...) and _(k=v, ...) give an object whose attributes are the keyword values (DT_Util.namespace '
    'docstring); the values were read by the expression, so inside the with block k is bound to the object itself: '
    'by name it is called / rendered with the CURRENT namespace, an expression gets it uncalled.  The positional '
    'form _(mapping, k=v) is only used with plain values and without a name given twice: on the unchanged engine it '
    'hands callables over already called and renders templates against the private namespace, which the statement '
    'does not cover (reported as an observation, not asserted)',
    'a template called from an expression as t(client, _, **kw) sees the current namespace (the mapping is the '
    'namespace itself) with its own defaults, the client object and the keywords on top (String.__call__ '
    'docstring order: keywords, client, mapping); no probed name is defined both in its defaults and elsewhere',
    'an object supplies its attributes as names whatever its truth value (String.__call__ docstring: "client is '
    'used to specify a object containing values to be looked up"; nothing excepts empty or false objects); falsy '
    'nodes of the part-R trees are not generated (the nxt driver tests them)',
    '<dtml-in seq prefix=p> binds p_item / p_index / p_number next to sequence-item / -index / -number for '
    'the body only (DT_InSV test__setitem__getitem__ documents the alias; same reading as C08 / C10)',
    'a bare name in a tag is the documented shorthand of the name= attribute (DT_Util name_param: "name '
    'shorthand"), so <dtml-var name=n> / <dtml-if name="n"> resolve, call and cache like <dtml-var n> / '
    '<dtml-if n>; only the attribute NAME is case-insensitive, never its value',
]
SHARD_TIMEOUT = {'quick': 600, 'thorough': 3000}
NSHARDS = {'quick': 16, 'thorough': 32}

# priority order, highest first (String.__call__ docstring + property statement)
SOURCES = ['kw', 'vars', 'client_last', 'client_first', 'mapping', 'ctor_kw', 'ctor_map']
KINDS3 = ['plain', 'call', 'tmpl']
FALSY = ['zero', 'empty', 'none', 'fcall', 'fret']
NEST_KINDS = ['in', 'inmap', 'inpfx', 'with', 'only', 'withmap', 'let', 'letx', 'if', 'ifelse', 'elif',
              'xelif', 'unless', 'try', 'withns']
LOOPS = ('in', 'inmap', 'inpfx')
SUBJECT_KINDS = ('in', 'inmap', 'inpfx', 'with', 'only', 'withmap')   # blocks over a subject: name or expression
OBJECT_KINDS = ('in', 'inpfx', 'with', 'only')      # ... whose namespace is taken from the attributes of objects
EX_STYLES = U.EX_STYLES
TRUTHS = [None, 'len0', 'false']                    # truth value of an object that supplies names
STYLES = U.STYLES                 # spellings of the names; 0 = the generator's own lower-case names
SYNTAXES = U.SYNTAXES
IFLIKE = ('if', 'ifelse', 'elif', 'xelif', 'unless')
DESIGN_KINDS = ['in', 'with', 'only', 'withmap', 'let', 'if', 'try']
BASE_SOURCES = ['kw', 'vars', 'client', 'mapping', 'ctor_kw', 'ctor_map']


def plan(tier, seed):
    return [{} for _ in range(NSHARDS[tier])]


# ================================================================== part A
def value_spec(src, kind):
    if kind == 'plain':
        return U.Plain('P:' + src)
    if kind == 'call':
        return U.Call('C:' + src)
    if kind == 'fcall':
        return U.Call('C:' + src, falsy=True)
    if kind == 'fret':        # call-numbered callable whose result is false
        return U.Call('C:' + src, ret='falsy')
    if kind == 'tmpl':
        return U.Tmpl('T:' + src,
                      [U.Text('{T:%s|' % src), U.Probe('name', 'q', True),
                       U.Probe('name', 'd', True), U.Text('}')],
                      {'d': U.Plain('D:sub:' + src)})
    if kind == 'zero':
        return U.Plain(0)
    if kind == 'empty':
        return U.Plain('')
    if kind == 'none':
        return U.Plain(None)
    raise ValueError(kind)


def ast_a(cls):
    P, T = U.Probe, U.Text
    if cls == 'String':
        return [T('V'), P('name', 'n'), T('M'), P('miss', 'n'), T('Q'), P('name', 'q'),
                T('Z'), P('miss', 'zz')]
    ast = [T('V'), P('name', 'n'), T('E'), P('entity', 'n'), T('M'), P('miss', 'n'),
           T('I'), U.If('n', [T('T'), P('name', 'n')], [T('F'), P('name', 'n')])]
    if cls == 'H':
        ast += [T('L'), U.Let([('x', 'name', 'n'), ('y', 'expr', 'n')],
                              [P('name', 'x'), P('name', 'y'), P('expr', 'y')]),
                T('X'), P('expr', 'n')]
    else:
        ast += [T('L'), U.Let([('x', 'name', 'n'), ('y', 'expr', 'n')],
                              [P('name', 'x'), P('name', 'y')])]
    # the tested name stays bound to its (called) value in every section, true or false
    ast += [T('J'), U.If('n', [T('T'), P('name', 'n')], [T('E'), P('name', 'n')],
                         elifs=[('q', [T('G'), P('name', 'n'), P('name', 'q')])]),
            T('U'), U.Unless('n', [P('name', 'n')])]
    # ... whatever kind of condition (name or expression) the other sections of the block use
    seen_n = [P('expr', 'n')] if cls == 'H' else []
    ast += [T('K'), U.If(U.Lit(0), [T('never')], [T('E'), P('name', 'n')],
                         elifs=[('n', [T('G'), P('name', 'n')] + seen_n + [P('entity', 'n')])]),
            T('k'), U.If('n', [T('T'), P('name', 'n')], [T('E'), P('name', 'n'), P('name', 'q')],
                         elifs=[(U.Lit(0), [T('never')]), ('q', [T('G'), P('name', 'n'), P('name', 'q')]),
                                (U.Lit(1), [T('never')])])]
    ast += [T('Q'), P('name', 'q'), T('Z'), P('miss', 'zz')]
    return ast


# binding constructs of the part-A template (spelling evidence)
AST_A_CONSTRUCTS = {'H': ['let (two bindings, the second reading the first)', 'if / elif / unless cache'],
                    'HTML': ['let (two bindings, the second reading the first)', 'if / elif / unless cache'],
                    'String': []}

_CLASSES = {}


def classes():
    if not _CLASSES:
        from DocumentTemplate.DT_HTML import HTML
        from DocumentTemplate.DT_String import String

        class H(HTML):
            shared_globals = {}
        _CLASSES.update(H=H, HTML=HTML, String=String)
    return _CLASSES


class Session:
    """One template object rendered one or more times, with a model that persists across
    the calls (call counters of ctor / template-variable callables continue)."""

    CALL_SOURCES = ('kw', 'client_last', 'client_first', 'mapping')

    def __init__(self, cls, ast, ctor_scopes, variant, sp=0, syntax='html'):
        C = classes()
        self.cls = cls
        self.ast = ast
        self.variant = variant
        self.rec = Recorder()
        self.sp = U.Spelling(sp)
        self.rz = U.Realizer(self.rec, C['HTML'], self.sp, syntax)
        self.model = U.Model()
        self.ctor_scopes = ctor_scopes                # {'ctor_kw': scope, 'ctor_map': scope}
        self.vars_scope = {}
        self.src = U.to_dtml(ast, 'epfs' if cls == 'String' else syntax, self.sp)
        real = dict((s, self.rz.real_scope(sc)) for s, sc in ctor_scopes.items())
        cmap = real.get('ctor_map')
        self.exp_globals = dict(real.get('ctor_kw', {}))
        for k, v in (cmap or {}).items():
            self.exp_globals.setdefault(k, v)
        if cmap is not None and variant & 1:
            cmap = U.CustomMapping(cmap)
        self.t = C[cls](self.src, cmap, **real.get('ctor_kw', {}))
        self.exp_vars = {}
        self.shape = None
        self.client_truth = None
        self.calls_made = 0

    def set_vars(self, scope):
        """Set template variables (documented setter, or the attribute itself)."""
        self.vars_scope.update(scope)
        real = self.rz.real_scope(scope)
        if self.variant & 8:
            self.t._vars.update(real)
        else:
            self.t.var(**real)
        self.exp_vars.update(real)

    def call(self, scopes):
        """scopes: {source: scope} for the call-level sources.  -> (exp, out, problems);
        out is None when the engine raised (problems says how)."""
        C = classes()
        rz, model = self.rz, self.model
        model.trace = []
        self.rec.clear()
        stack = []
        if self.cls == 'H':
            stack.append({'seen': U.Helper('seen')})
        for s in ('ctor_map', 'ctor_kw'):
            if s in self.ctor_scopes:
                stack.append(self.ctor_scopes[s])
        for s in ('mapping', 'client_first', 'client_last'):
            if s in scopes:
                stack.append(scopes[s])
        if self.vars_scope:
            stack.append(self.vars_scope)
        if 'kw' in scopes:
            stack.append(scopes['kw'])
        exp = model.render(self.ast, stack)
        variant = self.variant
        first = last = None
        # variant bits 16 / 32: the truth value of the client objects (an object whose length is 0
        # or whose __bool__ says False is a client like any other)
        tf = (variant >> 4) & 3
        self.client_truth = None
        if 'client_first' in scopes:
            first = rz.real(U.Obj('client_first', scopes['client_first'], (None, 'len0', 'false', 'false')[tf]))
        if 'client_last' in scopes:
            last = rz.real(U.Obj('client_last', scopes['client_last'], (None, 'len0', 'false', 'len0')[tf]))
        if tf and (first is not None or last is not None):
            self.client_truth = ('', 'len0', 'false', 'mixed')[tf]
        if first is not None and last is not None:
            client, shape = (first, last), 'tuple(first,last)'
        elif last is not None:
            client, shape = (last, 'bare') if variant & 2 else ((last,), 'tuple(last)')
        elif first is not None:
            if variant & 2:
                client, shape = (first, U.RObj('empty')), 'tuple(first,empty)'
            else:
                client, shape = (first,), 'tuple(first)'
        else:
            client, shape = None, 'none'
        self.shape = shape
        inner = rz.real_scope(scopes['mapping']) if 'mapping' in scopes else None
        if inner is None:
            mapping = {} if variant & 4 else None
        elif variant & 1:
            mapping = U.CustomMapping(inner)
        else:
            mapping = inner
        kw = rz.real_scope(scopes['kw']) if 'kw' in scopes else {}
        snap_map = dict(inner) if inner is not None else None
        snap_clients = [(o, dict(o.__dict__)) for o in (first, last) if o is not None]
        if self.cls == 'H':
            C['H'].shared_globals.clear()
            C['H'].shared_globals['seen'] = rz.seen
        self.calls_made += 1
        try:
            out = self.t(client, mapping, **kw)
        except Exception as e:
            return exp, None, ['render raised %s: %s (expected %s)'
                               % (type(e).__name__, short(str(e), 120),
                                  short(U.segments_text(exp), 200))]
        finally:
            if self.cls == 'H':
                C['H'].shared_globals.clear()
        problems = compare(exp, model.trace, out, self.rec)
        # the call must leave every source as it found it
        if not same_dict(self.t._vars, self.exp_vars):
            problems.append('template variables changed by the call: now %s, were %s'
                            % (sorted(self.t._vars), sorted(self.exp_vars)))
        if not same_dict(self.t.globals, self.exp_globals):
            problems.append('construction defaults changed by the call: now %s, were %s'
                            % (sorted(self.t.globals), sorted(self.exp_globals)))
        if snap_map is not None and not same_dict(inner, snap_map):
            problems.append("the caller's mapping was changed by the call: now %s, was %s"
                            % (sorted(inner), sorted(snap_map)))
        for o, snap in snap_clients:
            if not same_dict(o.__dict__, snap):
                problems.append('client object %s changed by the call' % o)
        return exp, out, problems


def same_dict(a, b):
    if len(a) != len(b):
        return False
    for k, v in b.items():
        if k not in a or a[k] is not v:
            return False
    return True


def source_scope(s, kind, tag=''):
    st = s + tag
    return {'n': value_spec(st, kind), 'q': U.Plain('Q:' + st), 'd': U.Plain('D:' + st)}


def run_a(ctx, mask, kinds, pad, variant, cls, tag='grid', sp=0, syntax='html'):
    """One precedence configuration.  kinds: one kind per defining source (priority order).
    The template object is then called again with the top call-level source dropped and
    once more with the full configuration (precedence must not depend on earlier calls)."""
    members = [s for i, s in enumerate(SOURCES) if mask >> i & 1]
    case = {'part': 'A', 'mask': mask, 'kinds': list(kinds), 'pad': pad, 'variant': variant,
            'cls': cls, 'sp': sp, 'syntax': syntax}
    winner_kind = kinds[0]
    ctx.case(('A', mask, tuple(kinds), pad, variant, cls) + ((sp, syntax) if sp or syntax != 'html' else ()),
             len(members) > 1 or winner_kind != 'plain')
    scopes = {}
    for s, k in zip(members, kinds):
        scopes[s] = source_scope(s, k)
    if pad:
        for s in SOURCES:
            if s not in scopes:
                scopes[s] = {'zz': U.Plain('zz:' + s)}
    sess = Session(cls, ast_a(cls), dict((s, scopes[s]) for s in ('ctor_kw', 'ctor_map') if s in scopes),
                   variant, sp, syntax)
    if 'vars' in scopes:
        sess.set_vars(scopes['vars'])
    full = dict((s, scopes[s]) for s in Session.CALL_SOURCES if s in scopes)
    steps = [('first', full)]
    # follow-up calls on the same template object
    droppable = [s for s in Session.CALL_SOURCES if s in full]
    if droppable and any(s in members and s != droppable[0] for s in SOURCES):
        reduced = dict(full)
        del reduced[droppable[0]]
        steps.append(('without ' + droppable[0], reduced))
        steps.append(('again', full))
    elif tag != 'seeded':
        steps.append(('again', full))
    for label, call_scopes in steps:
        exp, out, problems = sess.call(call_scopes)
        if label == 'first':
            ctx.count('A:renders')
            ctx.count('A:renders class ' + cls)
            ctx.table('A subsets rendered', '%03d' % mask)
            ctx.table('A winner source x kind', '%s/%s' % (members[0], winner_kind))
            ctx.table('A client shape', sess.shape)
            if sess.client_truth and not problems:
                ctx.table('A falsy client (shape/truth)', '%s/%s' % (sess.shape, sess.client_truth))
                if members[0] in ('client_last', 'client_first'):
                    ctx.count('A:renders won by a falsy client object')
            ctx.table('A defining sources', len(members))
        else:
            ctx.count('A:follow-up calls on the same template object')
        ctx.count('A:source-unchanged checks')
        if problems:
            ctx.violation('%s call: %s' % (label, '; '.join(problems)), dict(case, step=label),
                          key='A_%d_%s_%s' % (mask, '-'.join(kinds), cls) + key_suffix(sp, syntax),
                          detail={'source': sess.src, 'expected': U.segments_text(exp),
                                  'observed': short(out, 1500) if out is not None else None,
                                  'expected_calls': sess.model.trace,
                                  'observed_calls': sess.rec.calls(), 'sources': members})
            break
        if (label == 'first' and ctx.shard % 2 == 0 and not ctx.samples and cls == 'H'
                and len(members) >= 3 and kinds[0] in ('call', 'tmpl') and len(set(kinds)) > 1):
            ctx.sample({'part': 'A', 'sources': members, 'kinds': list(kinds),
                        'template': sess.src, 'output': out, 'calls': sess.rec.calls()})
    model = sess.model
    for f, n in model.probes.items():
        ctx.count('A:probes ' + f, n)
    if not problems:
        names_evidence(ctx, 'A', sp, syntax, model, ['src:' + m for m in members] + AST_A_CONSTRUCTS[cls])
    ctx.count('A:sub-template invocations', model.subcalls)
    ctx.count('A:lookups shadowing a lower source', model.shadowed)


# ------------------------------------------------------------------ part X: name or expression
X_FORMS = ['name'] + EX_STYLES
X_KINDS = KINDS3 + FALSY
X_TAGS = ['var', 'call', 'if', 'elif', 'unless', 'with', 'in', 'let', 'return']


def source_scope_x(s, kind, xs, truth=None):
    """What one source defines for the part-X template: the probed name n of the given kind,
    q and d as in part A, and
      o   a CALLABLE object with an attribute a; calling it gives another object (attributes a, r);
      s   a CALLABLE sequence of two objects; calling it gives another sequence (one object);
      pm  a mapping of plain values;   xt  a template with a default of its own;
      rsub  a template that ends with <dtml-return n> / <dtml-return "n">."""
    P, T = U.Probe, U.Text
    sc = source_scope(s, kind)
    sc['o'] = U.Obj('o:' + s, {'a': U.Plain('a@own:' + s)}, truth,
                    U.Obj('ores:' + s, {'a': U.Plain('a@res:' + s), 'r': U.Plain('r@res:' + s)}))
    sc['s'] = U.Seq('s:' + s, [U.Obj('it@own.%d:%s' % (i, s), {'a': U.Plain('a@own.%d:%s' % (i, s))}, truth)
                               for i in range(2)],
                    U.Seq('sres:' + s, [U.Obj('it@res:' + s, {'a': U.Plain('a@res.0:' + s)})]))
    sc['pm'] = U.Map('pm:' + s, {'pa': U.Plain('pa:' + s)})
    sc['xt'] = U.Tmpl('xt:' + s, [T('{xt:%s|' % s), P('name', 'q', True), P('miss', 'a', True),
                                  P('miss', 'k', True), P('name', 'xd', True), T('}')],
                      {'xd': U.Plain('xd:' + s)})
    sc['rsub'] = U.Tmpl('rsub:' + s, [T('{r|'), P('name', 'q', True),
                                      U.Return('n' if xs == 'name' else U.Ex('n', xs)), T('unreached}')])
    return sc


def ast_x(xs):
    """Every tag that takes a name OR an expression, on the same names, in ONE form: xs == 'name':
    by name (the value is called / rendered, if-tags cache it); else by an expression that is
    just the name, spelled in style xs (the tag works on the object itself, nothing is called,
    nothing is cached).  Then: the template xt called from expressions with a client object, the
    namespace and keywords; with blocks over namespaces built by _.namespace() / _()."""
    P, T = U.Probe, U.Text
    byname = xs == 'name'
    X = (lambda nm: nm) if byname else (lambda nm: U.Ex(nm, xs))
    grp = [P('name', 'n'), P('expr', 'n')]
    ast = [T('V'), P('name', 'n') if byname else P('xvar', X('n')),
           T('C'), P('call', 'n') if byname else P('xcall', X('n')),
           T('I'), U.If(X('n'), [T('T')] + grp, [T('F')] + grp),
           T('J'), U.If(U.Lit(0), [T('never')], [T('E')] + grp, elifs=[(X('n'), [T('G')] + grp)]),
           T('U'), U.Unless(X('n'), [T('u')] + grp),
           T('W'), U.With(X('o'), 'inst', [P('miss', 'a'), P('miss', 'r'), P('name', 'n')]),
           T('S'), U.In(X('s'), False, [P('miss', 'a'), P('miss', 'sequence-index')]),
           T('L'), U.Let([('t', 'name', 'n')] if byname else [('t', 'expr', X('n'))],
                         [P('name', 't'), P('expr', 't')]),
           T('R'), P('name', 'rsub'),
           T('K'), U.SubCall('xt', 'o'), U.SubCall('xt', None, [('k', 'n')]),
           U.SubCall('xt', 'o', [('k', 'n')]),
           T('N'), U.With(U.Ns('namespace', [('t', 'n'), ('u', 'q')]), 'inst',
                          [P('name', 't'), P('expr', 't'), P('name', 'u'), P('name', 'n')]),
           U.With(U.Ns('under', [('t', 'n'), ('u', 'xt')]), 'inst',
                  [P('name', 't'), P('expr', 't'), P('name', 'u')]),
           U.With(U.Ns('pos', [('u', 'q')], 'pm'), 'inst', [P('name', 'u'), P('name', 'pa'), P('name', 'n')]),
           # the namespace object kept under a name by a let block and opened later by a with block
           U.Let([('ns', 'expr', U.Ns('namespace', [('t', 'n'), ('u', 'd')]))],
                 [P('name', 'n'), U.With(X('ns'), 'inst', [P('name', 't'), P('expr', 't'), P('name', 'u')])]),
           T('Q'), P('name', 'q')]
    return ast


def run_x(ctx, xs, mask, kinds, variant, sp=0, syntax='html'):
    """One precedence configuration (as in part A) under the part-X template in form xs; the
    template object is called twice."""
    members = [s for i, s in enumerate(SOURCES) if mask >> i & 1]
    case = {'part': 'X', 'xs': xs, 'mask': mask, 'kinds': list(kinds), 'variant': variant,
            'sp': sp, 'syntax': syntax}
    ctx.case(('X', xs, mask, tuple(kinds), variant, sp, syntax), True)
    truth = (None, 'len0', 'false', 'len0')[(variant >> 4) & 3]
    scopes = dict((s, source_scope_x(s, k, xs, truth)) for s, k in zip(members, kinds))
    sess = Session('H', ast_x(xs), dict((s, scopes[s]) for s in ('ctor_kw', 'ctor_map') if s in scopes),
                   variant, sp, syntax)
    if 'vars' in scopes:
        sess.set_vars(scopes['vars'])
    full = dict((s, scopes[s]) for s in Session.CALL_SOURCES if s in scopes)
    model = sess.model
    for label in ('first', 'again'):
        exp, out, problems = sess.call(full)
        ctx.count('X:renders')
        if problems:
            ctx.violation('%s call, tags given %s: %s'
                          % (label, 'a name' if xs == 'name' else 'an expression (style %s)' % xs,
                             '; '.join(problems)), dict(case, step=label),
                          key='X_%s_%d_%s' % (xs, mask, '-'.join(kinds)) + key_suffix(sp, syntax),
                          detail={'source': sess.src, 'expected': U.segments_text(exp),
                                  'observed': short(out, 1500) if out is not None else None,
                                  'expected_calls': model.trace, 'observed_calls': sess.rec.calls(),
                                  'sources': members})
            return
    ctx.table('X winner kind x form', '%s/%s' % (kinds[0], xs))
    ctx.table('X winner source x form', '%s/%s' % (members[0], xs))
    for tag in X_TAGS:
        ctx.table('X tag x form', '%s/%s' % (tag, xs))
    for st, n in model.exprs.items():
        ctx.table('X expressions evaluated (style)', st, n)
    for f, n in model.probes.items():
        ctx.count('X:probes ' + f, n)
    ctx.count('X:callable objects / sequences called by a lookup by name', model.container_calls)
    ctx.count('X:templates ended by dtml-return', model.returns)
    ctx.count('X:sub-template invocations', model.subcalls)
    ctx.count('X:namespaces taken from a falsy object', model.falsy_objects)
    ctx.count('X:calls expected', len(model.trace))
    if truth:
        ctx.table('X falsy client of a template called from an expression', truth)
    names_evidence(ctx, 'X', sp, syntax, model, ['src:' + m for m in members])


def configs_x(tier):
    """form x winner source x {the winner alone, the winner over every lower source} x kind of the
    winner (thorough: form x every subset x kind of the winner); spelling, tag syntax, client
    shape and truth value rotate."""
    out = []
    i = 0
    for xs in X_FORMS:
        if tier == 'thorough':
            masks = list(range(1, 128))
        else:
            masks = []
            for w in range(7):
                for m in (1 << w, (127 >> w) << w):
                    if m not in masks:
                        masks.append(m)
        for mask in masks:
            k = bin(mask).count('1')
            for kind in X_KINDS:
                i += 1
                kinds = (kind,) + tuple(KINDS3[(j + i) % 3] for j in range(k - 1))
                out.append((xs, mask, kinds, i % 64, 0, SYNTAXES[i % 3]))
                out.append((xs, mask, kinds, (i // 2) % 64, 1 + i % (len(STYLES) - 1),
                            SYNTAXES[(i // 6) % 3]))
    return out


# ------------------------------------------------------------------ part H: call histories
def run_h(ctx, hist):
    """hist (JSON-able): {'cls', 'variant', 'ctor': {src: kind}, 'steps': [step]};
    step = {'vars': None | 'bystander' | kind, 'call': {src: kind}}.  Every value token
    carries the step number, so a value surviving from an earlier call is visible."""
    ctx.case(('H', repr(hist)), True)
    ctor = dict((s, source_scope(s, k)) for s, k in hist['ctor'].items())
    ast = ast_a('H') + [U.Text('W'), U.Probe('miss', 'w')]
    sp, syntax = hist.get('sp', 0), hist.get('syntax', 'html')
    sess = Session(hist['cls'], ast if hist['cls'] == 'H' else ast_a(hist['cls']) +
                   [U.Text('W'), U.Probe('miss', 'w')], ctor, hist['variant'], sp, syntax)
    ctx.count('H:histories')
    for i, step in enumerate(hist['steps']):
        tag = '@%d' % i
        v = step.get('vars')
        if v == 'bystander':
            sess.set_vars({'w': U.Plain('w:vars' + tag)})
            ctx.count('H:var() between calls (bystander name)')
        elif v:
            sess.set_vars(source_scope('vars', v, tag))
            ctx.count('H:var() between calls (probed name)')
        call_scopes = dict((s, source_scope(s, k, tag)) for s, k in step['call'].items())
        exp, out, problems = sess.call(call_scopes)
        ctx.count('H:calls')
        if sess.client_truth and not problems:
            ctx.count('H:calls with a falsy client object')
        ctx.table('H call position', i)
        if i and 'kw' in hist['steps'][i - 1]['call'] and 'kw' not in step['call']:
            ctx.count('H:calls without keywords after a call with keywords')
        if problems:
            ctx.violation('call %d of a history on one template object: %s'
                          % (i + 1, '; '.join(problems)), {'part': 'H', 'hist': hist},
                          key='H_%s_%d' % ('-'.join(sorted(step['call'])) or 'none', i) + key_suffix(sp, syntax),
                          detail={'source': sess.src, 'step': i,
                                  'expected': U.segments_text(exp),
                                  'observed': short(out, 1500) if out is not None else None,
                                  'expected_calls': sess.model.trace,
                                  'observed_calls': sess.rec.calls()})
            return
    for f, n in sess.model.probes.items():
        ctx.count('H:probes ' + f, n)
    srcs = set(hist['ctor'])
    for step in hist['steps']:
        srcs.update(step['call'])
        if step.get('vars') and step['vars'] != 'bystander':
            srcs.add('vars')
    names_evidence(ctx, 'H', sp, syntax, sess.model,
                   ['src:' + m for m in sorted(srcs)] + AST_A_CONSTRUCTS[hist['cls']])


def configs_h(tier):
    """Systematic histories: every ordered pair (S1, S2) of call-level source subsets, rendered
    as S1, S2, S1 on one template object, x construction sources x template-variable mode."""
    out = []
    call_sources = list(Session.CALL_SOURCES)
    subsets = [[s for j, s in enumerate(call_sources) if m >> j & 1] for m in range(16)]
    ctor_parts = [[], ['ctor_kw'], ['ctor_map'], ['ctor_kw', 'ctor_map']]
    vmodes = ['none', 'bystander', 'before', 'between']
    kind_rot = KINDS3 + ['fret']
    i = 0
    for cp in ctor_parts:
        for vm in vmodes:
            for s1 in subsets:
                for s2 in subsets:
                    i += 1
                    krange = range(4) if tier == 'thorough' else [i % 4]
                    for kr in krange:
                        kind = lambda j: kind_rot[(kr + j) % 4]   # noqa: E731
                        ctor = dict((s, kind(j)) for j, s in enumerate(cp))
                        steps = []
                        vdef = False
                        for pos, ss in enumerate((s1, s2, s1)):
                            v = None
                            if pos == 0 and vm == 'bystander':
                                v = 'bystander'
                            if (pos == 0 and vm == 'before') or (pos == 1 and vm == 'between'):
                                v = kind(pos + 1)
                                vdef = True
                            call = dict((s, kind(j + pos)) for j, s in enumerate(ss))
                            if not (ctor or vdef or call):
                                call = {'mapping': kind(pos)}
                            steps.append({'vars': v, 'call': call})
                        out.append({'cls': 'H' if i % 5 else 'HTML', 'variant': i % 16,
                                    'ctor': ctor, 'steps': steps})
    return out


def random_history(rng):
    allk = KINDS3 + FALSY
    ctor = dict((s, rng.choice(allk)) for s in ('ctor_kw', 'ctor_map') if rng.random() < 0.5)
    steps = []
    vdef = False
    for pos in range(rng.randint(3, 8)):
        v = None
        r = rng.random()
        if r < 0.15:
            v = 'bystander'
        elif r < 0.35:
            v = rng.choice(allk)
            vdef = True
        call = dict((s, rng.choice(allk)) for s in Session.CALL_SOURCES if rng.random() < 0.45)
        if not (ctor or vdef or call):
            call = {rng.choice(Session.CALL_SOURCES): rng.choice(allk)}
        steps.append({'vars': v, 'call': call})
    return {'cls': rng.choice(['H', 'H', 'HTML']), 'variant': rng.randint(0, 63),
            'ctor': ctor, 'steps': steps}


def compare(exp, exp_trace, out, rec):
    problems = []
    if not isinstance(out, str):
        problems.append('render returned %s, not str' % type(out).__name__)
        out = str(out)
    if not U.segments_match(exp, out):
        problems.append('output differs from the model: %s' % first_difference(exp, out))
    calls = rec.calls()
    if calls != exp_trace:
        i = 0
        while i < len(calls) and i < len(exp_trace) and calls[i] == exp_trace[i]:
            i += 1
        problems.append('call trace differs at #%d: engine called %r, model %r (lengths %d/%d)'
                        % (i, calls[i:i + 3], exp_trace[i:i + 3], len(calls), len(exp_trace)))
    return problems


def first_difference(exp, out):
    """Human-readable first point of disagreement (wildcards skipped greedily)."""
    pos = 0
    for i, s in enumerate(exp):
        if s is U.WILD:
            while pos < len(out) and out[pos] not in '[]()':
                pos += 1
            continue
        if out.startswith(s, pos):
            pos += len(s)
            continue
        before = U.segments_text(exp[max(0, i - 6):i])
        return ('after %r expected %r, engine rendered %r'
                % (before[-60:], s[:60], out[pos:pos + 60]))
    return 'engine rendered extra text %r' % out[pos:pos + 60]


def configs_a(tier):
    """Deterministic list of part-A configurations: (mask, kinds, pad, variant, cls, tag)."""
    out = []
    i = 0
    for mask in range(1, 128):
        k = bin(mask).count('1')
        for kinds in itertools.product(KINDS3, repeat=k):
            i += 1
            pads = (0, 1) if tier == 'thorough' else ((i + k) & 1,)
            for pad in pads:
                out.append((mask, kinds, pad, i % 16, 'H', 'grid'))
            if len(set(kinds)) == 1:
                for pad in (0, 1):
                    out.append((mask, kinds, pad, (i + pad) % 16, 'HTML', 'grid'))
                    out.append((mask, kinds, pad, (i + pad + 3) % 16, 'String', 'grid'))
        # falsy winner over every uniform assignment of the lower sources
        for fk in FALSY:
            for other in KINDS3:
                i += 1
                kinds = (fk,) + (other,) * (k - 1)
                out.append((mask, kinds, i & 1, i % 16, 'H', 'falsy'))
                if tier == 'thorough':
                    out.append((mask, kinds, 1 - (i & 1), (i + 5) % 16, 'HTML', 'falsy'))
    return out


def configs_a_truth(tier):
    """Every subset of the sources that holds a client object, rendered with client objects whose
    truth value is false (length 0 / __bool__ False / one of each) x kind patterns: the client
    shapes (bare object, 1-tuple, 2-tuple, tuple with an attribute-less second object) rotate
    with the variant."""
    out = []
    i = 0
    for mask in range(1, 128):
        if not mask & 0b1100:
            continue
        k = bin(mask).count('1')
        rot = tuple(KINDS3[(j + mask) % 3] for j in range(k))
        pats = [(KINDS3[0],) * k, (KINDS3[1],) * k, (KINDS3[2],) * k, rot, (FALSY[mask % 5],) + rot[1:]]
        for tf in (1, 2, 3):
            for pi, kinds in enumerate(pats):
                i += 1
                if tier != 'thorough' and (pi + tf + mask) % 5 >= 2:
                    continue
                cls = ['H', 'HTML', 'String'][i % 3] if len(set(kinds)) == 1 else 'H'
                out.append((mask, kinds, i & 1, (i // 3) % 16 | tf << 4, cls, 'truth'))
    return out


def configs_h_truth(tier):
    """Every 8th systematic history again with falsy client objects."""
    out = []
    c = 0
    for j, hist in enumerate(configs_h(tier)):
        if j % 8 == 5:
            c += 1
            out.append(dict(hist, variant=hist['variant'] | (1 + c % 3) << 4))
    return out


# ================================================================== spelling evidence
def key_suffix(sp, syntax):
    """Replay files of one configuration under different spellings do not overwrite each other."""
    return ('_' + STYLES[sp] if sp else '') + ('_' + syntax if syntax != 'html' else '')


def names_evidence(ctx, part, sp, syntax, model, constructs):
    """Which binding constructs / sources had their probes compared under which spelling of
    the names and which tag syntax (the comparisons themselves are those of the part)."""
    style = STYLES[sp]
    n = sum(model.probes.values())
    ctx.table('N probes compared under spelling', style, n)
    ctx.table('N probes compared under tag syntax', syntax, n)
    ctx.table('N part x spelling', '%s/%s' % (part, style))
    for c in constructs:
        ctx.table('N construct x spelling', '%s/%s' % (c, style))
        ctx.table('N construct x tag syntax', '%s/%s' % (c, syntax))


# ================================================================== part B
def nest_value(level, label, vk, depth):
    name = 'n@L%d%s' % (level, label)
    if vk == 'plain':
        return U.Plain(name)
    if vk == 'call':
        return U.Call(name)
    ast = [U.Text('{%s|' % name)]
    for lv in range(1, depth + 1):
        ast.append(U.Probe('miss', 'b%d' % lv, True))
    ast += [U.Probe('miss', 'sequence-item', True), U.Probe('miss', 'error_value', True),
            U.Text('}')]
    return U.Tmpl(name, ast)


TREES = {'chain2': [[]], 'chain3': [[[]]], 'fork': [[], []], 'demo': [[[]], []],
         'bushy': [[[], []], [[]]]}
REC_ROUTES = ['direct', 'hop', 'hoplet']
REC_DRIVERS = ['kids', 'nxt']
# (driver, tree) combinations of the systematic part; driver nxt walks a chain
REC_TD = [('kids', 'chain3'), ('kids', 'fork'), ('kids', 'demo'), ('nxt', 'chain3'), ('nxt', 'chain2')]


def build_nest(kinds, vk, exc=None, rec=None, alt=None):
    """-> (ast, base scope dict of specs).  Level L (1-based) uses kinds[L-1].

    alt = None, or {'x': None | expression style, 'truth': None | 'len0' | 'false'}: x: the
    subjects of the in / with blocks are given as an EXPRESSION that is just the subject's name
    (<dtml-in "seq1">, <dtml-with expr="obj1"> ...; the subjects are plain containers, so name
    and expression denote the same object); truth: the objects whose attributes the blocks bind
    (items of in, subjects of with / with only) have a false truth value (a length of 0 / a
    __bool__ saying False) -- they are objects with attributes all the same.

    rec = None, or {'tree': nested lists, 'driver': 'kids' | 'nxt', 'route': 'direct' | 'hop' |
    'hoplet', 'doom': 0 | 1}: the nest becomes the template `self`, which between the two probe
    groups of its innermost block invokes ITSELF by name once per child of the current node of
    a small tree of objects (driver kids: <dtml-in kids>; driver nxt: <dtml-if nxt><dtml-with
    nxt>), directly or through the template `hop` (route hop; route hoplet: hop binds names
    with its own let block around the call).  Every node carries its own subjects for every
    level, so each activation binds other values: an inner activation of the very same block
    tags must leave the bindings of the outer activation as they were.  doom: the last leaf
    raises at the end of its innermost block and the invocation of the children is wrapped in
    a dtml-try, so an inner activation is also left through an exception.  own: `self` has
    construction defaults and variables of its own (names nothing else defines).  The
    returned ast is the top template (it invokes `self` by name; in the namespace the
    template is called `walk`).

    exc = None, or (j, raiser): the body of the innermost block ends by raising -- raiser
    'boom': a callable called by name; 'rsub': a sub-template with its own defaults and
    variables, invoked by name, that raises while it renders -- and a dtml-try is wrapped
    around the block of level j (j == depth+1: around the raising tag itself).  The handler
    holds a probe group and the usual groups follow after the handler and after every
    enclosing block: whatever the unwound blocks / sub-template bound must be gone."""
    D = len(kinds)
    P, T = U.Probe, U.Text
    alt = alt or {}
    truth = alt.get('truth')

    def S(name):
        """The subject of a block: by name, or by an expression that is the name."""
        return U.Ex(name, alt['x']) if alt.get('x') else name
    base = {'seen': U.Helper('seen')}
    sub_ast = [T('{sub|'), P('name', 'n', True)]
    for lv in range(1, D + 1):
        sub_ast.append(P('miss', 'b%d' % lv, True))
        if kinds[lv - 1] == 'inpfx':
            sub_ast.append(P('miss', 'p%d~item' % lv, True))
    sub_ast += [P('miss', 'sequence-item', True), P('miss', 'error_value', True),
                P('name', 'own', True), P('name', 'subn', True), T('}')]
    base['sub'] = U.Tmpl('sub', sub_ast, {'own': U.Plain('sub-own')})
    base['subn'] = U.Tmpl('subn', [T('{subn|'), P('name', 'n', True), P('miss', 'own', True), T('}')],
                          {'n': U.Plain('subn-n')})
    if exc or (rec and rec.get('doom')):
        base['boomX'] = U.Raiser('boomX', 'XError', 'boom-x')
    if exc:
        base['rsub'] = U.Tmpl('rsub', [T('{rsub|'), P('name', 'n', True), P('name', 'own2', True),
                                       P('name', 'rv', True), P('name', 'subn', True),
                                       P('call', 'boomX'), T('unreached}')],
                              {'n': U.Plain('rsub-n'), 'own2': U.Plain('rsub-own2')},
                              {'rv': U.Plain('rsub-rv')})

    def point(tag, cur):
        """Probe group at a point enclosed by levels 1..cur."""
        ps = [T(tag), P('name', 'n'), P('entity', 'n'), P('expr', 'n')]
        for lv in range(1, D + 1):
            ps.append(P('miss', 'b%d' % lv))
            if kinds[lv - 1] == 'inpfx':
                # the aliases <dtml-in prefix=p> defines next to sequence-item / sequence-index
                ps += [P('miss', 'p%d~item' % lv), P('miss', 'p%d~index' % lv)]
        ps += [P('miss', 'sequence-item'), P('miss', 'sequence-index'),
               P('miss', 'error_type'), P('miss', 'error_value')]
        if 'only' not in kinds:
            # error_tb is free text: only its presence is probed (not under `with only`,
            # where hiding of outer names is not asserted)
            ps.append(U.If('error_tb', [T('+tb')], [T('-tb')]))
        for lv in range(1, D + 1):
            if kinds[lv - 1] in IFLIKE:
                # inside a `with only` nested in this if-block the cached condition is an
                # outer name: whether it is hidden there is not asserted -> no probe
                hidden = lv <= cur and any(kinds[m - 1] == 'only' for m in range(lv + 1, cur + 1))
                if not hidden:
                    if kinds[lv - 1] != 'xelif':
                        ps.append(P('name', 'c%d' % lv))
                    if kinds[lv - 1] in ('elif', 'xelif'):
                        ps.append(P('name', 'e%d' % lv))
        ps += [P('name', 'sub'), P('name', 'subn'), P('miss', 'own')]
        if exc:
            ps += [P('miss', 'own2'), P('miss', 'rv')]
        if rec:
            ps += [P('miss', 'hopd'), P('miss', 'hv')]
            if rec.get('own'):
                ps += [P('miss', 'wd'), P('miss', 'wv')]
        return ps

    def node_scope(g):
        """The names one node of the tree (g: its tag; '' = the base namespace) supplies:
        its own `n` and its own subject for every level.  -> (scope, objects of `with only`)"""
        subjects = {'n': nest_value(0, 'base' + g, vk, D)}
        only_objs = []
        for lv in range(1, D + 1):
            k = kinds[lv - 1]
            b = 'b%d' % lv
            if k in LOOPS:
                items = []
                for i in range(2):
                    attrs = {'n': nest_value(lv, '%s.%d%s' % (k, i, g), vk, D),
                             b: U.Plain('%s@%s.%d%s' % (b, k, i, g))}
                    nm = 'item%d.%d%s' % (lv, i, g)
                    items.append(U.Map(nm, attrs) if k == 'inmap' else U.Obj(nm, attrs, truth))
                subjects['seq%d' % lv] = U.Seq('seq%d%s' % (lv, g), items)
            elif k in ('with', 'only'):
                o = U.Obj('obj%d%s' % (lv, g), {'n': nest_value(lv, k + g, vk, D),
                                                b: U.Plain('%s@%s%s' % (b, k, g))}, truth)
                subjects['obj%d' % lv] = o
                if k == 'only':
                    only_objs.append(o)
            elif k == 'withmap':
                subjects['map%d' % lv] = U.Map('map%d%s' % (lv, g), {'n': nest_value(lv, k + g, vk, D),
                                                                    b: U.Plain('%s@%s%s' % (b, k, g))})
            elif k in ('let', 'letx'):
                subjects['src%d' % lv] = nest_value(lv, k + g, vk, D)
            elif k == 'withns':
                subjects['src%d' % lv] = nest_value(lv, k + g, vk, D)
                subjects['bsrc%d' % lv] = U.Plain('%s@%s%s' % (b, k, g))
            elif k == 'if':
                subjects['c%d' % lv] = U.Call('c%d%s' % (lv, g))
            elif k in ('ifelse', 'unless'):
                subjects['c%d' % lv] = U.Call('c%d%s' % (lv, g), ret='falsy')
            elif k == 'elif':
                subjects['c%d' % lv] = U.Call('c%d%s' % (lv, g), ret='falsy')
                subjects['e%d' % lv] = U.Call('e%d%s' % (lv, g))
            elif k == 'xelif':
                subjects['e%d' % lv] = U.Call('e%d%s' % (lv, g))
            elif k == 'try':
                subjects['boom%d' % lv] = U.Raiser('boom%d%s' % (lv, g), 'L%dError' % lv,
                                                   'boom-%d%s' % (lv, g))
            else:
                raise ValueError(k)
        return subjects, only_objs

    nodes = []            # (scope, objects of `with only`) of every node, the base first
    doomed = {}           # tag -> scope

    def grow(g, shape):
        """Scope of the node g with its sub-tree: children under `kids` (a sequence, empty
        at a leaf) and the first child under `nxt` (None at a leaf) -- every node defines
        both, so that a leaf does not see its parent's."""
        scope, only_objs = node_scope(g)
        nodes.append((scope, only_objs))
        doomed[g] = scope
        children = [U.Obj('node%s/%d' % (g, i), grow('%s/%d' % (g, i), sh))
                    for i, sh in enumerate(shape)]
        scope['kids'] = U.Seq('kids' + g, children)
        scope['nxt'] = children[0] if children else U.Plain(None)
        scope['doom'] = U.Plain(0)
        return scope

    if rec:
        base.update(grow('', rec['tree']))
        if rec.get('doom'):
            # the leaf visited last: last child all the way down (driver nxt: first child)
            g, shape = '', rec['tree']
            while shape:
                i = 0 if rec['driver'] == 'nxt' else len(shape) - 1
                g, shape = '%s/%d' % (g, i), shape[i]
            doomed[g]['doom'] = U.Plain(1)
        hop_ast = [P('name', 'walk', True)]
        if rec['route'] == 'hoplet':
            hop_ast = [U.Let([('hv', 'name', 'n'), ('hw', 'expr', 'n')],
                             [P('name', 'hv', True)] + hop_ast + [P('name', 'hv', True),
                                                                 P('expr', 'hw', True)])]
        base['hop'] = U.Tmpl('hop', [T('{hop|'), P('miss', 'hopd', True)] + hop_ast + [T('}')],
                             {'hopd': U.Plain('hop-own')})
    else:
        scope, only_objs = node_scope('')
        nodes.append((scope, only_objs))
        base.update(scope)
    # the object of a `with only` is the whole namespace inside: it carries the helpers and
    # the subjects of the other levels of its node (same objects as in the namespace outside)
    for scope, only_objs in nodes:
        for o in only_objs:
            for src in (scope, base):
                for name, spec in src.items():
                    if name != 'n' and spec is not o and name not in o.attrs:
                        o.attrs[name] = spec

    def recursion():
        """Invocation of `self` for every child of the current node."""
        call = [T('{'), P('name', 'walk' if rec['route'] == 'direct' else 'hop'), T('}')]
        if rec['driver'] == 'kids':
            walk = [U.In('kids', False, call)]
        else:
            walk = [U.If('nxt', [U.With('nxt', 'inst', call)], [T('.')])]
        if rec.get('doom'):
            walk = [U.Try([T('discarded')] + walk + [T('unraised')], point('!r:', D))]
        return walk

    def raising():
        j, raiser = exc
        node = P('call', 'boomX') if raiser == 'boom' else P('name', 'rsub')
        if j == D + 1:
            return [U.Try([T('discarded'), node, T('unreached')], point('!%d:' % j, D))] + point('~%d:' % D, D)
        return [node, T('unreached')]

    def level(lv):
        k = kinds[lv - 1]
        body = point('<%d:' % lv, lv)
        if lv < D:
            body += level(lv + 1)
        elif rec:
            body += recursion()
        body += point('|%d>' % lv, lv)
        if exc and lv == D:
            body += raising()
        if rec and rec.get('doom') and lv == D:
            body += [U.If('doom', [P('call', 'boomX'), T('unreached')], [T(';')])]
        b = 'b%d' % lv
        c = 'c%d' % lv
        if k in LOOPS:
            blk = [U.In(S('seq%d' % lv), k == 'inmap', body, 'p%d' % lv if k == 'inpfx' else None)]
        elif k == 'with':
            blk = [U.With(S('obj%d' % lv), 'inst', body)]
        elif k == 'only':
            blk = [U.With(S('obj%d' % lv), 'only', body)]
        elif k == 'withmap':
            blk = [U.With(S('map%d' % lv), 'mapping', body)]
        elif k == 'withns':
            # the namespace object is built by an expression from the `_` helper: _.namespace(n=src, b=bsrc)
            # or _(n=src, b=bsrc); the expression reads src, so n is bound to the object itself
            style = ('namespace', 'under')[(lv + D + KINDS3.index(vk)) % 2]
            blk = [U.With(U.Ns(style, [('n', 'src%d' % lv), (b, 'bsrc%d' % lv)]), 'inst', body)]
        elif k == 'let':
            blk = [U.Let([('n', 'name', 'src%d' % lv), (b, 'name', 'n')], body)]
        elif k == 'letx':
            blk = [U.Let([('n', 'expr', 'src%d' % lv), (b, 'name', 'n')], body)]
        elif k == 'if':
            blk = [U.If(c, body, [T('ELSE')])]
        elif k == 'ifelse':
            blk = [U.If(c, [T('THEN')], body)]
        elif k == 'elif':
            blk = [U.If(c, [T('THEN')], [T('ELSE')], elifs=[('e%d' % lv, body)])]
        elif k == 'xelif':
            # the first condition of the block is an expression, the taken one a name
            blk = [U.If(U.Lit(0), [T('THEN')], [T('ELSE')], elifs=[('e%d' % lv, body)])]
        elif k == 'unless':
            blk = [U.Unless(c, body)]
        elif k == 'try':
            blk = [U.Try([T('discarded'), P('call', 'boom%d' % lv), T('unreached')], body)]
        else:
            raise ValueError(k)
        if exc and exc[0] == lv:
            blk = [U.Try([T('discarded')] + blk + [T('unreached')], point('!%d:' % lv, lv - 1))]
        return blk

    ast = point('^:', 0) + level(1) + point('$:', 0)
    if rec:
        if rec.get('own'):
            # the self-invoking template has construction defaults and variables of its own:
            # laid on top of the caller's namespace by every activation, gone after each
            base['walk'] = U.Tmpl('walk', ast, {'wd': U.Plain('walk-own-default')},
                                  {'wv': U.Plain('walk-own-variable')})
        else:
            base['walk'] = U.Tmpl('walk', ast)
        for scope, only_objs in nodes:
            for o in only_objs:
                o.attrs['walk'] = base['walk']
        ast = [T('top'), P('miss', 'wd'), P('miss', 'wv'), P('name', 'walk'),
               P('miss', 'wd'), P('miss', 'wv'), P('miss', 'hopd'), P('miss', 'hv')]
    return ast, base


def run_b(ctx, kinds, vk, bs, exc=None, sp=0, syntax='html', alt=None):
    case = {'part': 'B', 'kinds': list(kinds), 'vk': vk, 'bs': bs, 'exc': list(exc) if exc else None,
            'sp': sp, 'syntax': syntax, 'alt': alt}
    ctx.case(('B', tuple(kinds), vk, bs, exc) + ((sp, syntax) if sp or syntax != 'html' else ())
             + ((repr(sorted(alt.items())),) if alt else ()), True)
    C = classes()
    ast, base = build_nest(kinds, vk, exc, None, alt)
    truth = (alt or {}).get('truth')
    loser = {'n': U.Plain('n@loser')} if bs != 'ctor_map' else None
    model = U.Model()
    stack = [loser, base] if loser else [base]
    exp = model.render(ast, stack)
    rec = Recorder()
    spell = U.Spelling(sp)
    rz = U.Realizer(rec, C['HTML'], spell, syntax)
    src = U.to_dtml(ast, syntax, spell)
    xk = '%s@%d' % (exc[1], exc[0]) if exc else 'none'
    if alt:
        xk += '_alt-%s-%s' % (alt.get('x'), truth)
    try:
        rb = rz.real_scope(base)
        rl = rz.real_scope(loser) if loser else None
        if bs == 'ctor_kw':
            t = C['HTML'](src, rl, **rb)
        elif bs == 'ctor_map':
            t = C['HTML'](src, rb)
        else:
            t = C['HTML'](src, rl)
        if bs == 'kw':
            out = t(**rb)
        elif bs == 'vars':
            t.var(**rb)
            out = t()
        elif bs == 'client':
            out = t(rz.real(U.Obj('client', base, truth)))
        elif bs == 'mapping':
            out = t(None, rb)
        else:
            out = t()
    except Exception as e:
        ctx.violation('render raised %s: %s' % (type(e).__name__, short(str(e), 160)), case,
                      key='B_raise_%s_%s_%s_%s' % ('-'.join(kinds), vk, bs, xk) + key_suffix(sp, syntax),
                      detail={'source': src, 'expected': U.segments_text(exp)})
        return
    ctx.count('B:renders')
    ctx.table('B nest depth', len(kinds))
    for lv, k in enumerate(kinds):
        ctx.table('B block kind at depth', '%s@%d' % (k, lv + 1))
        if exc and exc[0] <= lv + 1:
            ctx.table('B block kind unwound by an exception (raiser)', '%s/%s' % (k, exc[1]))
    for a, b in zip(kinds, kinds[1:]):
        ctx.table('B kind directly inside kind', '%s>%s' % (a, b))
    ctx.table('B bound value kind', vk)
    ctx.table('B base namespace source', bs)
    ctx.table('B exception mode (raiser@try level)', xk)
    if exc:
        ctx.count('B:renders with a block or sub-template left by an exception')
    for f, n in model.probes.items():
        ctx.count('B:probes ' + f, n)
    ctx.count('B:sub-template invocations', model.subcalls)
    ctx.count('B:lookups shadowing an outer binding', model.shadowed)
    ctx.count('B:probes not asserted (absent name under with-only)', model.wild)
    ctx.count('B:calls expected', len(model.trace))
    problems = compare(exp, model.trace, out, rec)
    ctx.count('B:expressions evaluated as the subject of a block', sum(model.exprs.values()))
    if not problems and alt:
        ctx.count('B:renders with block subjects given by expression / falsy objects')
        for k in kinds:
            if alt.get('x') and k in SUBJECT_KINDS:
                ctx.table('B subject by expression (block kind/style)', '%s/%s' % (k, alt['x']))
            if truth and k in OBJECT_KINDS:
                ctx.table('B names from a falsy object (block kind/truth)', '%s/%s' % (k, truth))
        if truth and bs == 'client':
            ctx.table('B names from a falsy object (block kind/truth)', 'client/%s' % truth)
    if not problems:
        names_evidence(ctx, 'B', sp, syntax, model, list(kinds) + ['src:' + bs, 'sub-template defaults'])
    if problems:
        ctx.violation('; '.join(problems), case,
                      key='B_%s_%s_%s_%s' % ('-'.join(kinds), vk, bs, xk) + key_suffix(sp, syntax),
                      detail={'source': src, 'expected': U.segments_text(exp),
                              'observed': short(out, 3000), 'expected_calls': model.trace[:60],
                              'observed_calls': rec.calls()[:60]})
    if ctx.shard % 2 == 1 and not ctx.samples and len(kinds) == 2 and len(set(kinds)) == 2:
        ctx.sample({'part': 'B', 'nest': list(kinds), 'value_kind': vk, 'base_source': bs,
                    'exception': xk,
                    'template': short(src, 1200), 'output': short(out, 1500),
                    'expected': short(U.segments_text(exp), 1500), 'calls': rec.calls()[:40]})


# ================================================================== part R: re-entrant blocks
def tree_size(shape):
    return 1 + sum(tree_size(c) for c in shape)


def tree_depth(shape):
    return 1 + max([tree_depth(c) for c in shape] or [0])


def rec_cost(kinds, driver, shape):
    """Logical size of one render: probe groups rendered = activations of the template x
    probe groups per activation (a loop level renders its body once per item: two items)."""
    m = 1
    groups = 2
    for k in kinds:
        if k in LOOPS:
            m *= 2
        groups += 2 * m

    def activations(shape):
        children = shape[:1] if driver == 'nxt' else shape
        return 1 + m * sum(activations(c) for c in children)
    return activations(shape) * groups


def fit_tree(kinds, driver, shape, cap=160):
    """Prune the leaf visited last until the render is within the logical size cap; the
    root keeps at least one child (so there is always a re-entrant activation)."""
    shape = [list(c) for c in _copy_tree(shape)]
    while rec_cost(kinds, driver, shape) > cap and tree_size(shape) > 2:
        node = shape
        while node[-1]:
            node = node[-1]
        node.pop()
    return shape


def _copy_tree(shape):
    return [_copy_tree(c) for c in shape]


def run_r(ctx, kinds, vk, bs, rec):
    """The nest as a template that invokes itself over a tree of objects (build_nest, rec).
    The top template is rendered rec['renders'] times; the model persists across them."""
    kinds = tuple(kinds)
    case = {'part': 'R', 'kinds': list(kinds), 'vk': vk, 'bs': bs, 'rec': rec}
    ctx.case(('R', kinds, vk, bs, repr(sorted(rec.items()))), True)
    C = classes()
    ast, base = build_nest(kinds, vk, None, rec)
    # top: the self-invoking template object is itself the template the caller renders (its
    # namespace comes with the call: keywords, client or mapping), not a wrapper around it
    top_self = bool(rec.get('top')) and bs in ('kw', 'client', 'mapping')
    loser = {'n': U.Plain('n@loser')} if bs != 'ctor_map' and not top_self else None
    model = U.Model()
    stack = [loser, base] if loser else [base]
    rcd = Recorder()
    sp, syntax = rec.get('sp', 0), rec.get('syntax', 'html')
    spell = U.Spelling(sp)
    rz = U.Realizer(rcd, C['HTML'], spell, syntax)
    src = U.to_dtml(ast, syntax, spell)
    self_src = U.to_dtml(base['walk'].ast, syntax, spell)
    key = 'R_%s_%s_%s_%s_%s' % ('-'.join(kinds), vk, bs, rec['driver'], rec['route']) + key_suffix(sp, syntax)
    rb = rz.real_scope(base)
    rl = rz.real_scope(loser) if loser else None
    if top_self:
        t = rb[spell('walk')]
    elif bs == 'ctor_kw':
        t = C['HTML'](src, rl, **rb)
    elif bs == 'ctor_map':
        t = C['HTML'](src, rb)
    else:
        t = C['HTML'](src, rl)
    if bs == 'vars':
        t.var(**rb)
    client = rz.real(U.Obj('client', base)) if bs == 'client' else None
    for r in range(rec.get('renders', 1)):
        model.trace = []
        rcd.clear()
        before = (model.reentered, model.after_reentry, model.reentry_raised)
        if top_self:
            exp = model.show(model.resolve(stack, 'walk'))
        else:
            exp = model.render(ast, stack)
        try:
            if bs == 'kw':
                out = t(**rb)
            elif bs == 'client':
                out = t(client)
            elif bs == 'mapping':
                out = t(None, rb)
            else:
                out = t()
        except Exception as e:
            ctx.violation('render %d of a template invoking itself raised %s: %s'
                          % (r + 1, type(e).__name__, short(str(e), 160)), case, key=key + '_raise',
                          detail={'source': self_src, 'expected': short(U.segments_text(exp), 3000)})
            return
        ctx.count('R:renders')
        if r:
            ctx.count('R:renders repeated on the same template objects')
        if top_self:
            ctx.count('R:renders with the self-invoking template called by the application itself')
        if rec.get('own'):
            ctx.count('R:renders with own defaults and variables on the self-invoking template')
        ctx.count('R:activations inside an activation of the same template', model.reentered - before[0])
        ctx.count('R:probes in an outer activation after an inner activation of the same template ended',
                  model.after_reentry - before[1])
        ctx.count('R:inner activations left through an exception', model.reentry_raised - before[2])
        ctx.count('R:calls expected', len(model.trace))
        if model.reentered - before[0]:
            for lv, k in enumerate(kinds):
                ctx.table('R block kind re-entered', k)
                ctx.table('R block kind re-entered at depth', '%s@%d' % (k, lv + 1))
                if model.reentry_raised - before[2]:
                    ctx.table('R block kind of an inner activation unwound by an exception', k)
            ctx.table('R route', rec['route'])
            ctx.table('R driver', rec['driver'])
            ctx.table('R bound value kind', vk)
            ctx.table('R base namespace source', bs)
            ctx.table('R activations of one template in progress at once', model.max_active)
        problems = compare(exp, model.trace, out, rcd)
        if problems:
            ctx.violation('render %d of a template invoking itself: %s' % (r + 1, '; '.join(problems)),
                          case, key=key,
                          detail={'source': self_src, 'hop': U.to_dtml(base['hop'].ast, syntax, spell),
                                  'expected': short(U.segments_text(exp), 4000),
                                  'observed': short(out, 4000), 'expected_calls': model.trace[:60],
                                  'observed_calls': rcd.calls()[:60]})
            return
    ctx.table('R nest depth', len(kinds))
    ctx.table('R tree nodes', tree_size(rec['tree']))
    names_evidence(ctx, 'R', sp, syntax, model, list(kinds) + ['src:' + bs, 'sub-template defaults'])
    for f, n in model.probes.items():
        ctx.count('R:probes ' + f, n)
    ctx.count('R:sub-template invocations', model.subcalls)
    ctx.count('R:probes not asserted (absent name under with-only)', model.wild)


def configs_r(tier):
    """Systematic part: every block kind (depth 1) x value kind x route x (driver, tree), the
    exception variant and the base source rotating; every pair of kinds (depth 2) with the
    rest rotating (thorough: x value kind x route; depth 3 rotating)."""
    out = []
    i = 0
    for kinds in itertools.product(NEST_KINDS, repeat=1):
        for vk in KINDS3:
            for route in REC_ROUTES:
                for driver, tree in REC_TD:
                    i += 1
                    dooms = (0, 1) if tier == 'thorough' else ((i // 2) % 2,)
                    for doom in dooms:
                        out.append((kinds, vk, BASE_SOURCES[(i + doom) % 6],
                                    {'tree': TREES[tree], 'driver': driver, 'route': route,
                                     'doom': doom, 'renders': 1 + i % 2, 'top': (i // 3) % 2,
                                     'own': (i // 7) % 2}))
    p = 0
    for kinds in itertools.product(NEST_KINDS, repeat=2):
        p += 1
        for a, vk in enumerate(KINDS3):
            for b, route in enumerate(REC_ROUTES):
                if tier == 'quick' and (p % 3 != a or (p // 3) % 3 != b):
                    continue
                i += 1
                driver, tree = REC_TD[i % 5]
                out.append((kinds, vk, BASE_SOURCES[i % 6],
                            {'tree': fit_tree(kinds, driver, TREES[tree]), 'driver': driver,
                             'route': route, 'doom': (i // 5) % 2, 'renders': 1 + (i // 2) % 2,
                             'top': (i // 3) % 2, 'own': (i // 7) % 2}))
    if tier == 'thorough':
        for kinds in itertools.product(NEST_KINDS, repeat=3):
            i += 1
            if 'withns' in kinds and i % 2:
                continue
            driver, tree = REC_TD[i % 5]
            out.append((kinds, KINDS3[i % 3], BASE_SOURCES[i % 6],
                        {'tree': fit_tree(kinds, driver, TREES[tree]), 'driver': driver,
                         'route': REC_ROUTES[(i // 3) % 3], 'doom': (i // 5) % 2, 'renders': 1,
                         'top': (i // 3) % 2, 'own': (i // 7) % 2}))
    return out


def random_tree(rng, budget, depth):
    """Nested lists; at most `budget` nodes below the root, at most `depth` levels below it."""
    shape = []
    if depth <= 0:
        return shape, budget
    for _ in range(rng.randint(0 if depth < 3 else 1, 3)):
        if budget <= 0:
            break
        budget -= 1
        child, budget = random_tree(rng, budget, depth - 1)
        shape.append(child)
    return shape, budget


def random_rec(rng, tier):
    d = rng.choice([1, 1, 2, 2, 3]) if tier == 'thorough' else rng.choice([1, 2, 2, 3])
    kinds = tuple(rng.choice(NEST_KINDS) for _ in range(d))
    driver = rng.choice(['kids', 'kids', 'nxt'])
    tree, _ = random_tree(rng, 6, 3)
    # loops at several levels multiply the activations: the tree is pruned to the size cap
    tree = fit_tree(kinds, driver, tree, 96)
    rec = {'tree': tree, 'driver': driver, 'route': rng.choice(REC_ROUTES),
           'doom': rng.randint(0, 1), 'renders': rng.choice([1, 1, 2, 3]), 'top': rng.randint(0, 1),
           'own': rng.randint(0, 1)}
    return kinds, rng.choice(KINDS3), rng.choice(BASE_SOURCES), rec


def configs_b(tier):
    out = []
    maxd = 2 if tier == 'quick' else 3
    i = 0
    for d in range(1, maxd + 1):
        for kinds in itertools.product(NEST_KINDS, repeat=d):
            for vk in KINDS3:
                i += 1
                if d == 3 and 'withns' in kinds and i % 3:
                    continue        # triples with the namespace-expression block: every third
                if tier == 'thorough':
                    sources = BASE_SOURCES if d < 3 else [BASE_SOURCES[i % 6], BASE_SOURCES[(i + 3) % 6]]
                else:
                    sources = [BASE_SOURCES[i % 6]] if d == 2 else BASE_SOURCES
                for bs in sources:
                    out.append((kinds, vk, bs, None))
                # exception modes: try around level j (d+1: around the raising tag), two raisers
                x = 0
                for j in range(1, d + 2):
                    for raiser in ('boom', 'rsub'):
                        x += 1
                        if tier == 'thorough' and d == 3 and (i + x) % 2:
                            continue
                        out.append((kinds, vk, BASE_SOURCES[(i + x) % 6], (j, raiser)))
    # block subjects given by an expression that is just the name; names from falsy objects
    j = 0
    for kinds in itertools.product(NEST_KINDS, repeat=1):
        if kinds[0] not in SUBJECT_KINDS:
            continue
        for xi, xs in enumerate(EX_STYLES):
            for vk in (KINDS3 if tier == 'thorough' else [KINDS3[(xi + j) % 3]]):
                j += 1
                exc = (None, (1, 'boom'), (2, 'rsub'))[j % 3]
                out.append((kinds, vk, BASE_SOURCES[j % 6], exc, 0, 'html', {'x': xs, 'truth': None}))
        if kinds[0] in OBJECT_KINDS:
            for truth in TRUTHS[1:]:
                for vk in KINDS3:
                    j += 1
                    exc = (None, (1, 'rsub'), (2, 'boom'))[j % 3]
                    out.append((kinds, vk, ('client', BASE_SOURCES[j % 6])[j % 2], exc, 0, 'html',
                                {'x': EX_STYLES[j % 6] if j % 4 == 0 else None, 'truth': truth}))
    q = 0
    for d in range(2, maxd + 1):
        for kinds in itertools.product(NEST_KINDS, repeat=d):
            if not any(k in SUBJECT_KINDS for k in kinds):
                continue
            q += 1
            if d == 3 and q % 8:
                continue
            for vk in (KINDS3 if tier == 'thorough' and d == 2 else [KINDS3[j % 3]]):
                j += 1
                exc = None if j % 2 else (1 + j % (d + 1), ('boom', 'rsub')[(j // 2) % 2])
                out.append((kinds, vk, BASE_SOURCES[j % 6], exc, 0, 'html',
                            {'x': EX_STYLES[j % 6], 'truth': None}))
                if any(k in OBJECT_KINDS for k in kinds):
                    out.append((kinds, vk, ('client', BASE_SOURCES[(j + 1) % 6])[j % 2], exc, 0, 'html',
                                {'x': EX_STYLES[(j // 6) % 6] if j % 3 == 0 else None,
                                 'truth': TRUTHS[1 + j % 2]}))
    return out


# ================================================================== part N: spelling of names
def pick_spelling(rng):
    """Seeded cases: the generator's lower-case names in 40 % of them, else any other style;
    the old tag syntax in 30 %."""
    sp = 0 if rng.random() < 0.4 else rng.randint(1, len(STYLES) - 1)
    return sp, (rng.choice(SYNTAXES[1:]) if rng.random() < 0.3 else 'html')


def configs_n(tier):
    """Configurations of the parts A, H, B and R rendered again with the names spelled in
    every other style (capitalised, upper case, mixed case with digits and underscores,
    lower case with digits and underscores, long, all names case variants of one word) and /
    or the tags written in the old <!--#tag--> syntax.  -> [(part, args)]"""
    out = []
    thorough = tier == 'thorough'
    ns = len(STYLES)
    i = 0
    # -- A: every subset of the sources x every style x kind patterns
    for mask in range(1, 128):
        k = bin(mask).count('1')
        rot = tuple(KINDS3[(j + mask) % 3] for j in range(k))
        pats = [(KINDS3[0],) * k, (KINDS3[1],) * k, (KINDS3[2],) * k, rot,
                (FALSY[mask % 5],) + rot[1:]]
        for sp in range(ns):
            for pi, kinds in enumerate(pats):
                i += 1
                if sp == 0:
                    if pi != mask % 5 and not thorough:
                        continue
                    syntax = SYNTAXES[1 + i % 2]
                else:
                    if not thorough and (pi + sp + mask) % 5 >= 2:
                        continue
                    syntax = SYNTAXES[(i // 3) % 3]
                cls = ['H', 'HTML', 'String'][i % 3] if len(set(kinds)) == 1 else 'H'
                if cls == 'String' and sp == 0:
                    cls = 'HTML'
                out.append(('A', (mask, kinds, i & 1, i % 16, cls, 'names', sp,
                                  'html' if cls == 'String' else syntax)))
    # -- H: every 8th systematic history
    c = 0
    for j, hist in enumerate(configs_h(tier)):
        if j % 8 == 3:
            c += 1
            sp = c % ns
            out.append(('H', (dict(hist, sp=sp, syntax=SYNTAXES[1 + (c // ns) % 2 if sp == 0 else (c // ns) % 3]),)))
    # -- B: depth 1: kind x value kind x style; depth 2: every pair, styles rotating
    modes1 = [(1, 'boom'), (1, 'rsub'), (2, 'boom'), (2, 'rsub')]
    for kinds in itertools.product(NEST_KINDS, repeat=1):
        for vk in KINDS3:
            for sp in range(ns):
                i += 1
                syntax = SYNTAXES[1 + (i // 2) % 2 if sp == 0 else (i // 2) % 3]
                out.append(('B', (kinds, vk, BASE_SOURCES[i % 6], None, sp, syntax)))
                for x, mode in enumerate(modes1):
                    if thorough or (x + i) % 2 == 0:
                        out.append(('B', (kinds, vk, BASE_SOURCES[(i + x + 1) % 6], mode, sp, syntax)))
    p = 0
    for kinds in itertools.product(NEST_KINDS, repeat=2):
        p += 1
        for sp in range(ns):
            if not thorough and (sp - p) % ns not in (0, 3, 5):
                continue
            for a, vk in enumerate(KINDS3):
                if not thorough and (p + sp) % 3 != a:
                    continue
                i += 1
                syntax = SYNTAXES[1 + (i // 2) % 2 if sp == 0 else (i // 2) % 3]
                out.append(('B', (kinds, vk, BASE_SOURCES[i % 6], None, sp, syntax)))
                out.append(('B', (kinds, vk, BASE_SOURCES[(i + 2) % 6],
                                  (1 + i % 3, ('boom', 'rsub')[(i // 3) % 2]), sp, syntax)))
    if thorough:
        for kinds in itertools.product(NEST_KINDS, repeat=3):
            i += 1
            if 'withns' in kinds and i % 2:
                continue
            sp = i % ns
            syntax = SYNTAXES[1 + (i // ns) % 2 if sp == 0 else (i // ns) % 3]
            out.append(('B', (kinds, KINDS3[i % 3], BASE_SOURCES[i % 6],
                              None if i % 2 else (1 + i % 4, ('boom', 'rsub')[(i // 4) % 2]), sp, syntax)))
    # -- R: depth 1: kind x style (thorough: x value kind); depth 2: every pair, style rotating
    for d in (1, 2):
        for p, kinds in enumerate(itertools.product(NEST_KINDS, repeat=d)):
            for sp in range(ns):
                if d == 2 and (sp != p % ns if not thorough else (sp + p) % 2):
                    continue
                for a, vk in enumerate(KINDS3):
                    i += 1
                    if not thorough and (p + sp) % 3 != a:
                        continue
                    driver, tree = REC_TD[i % 5]
                    out.append(('R', (kinds, vk, BASE_SOURCES[i % 6],
                                      {'tree': fit_tree(kinds, driver, TREES[tree]), 'driver': driver,
                                       'route': REC_ROUTES[(i // 2) % 3], 'doom': (i // 5) % 2,
                                       'renders': 1 + (i // 4) % 2, 'top': (i // 3) % 2, 'own': (i // 7) % 2,
                                       'sp': sp, 'syntax': SYNTAXES[1 + (i // 2) % 2 if sp == 0 else (i // 2) % 3]})))
    return out


# ================================================================== driver hooks
def anchors():
    """Entry counts of engine internals: diagnosis only (a refactoring may rename them; the
    verdict rests on the output comparisons)."""
    from DocumentTemplate import DT_String, DT_With, DT_Let, DT_In, DT_Try, DT_Util
    from DocumentTemplate import _DocumentTemplate as DT
    out = []
    for label, holder, path in (('String.__call__', DT_String, 'String.__call__'),
                                ('TemplateDict.getitem', DT, 'TemplateDict.getitem'),
                                ('TemplateDict.__getitem__', DT, 'TemplateDict.__getitem__'),
                                ('InstanceDict.__getitem__', DT, 'InstanceDict.__getitem__'),
                                ('render_blocks_', DT, 'render_blocks_'),
                                ('With.render', DT_With, 'With.render'),
                                ('Let.render', DT_Let, 'Let.render'),
                                ('InClass.renderwob', DT_In, 'InClass.renderwob'),
                                ('Try.render_try_except', DT_Try, 'Try.render_try_except'),
                                ('Eval.eval', DT_Util, 'Eval.eval')):
        f = holder
        for part in path.split('.'):
            f = getattr(f, part, None)
        if f is not None:
            out.append((label, f))
    return out


def run(ctx, spec):
    from vlib.reach import Reach
    reach = Reach()
    for label, f in anchors():
        reach.watch(label, f)
    reach.start()
    try:
        for i, cfg in enumerate(configs_a(ctx.tier)):
            if i % ctx.nshards == ctx.shard:
                run_a(ctx, *cfg)
        # seeded mixed assignments over all seven kinds (falsy values anywhere)
        nrand = (4000 if ctx.tier == 'quick' else 120000) // ctx.nshards
        rng = ctx.rng
        allk = KINDS3 + FALSY
        for _ in range(nrand):
            mask = rng.randint(1, 127)
            k = bin(mask).count('1')
            kinds = tuple(rng.choice(allk) for _ in range(k))
            ctx.count('A:seeded mixed assignments')
            run_a(ctx, mask, kinds, rng.randint(0, 1), rng.randint(0, 63),
                  rng.choice(['H', 'H', 'HTML']), 'seeded', *pick_spelling(rng))
        for i, cfg in enumerate(configs_a_truth(ctx.tier)):
            if i % ctx.nshards == ctx.shard:
                ctx.count('A:configurations rendered with falsy client objects')
                run_a(ctx, *cfg)
        for i, cfg in enumerate(configs_x(ctx.tier)):
            if i % ctx.nshards == ctx.shard:
                run_x(ctx, *cfg)
        for _ in range((320 if ctx.tier == 'quick' else 3200) // ctx.nshards):
            ctx.count('X:seeded configurations')
            mask = rng.randint(1, 127)
            kinds = tuple(rng.choice(allk) for _ in range(bin(mask).count('1')))
            run_x(ctx, rng.choice(X_FORMS), mask, kinds, rng.randint(0, 63), *pick_spelling(rng))
        for i, hist in enumerate(configs_h(ctx.tier)):
            if i % ctx.nshards == ctx.shard:
                run_h(ctx, hist)
        for i, hist in enumerate(configs_h_truth(ctx.tier)):
            if i % ctx.nshards == ctx.shard:
                ctx.count('H:histories rendered again with falsy client objects')
                run_h(ctx, hist)
        for _ in range((480 if ctx.tier == 'quick' else 16000) // ctx.nshards):
            ctx.count('H:seeded histories')
            sp, syntax = pick_spelling(rng)
            run_h(ctx, dict(random_history(rng), sp=sp, syntax=syntax))
        for i, cfg in enumerate(configs_b(ctx.tier)):
            if i % ctx.nshards == ctx.shard:
                run_b(ctx, *cfg)
        for i, cfg in enumerate(configs_r(ctx.tier)):
            if i % ctx.nshards == ctx.shard:
                run_r(ctx, *cfg)
        for _ in range((240 if ctx.tier == 'quick' else 6400) // ctx.nshards):
            ctx.count('R:seeded nests over seeded trees')
            kinds, vk, bs, rec = random_rec(rng, ctx.tier)
            sp, syntax = pick_spelling(rng)
            run_r(ctx, kinds, vk, bs, dict(rec, sp=sp, syntax=syntax))
        runners = {'A': run_a, 'H': run_h, 'B': run_b, 'R': run_r}
        for i, (part, args) in enumerate(configs_n(ctx.tier)):
            if i % ctx.nshards == ctx.shard:
                ctx.count('N:configurations rendered again under another spelling / tag syntax')
                runners[part](ctx, *args)
    finally:
        reach.stop()
        reach.report(ctx)


def finish(agg):
    c = agg['counters']
    t = agg['tables']
    inc = []
    subsets = t.get('A subsets rendered', {})
    missing = [m for m in range(1, 128) if not subsets.get('%03d' % m)]
    if missing:
        inc.append('%d of the 127 source subsets were never rendered (first: %s)'
                   % (len(missing), missing[:5]))
    # entry counts of engine internals are diagnosis: a renamed / rewired function shows up in
    # the coverage notes, the verdict rests on the output-level comparisons below
    unreached = [label for label, _f in ANCHOR_LABELS if not c.get('reach:' + label)]
    for k in ('A:probes name', 'A:probes entity', 'A:probes expr', 'A:probes miss',
              'B:probes name', 'B:probes entity', 'B:probes expr', 'B:probes miss',
              'A:sub-template invocations', 'B:sub-template invocations',
              'A:lookups shadowing a lower source', 'B:lookups shadowing an outer binding',
              'B:calls expected', 'A:follow-up calls on the same template object',
              'A:source-unchanged checks', 'H:calls',
              'H:calls without keywords after a call with keywords',
              'H:var() between calls (probed name)', 'H:var() between calls (bystander name)',
              'B:renders with a block or sub-template left by an exception'):
        if not c.get(k):
            inc.append('monitor never evaluated: ' + k)
    maxd = 2 if agg['tier'] == 'quick' else 3
    kd = t.get('B block kind at depth', {})
    for d in range(1, maxd + 1):
        for k in NEST_KINDS:
            if not kd.get('%s@%d' % (k, d)):
                inc.append('block kind %s never rendered at depth %d' % (k, d))
    unw = t.get('B block kind unwound by an exception (raiser)', {})
    for k in NEST_KINDS:
        for r in ('boom', 'rsub'):
            if not unw.get('%s/%s' % (k, r)):
                inc.append('block kind %s never left through an exception raised by %s' % (k, r))
    # part R: the deciding comparisons are the probe groups an outer activation renders
    # after an inner activation of the same template (the same block tag objects) ended
    for k in ('R:renders', 'R:activations inside an activation of the same template',
              'R:probes in an outer activation after an inner activation of the same template ended',
              'R:inner activations left through an exception',
              'R:renders repeated on the same template objects',
              'R:renders with the self-invoking template called by the application itself',
              'R:renders with own defaults and variables on the self-invoking template'):
        if not c.get(k):
            inc.append('monitor never evaluated: ' + k)
    rk = t.get('R block kind re-entered', {})
    ru = t.get('R block kind of an inner activation unwound by an exception', {})
    for k in NEST_KINDS:
        if not rk.get(k):
            inc.append('block kind %s never re-entered by a template invoking itself' % k)
        if not ru.get(k):
            inc.append('block kind %s of an inner activation never left through an exception' % k)
    for name, keys in (('R route', REC_ROUTES), ('R driver', REC_DRIVERS), ('R bound value kind', KINDS3),
                       ('R base namespace source', BASE_SOURCES)):
        for k in keys:
            if not t.get(name, {}).get(k):
                inc.append('%s %s never rendered with a re-entrant activation' % (name[2:], k))
    # part N: the deciding comparisons are the probes of the parts rendered with the names in
    # another spelling / the tags in another syntax: every binding construct and every source
    # must have been compared under every spelling and every syntax
    if not c.get('N:configurations rendered again under another spelling / tag syntax'):
        inc.append('monitor never evaluated: N:configurations rendered again under another spelling / tag syntax')
    constructs = list(NEST_KINDS) + ['src:' + s for s in SOURCES] + ['src:' + s for s in BASE_SOURCES] \
        + ['sub-template defaults', 'let (two bindings, the second reading the first)', 'if / elif / unless cache']
    for dim, table, compared, values in (
            ('spelling', 'N construct x spelling', 'N probes compared under spelling', STYLES),
            ('tag syntax', 'N construct x tag syntax', 'N probes compared under tag syntax', SYNTAXES)):
        for v in values:
            if not t.get(compared, {}).get(v):
                inc.append('no probe was compared under %s %s' % (dim, v))
            for k in constructs:
                if not t.get(table, {}).get('%s/%s' % (k, v)):
                    inc.append('%s never compared under %s %s' % (k, dim, v))
    for part in 'AHBRX':
        for v in STYLES:
            if not t.get('N part x spelling', {}).get('%s/%s' % (part, v)):
                inc.append('part %s never rendered under spelling %s' % (part, v))
    wk = t.get('A winner source x kind', {})
    for s in SOURCES:
        for k in KINDS3 + FALSY:
            if not wk.get('%s/%s' % (s, k)):
                inc.append('winner %s of kind %s never rendered' % (s, k))
    # falsy client objects: every client shape x truth value compared, also as the winner
    fc = t.get('A falsy client (shape/truth)', {})
    for shape in ('bare', 'tuple(last)', 'tuple(first)', 'tuple(first,last)', 'tuple(first,empty)'):
        for tr in ('len0', 'false') + (('mixed',) if shape == 'tuple(first,last)' else ()):
            if not fc.get('%s/%s' % (shape, tr)):
                inc.append('client shape %s never compared with a client whose truth value is %s' % (shape, tr))
    for k in ('A:renders won by a falsy client object', 'H:calls with a falsy client object',
              'B:renders with block subjects given by expression / falsy objects',
              'B:expressions evaluated as the subject of a block'):
        if not c.get(k):
            inc.append('monitor never evaluated: ' + k)
    bx = t.get('B subject by expression (block kind/style)', {})
    for k in SUBJECT_KINDS:
        for st in EX_STYLES:
            if not bx.get('%s/%s' % (k, st)):
                inc.append('block kind %s never compared with its subject given as an expression in style %s' % (k, st))
    bt = t.get('B names from a falsy object (block kind/truth)', {})
    for k in OBJECT_KINDS + ('client',):
        for tr in TRUTHS[1:]:
            if not bt.get('%s/%s' % (k, tr)):
                inc.append('%s never compared with names coming from an object whose truth value is %s' % (k, tr))
    # part X: the deciding comparisons are output and call trace of the name-or-expression template
    for k in ('X:renders', 'X:probes xvar', 'X:probes xcall', 'X:probes subcall', 'X:probes name', 'X:probes expr',
              'X:callable objects / sequences called by a lookup by name', 'X:templates ended by dtml-return',
              'X:namespaces taken from a falsy object', 'X:calls expected'):
        if not c.get(k):
            inc.append('monitor never evaluated: ' + k)
    for name, rows in (('X winner kind x form', X_KINDS), ('X winner source x form', SOURCES), ('X tag x form', X_TAGS)):
        for r in rows:
            for f in X_FORMS:
                if not t.get(name, {}).get('%s/%s' % (r, f)):
                    inc.append('%s: %s never compared in form %s' % (name[2:], r, f))
    for st in EX_STYLES + ['namespace', 'under', 'pos']:
        if not t.get('X expressions evaluated (style)', {}).get(st):
            inc.append('no expression of style %s was evaluated in part X' % st)
    for tr in TRUTHS[1:]:
        if not t.get('X falsy client of a template called from an expression', {}).get(tr):
            inc.append('no template was called from an expression with a client whose truth value is %s' % tr)
    return {'inconclusive': inc,
            'coverage': {'exhaustive': True,
                         'explanation': 'exhaustive: 127 subsets x 3^|S| kind assignments (16383), '
                                        'falsy winners, S1,S2,S1 call histories, all nests of 15 block kinds to depth %d x 3 '
                                        'value kinds x exception modes, every block kind / pair of kinds re-entered by a '
                                        'template invoking itself; every source / block kind under 7 spellings of the '
                                        'names and 3 tag syntaxes; every tag taking a name or an expression x 7 forms x '
                                        '7 winner sources x 8 value kinds; every block subject as an expression x 6 '
                                        'spellings; falsy clients / objects for every client shape and object-based '
                                        'block kind; seeded: mixed 8-kind assignments, long histories, '
                                        'self-invoking nests over seeded trees' % maxd,
                         'subsets_rendered': len(subsets),
                         'engine_internals_never_entered (diagnosis)': unreached,
                         'nest_kinds': NEST_KINDS, 'design_kinds': DESIGN_KINDS}}


ANCHOR_LABELS = [('String.__call__', None), ('TemplateDict.getitem', None),
                 ('TemplateDict.__getitem__', None), ('InstanceDict.__getitem__', None),
                 ('render_blocks_', None), ('With.render', None), ('Let.render', None),
                 ('InClass.renderwob', None), ('Try.render_try_except', None), ('Eval.eval', None)]


def replay(ctx, rep):
    c = rep['case']
    if c['part'] == 'A':
        run_a(ctx, c['mask'], tuple(c['kinds']), c['pad'], c['variant'], c['cls'], 'replay',
              c.get('sp', 0), c.get('syntax', 'html'))
    elif c['part'] == 'H':
        run_h(ctx, c['hist'])
    elif c['part'] == 'X':
        run_x(ctx, c['xs'], c['mask'], tuple(c['kinds']), c['variant'], c.get('sp', 0), c.get('syntax', 'html'))
    elif c['part'] == 'R':
        run_r(ctx, tuple(c['kinds']), c['vk'], c['bs'], c['rec'])
    else:
        run_b(ctx, tuple(c['kinds']), c['vk'], c['bs'], tuple(c['exc']) if c.get('exc') else None,
              c.get('sp', 0), c.get('syntax', 'html'), c.get('alt'))
