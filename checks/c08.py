"""C08 — namespace stack and recursion level are restored on every exit path.

Monitor: vlib/c08_util.StackMonitor — try/finally wrappers on TemplateDict._push/_pop,
render_blocks_, every tag's render/renderwb/renderwob/__call__, tpRender/tpRenderTABLE and
String.__call__ that snapshot (list(md._data), md.level) of the namespace each frame was given
and compare identity-and-order on every exit (return, exception, DTReturn).  Independent of the
wrappers the harness (a) passes its own TemplateDict as `mapping` (sub-template protocol) and
compares it before/after the call, and (b) places head/tail probes around every dtml-try that
read the bindings of a fixed vocabulary of marker names (every scope a case can push binds a
unique marker and shadows `x`): the tail record must equal the head record of the same try, and
the final tail of a faulted run must equal the final tail of the fault-free run.

Each template is called in up to four modes: sub-template protocol (t(None, md)), protocol with a
client and keywords, protocol with a tuple ("path") of clients, and as an ordinary top-level call.

Workload (fault enumeration): for each template a fault-free run counts the N fault points
(namespace callables, item/with/tree-node methods, client __getattr__, __str__, sequence element
access, iterator pulls, guard calls); then for k = 1..N the k-th point raises a custom Exception,
KeyError (own name / foreign key), DTReturn, a BaseException subclass, and point-specific
Unauthorized / AttributeError / IndexError; then pairs (k, j>k) over the points that the
k-faulted run still reaches (handlers, else, finally blocks, later siblings).
"""
import hashlib
import json

from vlib import c08_util as U

ID = 'C08'
LEVEL = 'fault_enumeration'
RULE = ('templates = a deterministic atlas (every block kind alone, inside try/except/else, inside '
        'try/finally, every ordered pair of block kinds, engine-raised exceptions inside every block '
        'kind, guarded variants with refused items, recursion-limit and tree-swallow scenarios) plus '
        'seeded random trees nested <= 3; for each template and call mode (sub-template protocol with a '
        'harness-owned TemplateDict / with client+keywords / top-level call) a fault-free run counts the '
        'N fault points, then every k in 1..N is faulted with every applicable fault kind, then pairs '
        '(k,j). distinct = distinct (template source, mode, fault plan); non-trivial = at least one '
        'fault fired or the engine raised an exception itself')
ASSUMPTIONS = ['a top-level call renders into a namespace it creates itself: its entries after the call '
               'are not observable by any caller and are not asserted; only its level counter (0) and '
               'all nested frames are checked',
               '`with only` renders its body into a new namespace: each frame is compared on the '
               'namespace object it was given',
               'bindings are compared through md.getitem(name, 0) over a fixed vocabulary of marker '
               'names; engine-maintained loop variables other than sequence-item/-index are not part '
               'of the vocabulary',
               'imbalanced frames that enclose an already reported imbalanced frame on the same '
               'namespace are counted as cascades, not reported again']
SHARD_TIMEOUT = {'quick': 900, 'thorough': 3400}
NSHARDS = {'quick': 16, 'thorough': 48}
NRANDOM = {'quick': 320, 'thorough': 5000}
PAIR_CAP = {'quick': 24, 'thorough': 120}
SINGLE_CAP = {'quick': 160, 'thorough': 1200}
ATLAS_PAIR_STRIDE = {'quick': 6, 'thorough': 1}

MECH_TREE = 'tree-get_items-push-not-popped-when-branches_expr-raises'
MECH_REC = 'recursion-limit-raised-after-pushing-defaults'

CORE_KINDS = ('exc', 'key', 'ret')
EXTRA_KINDS = ('keyother', 'base')


def plan(tier, seed):
    return [{} for _ in range(NSHARDS[tier])]


# ================================================================== template atlas
def T(s='.'):
    return ['text', s]


STD = [['var', 'name'], ['var', 'expr'], ['var', 'meth']]
STD2 = [['var', 'fmt'], ['call', 'name'], ['var', 'x']]


def IN(body, els=None, **o):
    return ['in', o, body, els]


WRAPPERS = [
    ('if', lambda b: ['if', [['name', True, b]], None]),
    ('if-expr', lambda b: ['if', [['expr', True, b]], [T('e')]]),
    ('elif', lambda b: ['if', [['name', False, [T('n')]], ['expr', True, b]], None]),
    ('else', lambda b: ['if', [['name', False, [T('n')]], ['name', False, [T('m')]]], b]),
    ('unless', lambda b: ['unless', 'name', False, b]),
    ('in-objs', lambda b: IN(b, kind='objs', n=2)),
    ('in-ints', lambda b: IN(b, kind='ints', n=2)),
    ('in-strs', lambda b: IN(b, kind='strs', n=1, expr=1)),
    ('in-maps', lambda b: IN(b, kind='maps', n=2)),
    ('in-tuples', lambda b: IN(b, kind='tuples', n=2, sort=1)),
    ('in-lazy', lambda b: IN(b, kind='lazy', n=2)),
    ('in-iter', lambda b: IN(b, kind='iter', n=2)),
    ('in-sort-reverse', lambda b: IN(b, kind='objs', n=2, sort=1, reverse=1)),
    ('in-prefix', lambda b: IN(b, kind='objs', n=1, prefix=1)),
    ('in-nopush', lambda b: IN(b, kind='objs', n=1, nopush=1)),
    ('in-else', lambda b: IN([T('i')], b, kind='empty')),
    ('in-batch', lambda b: IN(b, kind='objs', n=3, batch=1, size=2)),
    ('in-batch-start', lambda b: IN(b, kind='lazy', n=3, batch=1, size=1, start=2, orphan=0)),
    ('in-batch-iter', lambda b: IN(b, kind='iter', n=3, batch=1, size=2)),
    ('in-batch-prev', lambda b: IN(b, [T('np')], kind='objs', n=3, batch=1, size=1, start=2, orphan=0,
                                   prevnext='previous')),
    ('in-batch-next', lambda b: IN(b, [T('nn')], kind='objs', n=3, batch=1, size=1, orphan=0,
                                   prevnext='next')),
    ('in-batch-else', lambda b: IN([T('i')], b, kind='empty', batch=1, size=2)),
    ('with-obj', lambda b: ['with', 'obj', b]),
    ('with-map', lambda b: ['with', 'map', b]),
    ('with-only', lambda b: ['with', 'only', b]),
    ('with-expr', lambda b: ['with', 'expr', b]),
    ('with-call', lambda b: ['with', 'call', b]),
    ('with-tuple', lambda b: ['with', 'tuple', b]),
    ('let', lambda b: ['let', ['name', 'expr', 'plain'], b]),
    ('try-body', lambda b: ['try', b, [['Boom KeyError', [['var', 'name']]], ['', [['var', 'expr']]]],
                            [['var', 'name']]]),
    ('except', lambda b: ['try', [['engine', 'zerodiv']], [['ZeroDivisionError', b]], None]),
    ('except-bare', lambda b: ['try', [['var', 'name'], ['engine', 'missing']], [['', b]], None]),
    ('try-else', lambda b: ['try', [T('t')], [['', [T('h')]]], b]),
    ('tryfin-body', lambda b: ['tryfin', b, [['var', 'name']]]),
    ('finally', lambda b: ['tryfin', [['var', 'name']], b]),
    ('finally-after-raise', lambda b: ['tryfin', [['engine', 'raise']], b]),
    ('raise-body', lambda b: ['raise', 'KeyError', b]),
    ('raise-expr', lambda b: ['raise', 'expr', b]),
    ('comment', lambda b: ['comment', b]),
    ('sub-name', lambda b: ['sub', {'how': 'name'}, b]),
    ('sub-kw', lambda b: ['sub', {'how': 'kw'}, b]),
    ('sub-client', lambda b: ['sub', {'how': 'client'}, b]),
    ('sub-render', lambda b: ['sub', {'how': 'render', 'vars': 1}, b]),
    ('sub-nodefaults', lambda b: ['sub', {'how': 'name', 'defaults': 0}, b]),
    ('sub-return', lambda b: ['sub', {'how': 'name'}, b + [['return', 'name']]]),
    ('tree', lambda b: ['tree', {}, b]),
    ('tree-expand', lambda b: ['tree', {'expand_all': 1, 'sort': 1}, b]),
    ('tree-named', lambda b: ['tree', {'branches': 'named', 'expand_all': 1, 'reverse': 1}, b]),
    ('tree-expr', lambda b: ['tree', {'branches': 'expr'}, b]),
    ('tree-expr-expand', lambda b: ['tree', {'branches': 'expr', 'expand_all': 1}, b]),
    ('tree-collapse', lambda b: ['tree', {'collapse_all': 1, 'assume_children': 1}, b]),
    ('tree-header', lambda b: ['tree', {'expand_all': 1, 'header': b, 'shape': 'ab'}, [T('n')]]),
    ('tree-footer', lambda b: ['tree', {'expand_all': 1, 'footer': b, 'shape': 'ab', 'prefix': 1},
                               [T('n')]]),
    ('tree-leaves', lambda b: ['tree', {'expand_all': 1, 'leaves': b, 'shape': 'ab'}, [T('n')]]),
    ('tree-single', lambda b: ['tree', {'single': 1, 'nowrap': 1}, b]),
]
# wrappers that need a guarded template class to be meaningful
GUARDED_WRAPPERS = [
    ('g-in-deny', lambda b: IN(b, kind='objs', n=3, deny=1)),
    ('g-in-deny-skip', lambda b: IN(b, kind='objs', n=3, deny=0, skip=1)),
    ('g-in-deny-skip-batch', lambda b: IN(b, kind='objs', n=3, deny=1, skip=1, batch=1, size=3)),
    ('g-in-deny-batch', lambda b: IN(b, kind='lazy', n=3, deny=2, batch=1, size=3)),
    ('g-tree-deny', lambda b: ['tree', {'deny': 1, 'expand_all': 1}, b]),
    ('g-tree-deny-skip', lambda b: ['tree', {'deny': 1, 'skip_unauthorized': 1, 'expand_all': 1}, b]),
    ('g-tree-expr', lambda b: ['tree', {'branches': 'expr', 'expand_all': 1}, b]),
    ('g-with', lambda b: ['with', 'obj', b + [['var', 'objmeth']]]),
    ('g-sub-client', lambda b: ['sub', {'how': 'client'}, b]),
    ('g-let', lambda b: ['let', ['expr'], b + [['var', 'objmeth']]]),
]
ENGINE_KINDS = ('missing', 'zerodiv', 'nameerr', 'raise', 'badfmt', 'badsize', 'strseq')
RECS = [['rec', {'defaults': 1}], ['rec', {'defaults': 0}], ['rec', {'defaults': 1, 'mutual': 1}],
        ['rec', {'defaults': 1, 'pre': '<dtml-var x>'}]]
HANDLERS = [['', [['var', 'name'], ['var', 'x']]]]


def atlas(tier):
    """Deterministic catalogue: list of (family, tree, guarded)."""
    out = []
    for name, w in WRAPPERS:
        out.append(('single:' + name, [T('<'), w(STD), T('>')], False))
        out.append(('in-try:' + name, [['try', [w(STD2), ['var', 'name']], HANDLERS, [['var', 'expr']]]],
                    False))
        out.append(('in-finally:' + name, [['tryfin', [w(STD)], [['var', 'name']]], ['var', 'name']], False))
    for i, (name, w) in enumerate(WRAPPERS):
        k = ENGINE_KINDS[i % len(ENGINE_KINDS)]
        k2 = ENGINE_KINDS[(i + 3) % len(ENGINE_KINDS)]
        out.append(('engine:' + name, [['try', [w([['var', 'name'], ['engine', k]])], HANDLERS, None],
                                       ['try', [w([['engine', k2]])], [['', [T('h')]]], None]], False))
    stride = ATLAS_PAIR_STRIDE[tier]
    for i, (n1, w1) in enumerate(WRAPPERS):
        for j, (n2, w2) in enumerate(WRAPPERS):
            if (i * 31 + j * 7) % stride:
                continue
            if n1.startswith('tree') and n2.startswith('tree'):
                body = [['var', 'name']]
            else:
                body = [['var', 'name'], ['var', 'meth']]
            out.append(('pair:%s>%s' % (n1, n2), [w1([w2(body), ['var', 'expr']])], False))
    for name, w in GUARDED_WRAPPERS:
        out.append(('guarded:' + name, [w(STD), ['var', 'name']], True))
        out.append(('guarded-try:' + name, [['try', [w(STD2)], HANDLERS, None], ['var', 'name']], True))
    for name, w in WRAPPERS[::3 if tier == 'quick' else 1]:
        out.append(('guarded-single:' + name, [w(STD)], True))
    for r in RECS:
        out.append(('rec', [r], False))
        out.append(('rec-in-try', [['try', [['var', 'name'], r], HANDLERS, None], ['var', 'name']], False))
        out.append(('rec-in-block', [IN([['try', [r], [['SystemError', [['var', 'meth']]]], None],
                                         ['var', 'meth']], kind='objs', n=2)], False))
    out.append(('rec-guarded', [['try', [RECS[0]], HANDLERS, None]], True))
    return out


# ================================================================== random trees
def gen_leaf(rng, guarded):
    r = rng.random()
    if r < 0.62:
        forms = ['name', 'name', 'hq', 'fmt', 'expr', 'expr', 'exprfmt', 'entity', 'null', 'str',
                 'strfmt', 'meth', 'meth', 'x', 'objmeth']
        return ['var', rng.choice(forms)]
    if r < 0.72:
        return ['call', rng.choice(['name', 'expr'])]
    if r < 0.80:
        return ['engine', rng.choice(ENGINE_KINDS)]
    if r < 0.86:
        return ['return', rng.choice(['name', 'expr', 'const'])]
    return T(rng.choice(['a', 'b ', '\n', '&amp;']))


def gen_body(rng, depth, maxdepth, guarded, width=None):
    n = width or rng.choice([1, 1, 2, 2, 3])
    return [gen_node(rng, depth, maxdepth, guarded) for _ in range(n)]


def gen_in_opts(rng, guarded):
    o = {'kind': rng.choice(['objs', 'objs', 'objs', 'ints', 'strs', 'maps', 'tuples', 'lazy', 'iter',
                             'empty', 'str']),
         'n': rng.choice([1, 2, 2, 3])}
    if rng.random() < 0.35:
        o.update(batch=1, size=rng.choice([1, 2, 3]))
        if rng.random() < 0.5:
            o['start'] = rng.choice([1, 2])
        if rng.random() < 0.5:
            o['orphan'] = rng.choice([0, 1])
        if rng.random() < 0.3:
            o['prevnext'] = rng.choice(['previous', 'next'])
    for f, p in (('sort', .2), ('reverse', .15), ('prefix', .2), ('nopush', .1), ('expr', .25)):
        if rng.random() < p:
            o[f] = 1
    if guarded and o['kind'] in ('objs', 'lazy', 'tuples') and rng.random() < 0.5:
        o['deny'] = rng.randrange(3)
        if rng.random() < 0.5:
            o['skip'] = 1
    return o


def gen_node(rng, depth, maxdepth, guarded):
    if depth >= maxdepth or rng.random() < 0.38:
        return gen_leaf(rng, guarded)
    d = depth + 1

    def B(width=None):
        return gen_body(rng, d, maxdepth, guarded, width)
    r = rng.random()
    if r < 0.10:
        chain = [[rng.choice(['name', 'expr']), rng.random() < 0.5, B()]
                 for _ in range(rng.choice([1, 1, 2, 3]))]
        return ['if', chain, B() if rng.random() < 0.6 else None]
    if r < 0.14:
        return ['unless', rng.choice(['name', 'expr']), rng.random() < 0.4, B()]
    if r < 0.32:
        return ['in', gen_in_opts(rng, guarded), B(), B(1) if rng.random() < 0.4 else None]
    if r < 0.44:
        return ['with', rng.choice(['obj', 'obj', 'map', 'only', 'expr', 'call', 'tuple']), B()]
    if r < 0.52:
        return ['let', [rng.choice(['name', 'expr', 'plain']) for _ in range(rng.choice([1, 2, 3]))], B()]
    if r < 0.70:
        hs = []
        for _ in range(rng.choice([1, 1, 2])):
            names = ' '.join(rng.sample([n for n in U.EXC_NAMES if n], rng.choice([1, 2])))
            hs.append([names, B()])
        if rng.random() < 0.5:
            hs.append(['', B()])
        return ['try', B(), hs, B(1) if rng.random() < 0.4 else None]
    if r < 0.78:
        return ['tryfin', B(), B()]
    if r < 0.82:
        return ['raise', rng.choice(['KeyError', 'ValueError', 'Boom', 'expr', 'SystemError']), B(1)]
    if r < 0.84:
        return ['comment', B(1)]
    if r < 0.94:
        return ['sub', {'how': rng.choice(['name', 'name', 'kw', 'client', 'render']),
                        'defaults': int(rng.random() < 0.75), 'vars': int(rng.random() < 0.25)}, B()]
    if r < 0.955:
        return ['rec', {'defaults': int(rng.random() < 0.7), 'mutual': int(rng.random() < 0.3)}]
    o = {'branches': rng.choice(['default', 'named', 'expr', 'expr'])}
    for f, p in (('expand_all', .6), ('collapse_all', .1), ('sort', .2), ('reverse', .2),
                 ('assume_children', .2), ('single', .2), ('prefix', .2)):
        if rng.random() < p:
            o[f] = 1
    o['shape'] = rng.choice(['abc', 'ab'])
    for f in ('header', 'footer', 'leaves'):
        if rng.random() < 0.15:
            o[f] = gen_body(rng, maxdepth, maxdepth, guarded, 1)
    if guarded and rng.random() < 0.5:
        o['deny'] = 1
        if rng.random() < 0.5:
            o['skip_unauthorized'] = 1
    return ['tree', o, gen_body(rng, maxdepth, maxdepth, guarded, rng.choice([1, 2]))]


# ================================================================== one execution
class Harness:
    MODES = ('protocol', 'protocol-client', 'toplevel', 'protocol-tuple')

    def __init__(self, ctx):
        self.ctx = ctx
        self.mon = U.StackMonitor().install()
        from DocumentTemplate._DocumentTemplate import TemplateDict
        self.TemplateDict = TemplateDict
        self.runs = 0

    def build(self, tree, guarded):
        b = U.Builder(tree, guarded)
        b.top = b.cls(b.full, mk_top='M@top')
        b.sig = (b.full, guarded, tuple(sorted((k, t.read_raw()) for k, t in b.subs.items())))
        return b

    def execute(self, b, mode, plan, level0=0):
        """Run the real template once; returns an observation dict."""
        mon = self.mon
        env = b.make_env(plan)
        U.CURRENT['env'] = env
        mon.reset()
        self.runs += 1
        t = b.top
        issues = []
        obs = {'issues': issues}
        client = None
        if mode != 'protocol':
            client = env.label(U.Obj(env, 'top', 'client', x='x@client', mk_client='M@client'), 'client')
        if mode == 'protocol-tuple':     # a "path" of clients, pushed in order
            client = (env.label(U.Obj(env, 'top', 'client0', x='x@client0', mk_client0='M@client0'),
                                'client0'), client)
        try:
            if mode == 'toplevel':
                try:
                    out = t(client, env.ns, mk_kw='M@kw')
                    obs['outcome'] = ('completed', str(out)[-60:])
                except BaseException as e:
                    obs['outcome'] = ('raised', type(e).__name__, str(e)[:60])
            else:
                md = self.TemplateDict()
                md.guarded_getattr = getattr(t, 'guarded_getattr', None)
                md.guarded_getitem = getattr(t, 'guarded_getitem', None)
                md._push(env.ns)
                md._push({'mk_extra': 'M@extra'})
                md.level = level0
                snap = list(md._data)
                try:
                    if mode == 'protocol':
                        out = t(None, md)
                    else:
                        out = t(client, md, mk_kw='M@kw')
                    obs['outcome'] = ('completed', str(out)[-60:])
                except BaseException as e:
                    obs['outcome'] = ('raised', type(e).__name__, str(e)[:60])
                cur = md._data
                self.ctx.count('oracle:caller namespace compared after the call')
                if len(cur) != len(snap) or any(a is not b_ for a, b_ in zip(cur, snap)):
                    issues.append("caller's own TemplateDict changed by the call: depth %d -> %d (%s)"
                                  % (len(snap), len(cur), obs['outcome'][0]))
                if md.level != level0:
                    issues.append("caller's TemplateDict.level %d -> %d" % (level0, md.level))
        finally:
            U.CURRENT['env'] = None
        for p in mon.problems:
            issues.append('frame %s exit=%s: depth %s -> %s, level %s -> %s; extra=%s missing=%s'
                          % (p['frame'], p['exit'], p['entry_depth'], p['exit_depth'],
                             p['level_entry'], p['level_exit'],
                             [(e['type'], e.get('of') or e.get('keys'), e['pusher']) for e in p['extra']],
                             [(e['type'], e.get('of') or e.get('keys')) for e in p['missing']]))
        obs['problems'] = [dict(p) for p in mon.problems]
        obs['cascades'] = mon.cascades
        obs['exceptional_exits'] = mon.exceptional
        # head/tail probes of every dtml-try that was left normally
        final = None
        for site, head, tail in env.tail_events:
            self.ctx.count('oracle:try head/tail binding comparisons')
            if site == 0:
                final = tail
            if head is not None and head != tail:
                diff = dict((k, (head.get(k, U.MISSING), tail.get(k, U.MISSING)))
                            for k in set(head) | set(tail) if head.get(k) != tail.get(k))
                issues.append('bindings after dtml-try #%d differ from the bindings before it: %s'
                              % (site, sorted(diff.items())[:4]))
        obs['final_tail'] = final
        obs['n'] = env.ctl.n
        obs['log'] = env.ctl.log
        obs['fired'] = env.ctl.fired
        return obs


def classify_origin(p):
    """Mechanism key of a known finding for ONE origin record of the monitor, else None."""
    clean = not p['missing'] and p['level_entry'] == p['level_exit'] and p['extra']
    if clean and all(e['pusher'] == 'TreeTag.py:get_items' and e['type'] == 'InstanceDict'
                     for e in p['extra']) and p['kind'] in ('tpRender', 'Tree.render'):
        return MECH_TREE
    if clean and all(e['pusher'] == 'DT_String.py:__call__' and e['type'] == 'dict' and
                     e['pusher_frame'] == 'String.__call__(sub-template)' and
                     e['pusher_exit'] == 'exc:SystemError' and
                     (e['pusher_msg'] or '').startswith('infinite recursion')
                     for e in p['extra']) \
            and p['kind'] == 'String.__call__(sub-template)' and p['exit'] == 'exc:SystemError' \
            and p['level_entry'] > 200:
        return MECH_REC
    return None


def classify(obs):
    """Mechanism keys of one execution: [] when the monitor recorded no origin or any origin is
    not a known mechanism (the whole execution is then reported unlisted); otherwise the distinct
    mechanisms of its origins (an execution can run into both known defects one after the other).
    End-to-end symptoms (caller namespace, tail probes) of an execution are attributed to its
    origins, never classified on their own."""
    mechs = [classify_origin(p) for p in obs['problems']]
    if not mechs or None in mechs:
        return []
    return sorted(set(mechs))


def case_key(case):
    h = hashlib.blake2b(json.dumps(case, sort_keys=True, default=str).encode(), digest_size=6)
    return h.hexdigest()


def applicable_kinds(site, tier, k):
    pk = site.split('@')[0]
    if pk in ('getattr', 'guard-attr'):
        # by far the most frequent points (every name lookup that passes a pushed object):
        # two kinds per point, rotating with k, instead of all of them
        rot = ('key', 'base', 'unauth', 'attr', 'keyother', 'exc', 'ret')
        kinds = ['exc' if k % 2 else 'ret', rot[k % len(rot)]]
        if tier != 'quick':
            kinds.append(rot[(k + 3) % len(rot)])
        return list(dict.fromkeys(kinds))
    kinds = list(CORE_KINDS)
    if tier == 'quick':
        kinds.append(EXTRA_KINDS[k % 2])
    else:
        kinds.extend(EXTRA_KINDS)
    if pk in ('guard-item', 'seq-getitem', 'objmeth'):
        kinds.append('unauth')
    if pk in ('objmeth', 'tree-branches', 'tree-id'):
        kinds.append('attr')
    if pk in ('seq-getitem', 'iter-pull', 'guard-item'):
        kinds.append('index')
    return kinds


def evaluate(ctx, H, b, family, tree, guarded, mode, plan, base, level0=0):
    """One faulted (or fault-free) execution + oracle."""
    obs = H.execute(b, mode, dict(plan), level0)
    case = {'family': family, 'tree': tree, 'guarded': guarded, 'mode': mode,
            'plan': [list(p) for p in plan], 'level0': level0, 'src': b.full}
    fired = len(obs['fired'])
    engine_exc = obs['outcome'][0] == 'raised' or obs['exceptional_exits'] > 0
    ctx.case((b.sig, mode, tuple(plan), level0), nontrivial=bool(fired or engine_exc))
    if fired != len(plan):
        ctx.count('planned fault not reached (second fault of a pair after control flow changed)')
    for k, kind, site in obs['fired']:
        pk, blk = site.split('@')
        ctx.table('faults by enclosing block kind', '%s | %s' % (blk, kind))
        ctx.table('faults by point kind', '%s | %s' % (pk, kind))
    if plan:
        ctx.table('outcome by first fault kind', '%s | %s' % (plan[0][1], obs['outcome'][0] if
                  obs['outcome'][0] == 'raised' else ('returned RET' if str(obs['outcome'][1]).startswith('RET@')
                                                      else 'completed')))
        ctx.count('injected runs: %d fault%s' % (len(plan), '' if len(plan) == 1 else 's'))
    else:
        ctx.count('fault-free runs')
    issues = obs['issues']
    if base is not None and base['issues']:
        ctx.count('oracle:fault-free run itself violated; cross-run tail comparison skipped')
    elif base is not None and base.get('final_tail') is not None and obs['final_tail'] is not None:
        ctx.count('oracle:final tail compared with the fault-free run')
        if obs['final_tail'] != base['final_tail']:
            a, c = base['final_tail'], obs['final_tail']
            diff = dict((k, (a.get(k, U.MISSING), c.get(k, U.MISSING)))
                        for k in set(a) | set(c) if a.get(k) != c.get(k))
            issues.append('final tail probe sees other bindings than in the fault-free run: %s'
                          % sorted(diff.items())[:4])
    if obs['cascades']:
        ctx.count('monitor:cascade frames (enclosing an origin)', obs['cascades'])
    if issues:
        mechs = classify(obs) or [None]
        for mech in mechs:
            own = [o for o in obs['problems'] if mech is None or classify_origin(o) == mech]
            ctx.violation('; '.join(issues[:3])[:900], case, mech=mech,
                          key='%s_%s' % (mech or 'unlisted', case_key(case)),
                          detail={'outcome': obs['outcome'], 'issues': issues[:10],
                                  'origins': own[:4], 'fired': obs['fired'],
                                  'points': obs['log'][:80]})
    return obs


def enumerate_template(ctx, H, family, tree, guarded, modes, tier, rng):
    try:
        b = H.build(tree, guarded)
    except Exception as e:
        ctx.count('generator: template rejected by cook (%s)' % type(e).__name__)
        return
    ctx.count('templates')
    ctx.table('template families', family.split(':')[0])
    for k in b.kinds:
        ctx.table('block kinds present in templates', k)
    for f in b.features:
        ctx.table('template features', f)
    for mode in modes:
        ctx.table('call modes', mode)
        level0 = {'protocol-client': 3, 'protocol-tuple': 7}.get(mode, 0)
        has_rec = any(f.startswith('rec:') for f in b.features)
        if has_rec and mode != 'toplevel':
            level0 = 192 if mode == 'protocol' else 197     # a caller that is already deeply nested
        slow = has_rec and mode == 'toplevel'               # 200 real levels: ~15 ms per execution
        base = evaluate(ctx, H, b, family, tree, guarded, mode, (), None, level0)
        N = base['n']
        ctx.count('fault points in fault-free runs', N)
        sites = base['log']
        pair_budget = PAIR_CAP[tier]
        singles = []
        for k in range(1, N + 1):
            kinds = applicable_kinds(sites[k - 1], tier, k)
            if slow:
                kinds = kinds[k % 2:][:1]
            singles.extend((k, kind) for kind in kinds)
        cap = SINGLE_CAP[tier] // (4 if has_rec else 1)
        if len(singles) > cap:
            # large templates (trees inside trees, deep recursion): a strided subset of (k, kind)
            step = -(-len(singles) // cap)
            off = rng.randrange(step)
            ctx.count('single faults skipped by the per-template cap', len(singles) - len(singles[off::step]))
            singles = singles[off::step]
        else:
            ctx.count('templates x modes with every (k, kind) enumerated')
        for k, kind in singles:
            o1 = evaluate(ctx, H, b, family, tree, guarded, mode, ((k, kind),), base, level0)
            # pairs: a second fault at a point the k-faulted run still reaches
            later = list(range(k + 1, o1['n'] + 1))
            if not later or pair_budget <= 0 or kind not in CORE_KINDS or slow:
                continue
            if len(later) > 3 and tier == 'quick':
                later = sorted(rng.sample(later, 3))
            for j in later:
                if pair_budget <= 0:
                    break
                pair_budget -= 1
                kind2 = CORE_KINDS[(j + k) % 3]
                evaluate(ctx, H, b, family, tree, guarded, mode, ((k, kind), (j, kind2)), base, level0)
    if len(ctx.samples) < 2 or (family in ('rec-in-try', 'single:tree-expr-expand') and len(ctx.samples) < 4):
        o = H.execute(b, 'protocol', {2: 'exc'})
        ctx.sample({'family': family, 'template': b.full[:400], 'mode': 'protocol', 'plan': {2: 'exc'},
                    'fault points': o['log'][:12], 'outcome': o['outcome'], 'issues': o['issues'][:2],
                    'final tail bindings': o['final_tail']})


# ================================================================== repository tests under the monitor
def run_repo_tests(ctx, H, only=None):
    import unittest
    mon = H.mon
    loader = unittest.TestLoader()
    suite = unittest.TestSuite()
    import os
    import DocumentTemplate.tests as dtests
    mods = ['DocumentTemplate.tests.' + f[:-3] for f in sorted(os.listdir(os.path.dirname(dtests.__file__)))
            if f.startswith('test') and f.endswith('.py')] + ['TreeDisplay.tests']
    for modname in mods:
        try:
            suite.addTests(loader.loadTestsFromName(modname))
        except Exception:
            ctx.count('repo tests: module not loadable ' + modname)

    def flat(s):
        for t in s:
            if isinstance(t, unittest.TestSuite):
                yield from flat(t)
            else:
                yield t
    for test in flat(suite):
        tid = test.id()
        if 'FailedTest' in tid or (only and tid != only):
            continue
        mon.reset()
        res = unittest.TestResult()
        test.run(res)
        ctx.count('repo tests run under the stack monitor')
        ctx.case(('repo-test', tid), nontrivial=True)
        if res.errors or res.failures:
            ctx.count('repo tests failing/erroring under the monitor (not a C08 verdict)')
        if mon.problems:
            obs = {'problems': [dict(p) for p in mon.problems]}
            p = mon.problems[0]
            ctx.violation('repository test %s: frame %s exit=%s depth %s -> %s level %s -> %s'
                          % (tid, p['frame'], p['exit'], p['entry_depth'], p['exit_depth'],
                             p['level_entry'], p['level_exit']),
                          {'mode': 'repo-test', 'test': tid}, mech=(classify(obs) + [None])[0],
                          key='repotest_' + case_key(tid), detail={'origins': mon.problems[:4]})


# ================================================================== run / finish / replay
def reach_setup():
    from vlib.reach import Reach
    from DocumentTemplate import DT_String, DT_In, DT_With, DT_Let, DT_Try
    from DocumentTemplate import _DocumentTemplate as core
    from TreeDisplay import TreeTag
    r = Reach()
    r.watch('String.__call__', DT_String.String.__call__)
    r.watch('render_blocks_', core.render_blocks_)
    r.watch('InClass.renderwb', DT_In.InClass.renderwb)
    r.watch('InClass.renderwob', DT_In.InClass.renderwob)
    r.watch('With.render', DT_With.With.render)
    r.watch('Let.render', DT_Let.Let.render)
    r.watch('Try.render_try_except', DT_Try.Try.render_try_except)
    r.watch('Try.render_try_finally', DT_Try.Try.render_try_finally)
    r.watch('tpRender', TreeTag.tpRender)
    r.watch('tpRenderTABLE', TreeTag.tpRenderTABLE)
    r.watch('TemplateDict._push', core.TemplateDict._push)
    r.watch('TemplateDict._pop', core.TemplateDict._pop)
    return r


def run(ctx, spec):
    import sys
    sys.setrecursionlimit(12000)
    H = Harness(ctx)
    reach = reach_setup()
    reach.start()
    tier = ctx.tier
    items = atlas(tier)
    for i, (family, tree, guarded) in enumerate(items):
        if i % ctx.nshards != ctx.shard:
            continue
        if family.startswith('pair:') or (tier == 'quick' and
                                          not family.startswith(('single', 'rec', 'guarded:'))):
            modes = (Harness.MODES[i % 4],)
        else:
            modes = Harness.MODES
        enumerate_template(ctx, H, family, tree, guarded, modes, tier, ctx.rng)
    nrand = NRANDOM[tier]
    rng = ctx.rng
    for i in range(nrand):
        if i % ctx.nshards != ctx.shard:
            continue
        guarded = rng.random() < 0.25
        maxdepth = rng.choice([1, 2, 2, 3, 3])
        tree = gen_body(rng, 0, maxdepth, guarded)
        mode = rng.choice(Harness.MODES[:2] * 2 + Harness.MODES[2:])
        enumerate_template(ctx, H, 'random:depth%d' % maxdepth, tree, guarded, (mode,), tier, rng)
    if ctx.shard == ctx.nshards - 1:
        run_repo_tests(ctx, H)
    reach.stop()
    reach.report(ctx)
    H.mon.report(ctx)
    ctx.count('monitor:wrapped callables', len(H.mon.wrapped))
    ctx.count('executions', H.runs)


REQUIRED_FRAMES = ('String.__call__(sub-template)', 'String.__call__(top-level)', 'render_blocks_',
                   'InClass.renderwb', 'InClass.renderwob', 'With.render', 'Let.render',
                   'Try.render', 'Try.render_try_except', 'Try.render_try_finally', 'Raise.render',
                   'ReturnTag.render', 'Var.render', 'Tree.render', 'tpRender', 'tpRenderTABLE')


def finish(agg):
    c = agg['counters']
    t = agg['tables']
    inc = []
    if not c.get('monitor:frame exits compared'):
        inc.append('stack monitor never compared a frame exit')
    if not c.get('monitor:exits exception'):
        inc.append('the monitor saw zero exceptional exits')
    if not c.get('monitor:exits DTReturn'):
        inc.append('the monitor saw zero DTReturn exits')
    for r in ('String.__call__', 'render_blocks_', 'InClass.renderwb', 'InClass.renderwob', 'With.render',
              'Let.render', 'Try.render_try_except', 'Try.render_try_finally', 'tpRender', 'tpRenderTABLE',
              'TemplateDict._push', 'TemplateDict._pop'):
        if not c.get('reach:' + r):
            inc.append('anchor never entered: ' + r)
    exits = t.get('frame exits by kind', {})
    for f in REQUIRED_FRAMES:
        for how in ('return', 'exception'):
            if f == 'ReturnTag.render' and how == 'return':
                continue
            if f == 'Raise.render' and how == 'return':
                continue
            if not exits.get('%s | %s' % (f, how)):
                inc.append('monitored frame kind %s never left by %s' % (f, how))
    blocks = {}
    for k, n in t.get('faults by enclosing block kind', {}).items():
        blk = k.split(' | ')[0]
        blocks[blk] = blocks.get(blk, 0) + n
    for blk in U.BLOCK_KINDS:
        if not blocks.get(blk):
            inc.append('block kind had no fault injected inside it: ' + blk)
    kinds = {}
    for k, n in t.get('faults by point kind', {}).items():
        kd = k.split(' | ')[1]
        kinds[kd] = kinds.get(kd, 0) + n
    for kd in ('exc', 'key', 'keyother', 'ret', 'base', 'unauth', 'attr', 'index'):
        if not kinds.get(kd):
            inc.append('fault kind never fired: ' + kd)
    for need in ('injected runs: 1 fault', 'injected runs: 2 faults', 'fault-free runs',
                 'oracle:caller namespace compared after the call',
                 'oracle:try head/tail binding comparisons',
                 'oracle:final tail compared with the fault-free run',
                 'repo tests run under the stack monitor'):
        if not c.get(need):
            inc.append('never happened: ' + need)
    for m in Harness.MODES:
        if not t.get('call modes', {}).get(m):
            inc.append('call mode never used: ' + m)
    feats = t.get('template features', {})
    for need in ('rec:defaults', 'rec:nodefaults', 'tree:branches=expr', 'tree:branches=named',
                 'tree:expand_all', 'engine:strseq', 'in:iter', 'in:lazy'):
        if not feats.get(need):
            inc.append('scenario never generated: ' + need)
    return {'inconclusive': inc,
            'coverage': {'exhaustive': False,
                         'explanation': 'every fault point k=1..N of every template/mode is faulted with '
                                        'every applicable kind (exhaustive per template); pairs are capped '
                                        'per template (%r); the template set is an atlas plus seeded '
                                        'random trees' % (PAIR_CAP,),
                         'fault_points_total': c.get('fault points in fault-free runs', 0)}}


def replay(ctx, rep):
    import sys
    sys.setrecursionlimit(12000)
    H = Harness(ctx)
    c = rep['case']
    if c.get('mode') == 'repo-test':
        run_repo_tests(ctx, H, only=c['test'])
        return
    b = H.build(c['tree'], c['guarded'])
    base = evaluate(ctx, H, b, c['family'], c['tree'], c['guarded'], c['mode'], (), None, c.get('level0', 0))
    plan = tuple((int(k), kind) for k, kind in c['plan'])
    if plan:
        evaluate(ctx, H, b, c['family'], c['tree'], c['guarded'], c['mode'], plan, base, c.get('level0', 0))
