"""C08 — namespace stack and recursion level are restored on every exit path.

Monitor: vlib/c08_util.StackMonitor — try/finally wrappers on TemplateDict._push/_pop,
render_blocks_, every tag's render/renderwb/renderwob/__call__, tpRender/tpRenderTABLE and
String.__call__ that snapshot (list(md._data), md.level) of the namespace each frame was given
and compare identity-and-order on every exit (return, exception, DTReturn).  Independent of the
wrappers the harness (a) passes its own TemplateDict as `mapping` (sub-template protocol) and
compares it before/after the call, and (b) places head/tail probes around every dtml-try that
read the bindings of a fixed vocabulary of marker names (every scope a case can push binds a
unique marker and shadows `x`): the tail record must equal the head record of the same try, and
the final tail of a faulted run must equal the final tail of the fault-free run.

Each template is called in up to four modes: sub-template protocol (t(None, md)), protocol with a
client and keywords, protocol with a tuple ("path") of clients, and as an ordinary top-level call.

Workload (fault enumeration): for each template a fault-free run counts the N fault points
(namespace callables, item/with/tree-node methods, client __getattr__, __str__, sequence element
access, iterator pulls, guard calls); then for k = 1..N the k-th point raises a custom Exception,
KeyError (own name / foreign key), DTReturn, a BaseException subclass, and point-specific
Unauthorized / AttributeError / IndexError; then pairs (k, j>k) over the points that the
k-faulted run still reaches (handlers, else, finally blocks, later siblings).

Heterogeneous sequences: dtml-in decides per element what it pushes, so the atlas also holds every
ordered pair (and, over a reduced alphabet, every triple) of element kinds -- object, dict, custom
mapping, (key, object) / (key, string) / (key, dict) 2-tuples, str, bytes, int, float, None, list --
rendered by the unbatched tag and by the batched tag in every window form (size / start / end alone
and combined, whole sequence or part of it, orphan / overlap), crossed with mapping, no_push_item,
sort, sort_expr, reverse, reverse_expr, prefix, expr=, skip_unauthorized, four container types and
nine enclosing shapes.  These need NO fault to be decisive (the fault-free run is checked by every
frame comparison, the caller-namespace comparison and the head/tail probes) and are fault-enumerated
like every other template.  A harness-side body probe records which element each body rendering was
for; finish() demands every ordered pair of element classes for both tags from that record.
"""
import hashlib
import json

from vlib import c08_util as U

ID = 'C08'
LEVEL = 'fault_enumeration'
RULE = ('templates = a deterministic atlas (every block kind alone, inside try/except/else, inside '
        'try/finally, every ordered pair of block kinds, engine-raised exceptions inside every block '
        'kind, guarded variants with refused items, recursion-limit and tree-swallow scenarios; dtml-in '
        'over heterogeneous sequences: every ordered pair / reduced-alphabet triple of element kinds x '
        'unbatched + every batch window form x option / container / enclosing-shape rotation; with over '
        'str / number / None / 2-tuple / non-dict mapping / only+mapping values; sub-template calls with '
        'client+keywords and client paths of 0..3 objects) plus '
        'seeded random trees nested <= 3 (drawing from the same element kinds and window forms); for each template and call mode (sub-template protocol with a '
        'harness-owned TemplateDict / with client+keywords / top-level call) a fault-free run counts the '
        'N fault points, then every k in 1..N is faulted with every applicable fault kind, then pairs '
        '(k,j). distinct = distinct (template source, mode, fault plan); non-trivial = at least one '
        'fault fired or the engine raised an exception itself')
ASSUMPTIONS = ['a top-level call renders into a namespace it creates itself: its entries after the call '
               'are not observable by any caller and are not asserted; only its level counter (0) and '
               'all nested frames are checked',
               '`with only` renders its body into a new namespace: each frame is compared on the '
               'namespace object it was given',
               'bindings are compared through md.getitem(name, 0) over a fixed vocabulary of marker '
               'names; engine-maintained loop variables other than sequence-item/-index are not part '
               'of the vocabulary',
               'imbalanced frames that enclose an already reported imbalanced frame on the same '
               'namespace are counted as cascades, not reported again',
               'heterogeneous sequences: no output text is modelled; a loop whose body raises because of '
               'the element (e.g. `mapping` over a string element) is just one more exceptional exit '
               'path on which every frame must be balanced',
               'wrappers on engine-internal functions (renderwb, render_try_except, tpRender, ...) are '
               'diagnosis: when one cannot be placed or is never entered, the verdict rests on the '
               'enclosing frames, the caller-namespace comparison and the head/tail probes, and the run '
               'is inconclusive only if those did not evaluate (coverage.diagnosis_only lists them)']
SHARD_TIMEOUT = {'quick': 900, 'thorough': 3400}
NSHARDS = {'quick': 16, 'thorough': 48}
NRANDOM = {'quick': 320, 'thorough': 5000}
PAIR_CAP = {'quick': 24, 'thorough': 120}
SINGLE_CAP = {'quick': 160, 'thorough': 1200}
ATLAS_PAIR_STRIDE = {'quick': 6, 'thorough': 1}
MIXED_PAIR_CAP = {'quick': 10, 'thorough': 30}   # the mixed family is large and decisive without faults

MECH_TREE = 'tree-get_items-push-not-popped-when-branches_expr-raises'
MECH_REC = 'recursion-limit-raised-after-pushing-defaults'

CORE_KINDS = ('exc', 'key', 'ret')
EXTRA_KINDS = ('keyother', 'base')


def plan(tier, seed):
    return [{} for _ in range(NSHARDS[tier])]


# ================================================================== template atlas
def T(s='.'):
    return ['text', s]


STD = [['var', 'name'], ['var', 'expr'], ['var', 'meth']]
STD2 = [['var', 'fmt'], ['call', 'name'], ['var', 'x']]


def IN(body, els=None, **o):
    return ['in', o, body, els]


WRAPPERS = [
    ('if', lambda b: ['if', [['name', True, b]], None]),
    ('if-expr', lambda b: ['if', [['expr', True, b]], [T('e')]]),
    ('elif', lambda b: ['if', [['name', False, [T('n')]], ['expr', True, b]], None]),
    ('else', lambda b: ['if', [['name', False, [T('n')]], ['name', False, [T('m')]]], b]),
    ('unless', lambda b: ['unless', 'name', False, b]),
    ('in-objs', lambda b: IN(b, kind='objs', n=2)),
    ('in-ints', lambda b: IN(b, kind='ints', n=2)),
    ('in-strs', lambda b: IN(b, kind='strs', n=1, expr=1)),
    ('in-maps', lambda b: IN(b, kind='maps', n=2)),
    ('in-tuples', lambda b: IN(b, kind='tuples', n=2, sort=1)),
    ('in-lazy', lambda b: IN(b, kind='lazy', n=2)),
    ('in-iter', lambda b: IN(b, kind='iter', n=2)),
    ('in-sort-reverse', lambda b: IN(b, kind='objs', n=2, sort=1, reverse=1)),
    ('in-prefix', lambda b: IN(b, kind='objs', n=1, prefix=1)),
    ('in-nopush', lambda b: IN(b, kind='objs', n=1, nopush=1)),
    ('in-else', lambda b: IN([T('i')], b, kind='empty')),
    ('in-batch', lambda b: IN(b, kind='objs', n=3, batch=1, size=2)),
    ('in-batch-start', lambda b: IN(b, kind='lazy', n=3, batch=1, size=1, start=2, orphan=0)),
    ('in-batch-iter', lambda b: IN(b, kind='iter', n=3, batch=1, size=2)),
    ('in-batch-prev', lambda b: IN(b, [T('np')], kind='objs', n=3, batch=1, size=1, start=2, orphan=0,
                                   prevnext='previous')),
    ('in-batch-next', lambda b: IN(b, [T('nn')], kind='objs', n=3, batch=1, size=1, orphan=0,
                                   prevnext='next')),
    ('in-batch-else', lambda b: IN([T('i')], b, kind='empty', batch=1, size=2)),
    ('with-obj', lambda b: ['with', 'obj', b]),
    ('with-map', lambda b: ['with', 'map', b]),
    ('with-only', lambda b: ['with', 'only', b]),
    ('with-expr', lambda b: ['with', 'expr', b]),
    ('with-call', lambda b: ['with', 'call', b]),
    ('with-tuple', lambda b: ['with', 'tuple', b]),
    ('let', lambda b: ['let', ['name', 'expr', 'plain'], b]),
    ('try-body', lambda b: ['try', b, [['Boom KeyError', [['var', 'name']]], ['', [['var', 'expr']]]],
                            [['var', 'name']]]),
    ('except', lambda b: ['try', [['engine', 'zerodiv']], [['ZeroDivisionError', b]], None]),
    ('except-bare', lambda b: ['try', [['var', 'name'], ['engine', 'missing']], [['', b]], None]),
    ('try-else', lambda b: ['try', [T('t')], [['', [T('h')]]], b]),
    ('tryfin-body', lambda b: ['tryfin', b, [['var', 'name']]]),
    ('finally', lambda b: ['tryfin', [['var', 'name']], b]),
    ('finally-after-raise', lambda b: ['tryfin', [['engine', 'raise']], b]),
    ('raise-body', lambda b: ['raise', 'KeyError', b]),
    ('raise-expr', lambda b: ['raise', 'expr', b]),
    ('comment', lambda b: ['comment', b]),
    ('sub-name', lambda b: ['sub', {'how': 'name'}, b]),
    ('sub-kw', lambda b: ['sub', {'how': 'kw'}, b]),
    ('sub-client', lambda b: ['sub', {'how': 'client'}, b]),
    ('sub-render', lambda b: ['sub', {'how': 'render', 'vars': 1}, b]),
    ('sub-nodefaults', lambda b: ['sub', {'how': 'name', 'defaults': 0}, b]),
    ('sub-return', lambda b: ['sub', {'how': 'name'}, b + [['return', 'name']]]),
    ('tree', lambda b: ['tree', {}, b]),
    ('tree-expand', lambda b: ['tree', {'expand_all': 1, 'sort': 1}, b]),
    ('tree-named', lambda b: ['tree', {'branches': 'named', 'expand_all': 1, 'reverse': 1}, b]),
    ('tree-expr', lambda b: ['tree', {'branches': 'expr'}, b]),
    ('tree-expr-expand', lambda b: ['tree', {'branches': 'expr', 'expand_all': 1}, b]),
    ('tree-collapse', lambda b: ['tree', {'collapse_all': 1, 'assume_children': 1}, b]),
    ('tree-header', lambda b: ['tree', {'expand_all': 1, 'header': b, 'shape': 'ab'}, [T('n')]]),
    ('tree-footer', lambda b: ['tree', {'expand_all': 1, 'footer': b, 'shape': 'ab', 'prefix': 1},
                               [T('n')]]),
    ('tree-leaves', lambda b: ['tree', {'expand_all': 1, 'leaves': b, 'shape': 'ab'}, [T('n')]]),
    ('tree-single', lambda b: ['tree', {'single': 1, 'nowrap': 1}, b]),
    # value-kind / client-shape / element-kind variants (appended: the indices of the wrappers above
    # select the quick tier's stride subset of the pair grid)
    ('in-mixed', lambda b: IN(b, kind='mixed', mix=['o', 's', 'i'])),
    ('in-mixed-batch', lambda b: IN(b, kind='mixed', mix=['t', 's', 'm'], batch=1, size=5)),
    ('in-mixed-batch-mapping', lambda b: IN(b, kind='mixed', mix=['m', 'v', 'M'], mapping=1, batch=1,
                                            nosize=1, end=3)),
    ('with-tuple2', lambda b: ['with', 'tuple2', b]),
    ('with-str', lambda b: ['with', 'str', b]),
    ('with-mapobj', lambda b: ['with', 'mapobj', b]),
    ('with-only-mapping', lambda b: ['with', 'onlymap', b]),
    ('sub-client-kw', lambda b: ['sub', {'how': 'clientkw'}, b]),
    ('sub-path3', lambda b: ['sub', {'how': 'tuple', 'nclients': 3}, b]),
    ('sub-path0-kw', lambda b: ['sub', {'how': 'tuplekw', 'nclients': 0, 'defaults': 0}, b]),
    ('tree-expand-doc', lambda b: ['tree', {'expand_all': 1, 'expand': b, 'shape': 'ab'}, [T('n')]]),
]
VARIANT_WRAPPERS = frozenset(['with-tuple2', 'with-str', 'with-mapobj', 'sub-client-kw', 'sub-path0-kw',
                              'tree-expand-doc'])
# wrappers that need a guarded template class to be meaningful
GUARDED_WRAPPERS = [
    ('g-in-deny', lambda b: IN(b, kind='objs', n=3, deny=1)),
    ('g-in-deny-skip', lambda b: IN(b, kind='objs', n=3, deny=0, skip=1)),
    ('g-in-deny-skip-batch', lambda b: IN(b, kind='objs', n=3, deny=1, skip=1, batch=1, size=3)),
    ('g-in-deny-batch', lambda b: IN(b, kind='lazy', n=3, deny=2, batch=1, size=3)),
    ('g-tree-deny', lambda b: ['tree', {'deny': 1, 'expand_all': 1}, b]),
    ('g-tree-deny-skip', lambda b: ['tree', {'deny': 1, 'skip_unauthorized': 1, 'expand_all': 1}, b]),
    ('g-tree-expr', lambda b: ['tree', {'branches': 'expr', 'expand_all': 1}, b]),
    ('g-with', lambda b: ['with', 'obj', b + [['var', 'objmeth']]]),
    ('g-sub-client', lambda b: ['sub', {'how': 'client'}, b]),
    ('g-let', lambda b: ['let', ['expr'], b + [['var', 'objmeth']]]),
]
ENGINE_KINDS = ('missing', 'zerodiv', 'nameerr', 'raise', 'badfmt', 'badsize', 'strseq')
RECS = [['rec', {'defaults': 1}], ['rec', {'defaults': 0}], ['rec', {'defaults': 1, 'mutual': 1}],
        ['rec', {'defaults': 1, 'pre': '<dtml-var x>'}]]
HANDLERS = [['', [['var', 'name'], ['var', 'x']]]]


# ---------------------------------------------------------------- heterogeneous sequences
# dtml-in decides PER ELEMENT what it pushes (documented: items are pushed unless no_push_item;
# 2-tuples contribute their second element; `mapping` items are pushed as they are): every order
# of element kinds, through the batched and the unbatched tag, with every window form / option.
MIX_BODY = [['var', 'name'], ['var', 'x'], ['var', 'item']]
MIX_BODY2 = [['var', 'meth'], ['call', 'expr']]
MIX_TRIPLE_PLAIN = ('o', 'm', 't', 's', 'i')
MIX_TRIPLE_MAPPING = ('m', 'v', 's')
MIX_FLAGS = [{}, {'nopush': 1}, {'reverse': 1}, {'sort': 1}, {'prefix': 1}, {'expr': 1}, {'sortx': 1},
             {'revx': 1}, {'sort': 1, 'reverse': 1}, {'nopush': 1, 'sort': 1}, {'expr': 1, 'reverse': 1}]
MIX_CONTS = ('list', 'list', 'tuple', 'lazy', 'iter')
MIX_SHAPES = [
    ('top', lambda n: [T('<'), n, T('>')]),
    ('try', lambda n: [['try', [n, ['var', 'name']], HANDLERS, [['var', 'expr']]]]),
    ('finally', lambda n: [['tryfin', [n], [['var', 'name']]], ['var', 'name']]),
    ('let', lambda n: [['let', ['plain', 'expr'], [n, ['var', 'x']]]]),
    ('in', lambda n: [IN([n, ['var', 'x']], kind='objs', n=2)]),
    ('in-batch', lambda n: [IN([n, ['var', 'x']], kind='strs', n=2, batch=1, size=2)]),
    ('with', lambda n: [['with', 'obj', [n, ['var', 'x']]]]),
    ('sub', lambda n: [['sub', {'how': 'name'}, [n, ['var', 'x']]], ['var', 'x']]),
    ('if', lambda n: [['if', [['name', True, [n]]], None], ['var', 'x']]),
]


def mix_windows(L):
    """Every way of making the tag a batched one, by what the window covers."""
    whole = [dict(batch=1, size=L + 3),
             dict(batch=1, size=L, start=1, orphan=0),
             dict(batch=1, nosize=1, end=L),
             dict(batch=1, nosize=1, start=1),
             dict(batch=1, nosize=1, start=1, end=L + 2)]
    part = [dict(batch=1, nosize=1, start=2),
            dict(batch=1, size=1, start=2, orphan=0),
            dict(batch=1, size=2, orphan=0, overlap=0),
            dict(batch=1, nosize=1, end=L - 1 or 1),
            dict(batch=1, size=2, start=2, orphan=1, overlap=1)]
    return whole, part


def mixed_atlas(tier):
    import itertools
    seqs = [(0, p) for p in itertools.product(U.MIX_PLAIN, repeat=2)]
    seqs += [(1, p) for p in itertools.product(U.MIX_MAPPING, repeat=2)]
    seqs += [(0, p) for p in itertools.product(MIX_TRIPLE_PLAIN, repeat=3)]
    seqs += [(1, p) for p in itertools.product(MIX_TRIPLE_MAPPING, repeat=3)]
    out = []
    c = 0
    for idx, (mapping, mix) in enumerate(seqs):
        L = len(mix)
        whole, part = mix_windows(L)
        if tier == 'quick':
            if L == 3 and idx % 3:
                continue
            wins = [{}, whole[idx % len(whole)], part[(idx // 2) % len(part)]]
        else:
            wins = [{}] + whole + part
        for w in wins:
            for r in range(1):
                c += 1
                o = dict(kind='mixed', mix=list(mix), cont=MIX_CONTS[(c * 3 + r) % len(MIX_CONTS)])
                o.update(w)
                o.update(MIX_FLAGS[(c * 7 + r * 5) % len(MIX_FLAGS)])
                if mapping:
                    o['mapping'] = 1
                guarded = c % 5 == 0
                if guarded and c % 2:
                    o['deny'] = c % L
                    if c % 3:
                        o['skip'] = 1
                sname, shape = MIX_SHAPES[(c * 4 + r) % len(MIX_SHAPES)]
                body = MIX_BODY + (MIX_BODY2 if c % 4 == 0 else [])
                els = [T('none')] if c % 6 == 0 else None
                out.append(('mixed:%s:%s' % ('batched' if w else 'unbatched', sname),
                            shape(IN(body, els, **o)), guarded))
    return out


def atlas(tier):
    """Deterministic catalogue: list of (family, tree, guarded)."""
    out = []
    for name, w in WRAPPERS:
        out.append(('single:' + name, [T('<'), w(STD), T('>')], False))
        out.append(('in-try:' + name, [['try', [w(STD2), ['var', 'name']], HANDLERS, [['var', 'expr']]]],
                    False))
        out.append(('in-finally:' + name, [['tryfin', [w(STD)], [['var', 'name']]], ['var', 'name']], False))
    for i, (name, w) in enumerate(WRAPPERS):
        k = ENGINE_KINDS[i % len(ENGINE_KINDS)]
        k2 = ENGINE_KINDS[(i + 3) % len(ENGINE_KINDS)]
        out.append(('engine:' + name, [['try', [w([['var', 'name'], ['engine', k]])], HANDLERS, None],
                                       ['try', [w([['engine', k2]])], [['', [T('h')]]], None]], False))
    stride = ATLAS_PAIR_STRIDE[tier]
    for i, (n1, w1) in enumerate(WRAPPERS):
        for j, (n2, w2) in enumerate(WRAPPERS):
            if (i * 31 + j * 7) % stride:
                continue
            if (n1 in VARIANT_WRAPPERS or n2 in VARIANT_WRAPPERS) and (i + 2 * j) % 3:
                continue        # value-kind / client-shape variants of a block kind: a third of the grid
            if n1.startswith('tree') and n2.startswith('tree'):
                body = [['var', 'name']]
            else:
                body = [['var', 'name'], ['var', 'meth']]
            out.append(('pair:%s>%s' % (n1, n2), [w1([w2(body), ['var', 'expr']])], False))
    for name, w in GUARDED_WRAPPERS:
        out.append(('guarded:' + name, [w(STD), ['var', 'name']], True))
        out.append(('guarded-try:' + name, [['try', [w(STD2)], HANDLERS, None], ['var', 'name']], True))
    for name, w in WRAPPERS[::3 if tier == 'quick' else 1]:
        out.append(('guarded-single:' + name, [w(STD)], True))
    for r in RECS:
        out.append(('rec', [r], False))
        out.append(('rec-in-try', [['try', [['var', 'name'], r], HANDLERS, None], ['var', 'name']], False))
        out.append(('rec-in-block', [IN([['try', [r], [['SystemError', [['var', 'meth']]]], None],
                                         ['var', 'meth']], kind='objs', n=2)], False))
    out.append(('rec-guarded', [['try', [RECS[0]], HANDLERS, None]], True))
    out.extend(mixed_atlas(tier))
    return out


# ================================================================== random trees
def gen_leaf(rng, guarded):
    r = rng.random()
    if r < 0.62:
        forms = ['name', 'name', 'hq', 'fmt', 'expr', 'expr', 'exprfmt', 'entity', 'null', 'str',
                 'strfmt', 'meth', 'meth', 'x', 'objmeth', 'item']
        return ['var', rng.choice(forms)]
    if r < 0.72:
        return ['call', rng.choice(['name', 'expr'])]
    if r < 0.80:
        return ['engine', rng.choice(ENGINE_KINDS)]
    if r < 0.86:
        return ['return', rng.choice(['name', 'expr', 'const'])]
    return T(rng.choice(['a', 'b ', '\n', '&amp;']))


def gen_body(rng, depth, maxdepth, guarded, width=None):
    n = width or rng.choice([1, 1, 2, 2, 3])
    return [gen_node(rng, depth, maxdepth, guarded) for _ in range(n)]


def gen_in_opts(rng, guarded):
    o = {'kind': rng.choice(['objs', 'objs', 'objs', 'ints', 'strs', 'maps', 'tuples', 'lazy', 'iter',
                             'empty', 'str', 'mixed', 'mixed', 'mixed']),
         'n': rng.choice([1, 2, 2, 3])}
    if o['kind'] == 'mixed':
        mapping = rng.random() < 0.25
        alphabet = U.MIX_MAPPING if mapping else U.MIX_PLAIN
        o['mix'] = [rng.choice(alphabet) for _ in range(rng.choice([1, 2, 2, 3, 3, 4]))]
        o['cont'] = rng.choice(MIX_CONTS)
        if mapping:
            o['mapping'] = 1
    if rng.random() < (0.5 if o['kind'] == 'mixed' else 0.35):
        o.update(batch=1, size=rng.choice([1, 2, 3]))
        if rng.random() < 0.5:
            o['start'] = rng.choice([1, 2])
        if rng.random() < 0.5:
            o['orphan'] = rng.choice([0, 1])
        if rng.random() < 0.3:
            o['prevnext'] = rng.choice(['previous', 'next'])
        if rng.random() < 0.25:
            o['end'] = rng.choice([1, 2, 3])
        if rng.random() < 0.25:
            o['nosize'] = 1
        if rng.random() < 0.2:
            o['overlap'] = rng.choice([0, 1])
    for f, p in (('sort', .2), ('reverse', .15), ('prefix', .2), ('nopush', .1), ('expr', .25),
                 ('sortx', .06), ('revx', .06)):
        if rng.random() < p:
            o[f] = 1
    if guarded and o['kind'] in ('objs', 'lazy', 'tuples', 'mixed') and rng.random() < 0.5:
        o['deny'] = rng.randrange(3)
        if rng.random() < 0.5:
            o['skip'] = 1
    return o


def gen_node(rng, depth, maxdepth, guarded):
    if depth >= maxdepth or rng.random() < 0.38:
        return gen_leaf(rng, guarded)
    d = depth + 1

    def B(width=None):
        return gen_body(rng, d, maxdepth, guarded, width)
    r = rng.random()
    if r < 0.10:
        chain = [[rng.choice(['name', 'expr']), rng.random() < 0.5, B()]
                 for _ in range(rng.choice([1, 1, 2, 3]))]
        return ['if', chain, B() if rng.random() < 0.6 else None]
    if r < 0.14:
        return ['unless', rng.choice(['name', 'expr']), rng.random() < 0.4, B()]
    if r < 0.32:
        return ['in', gen_in_opts(rng, guarded), B(), B(1) if rng.random() < 0.4 else None]
    if r < 0.44:
        return ['with', rng.choice(['obj', 'obj', 'map', 'only', 'expr', 'call', 'tuple', 'tuple2', 'str',
                                    'num', 'none', 'mapobj', 'onlymap']), B()]
    if r < 0.52:
        return ['let', [rng.choice(['name', 'expr', 'plain']) for _ in range(rng.choice([1, 2, 3]))], B()]
    if r < 0.70:
        hs = []
        for _ in range(rng.choice([1, 1, 2])):
            names = ' '.join(rng.sample([n for n in U.EXC_NAMES if n], rng.choice([1, 2])))
            hs.append([names, B()])
        if rng.random() < 0.5:
            hs.append(['', B()])
        return ['try', B(), hs, B(1) if rng.random() < 0.4 else None]
    if r < 0.78:
        return ['tryfin', B(), B()]
    if r < 0.82:
        return ['raise', rng.choice(['KeyError', 'ValueError', 'Boom', 'expr', 'SystemError']), B(1)]
    if r < 0.84:
        return ['comment', B(1)]
    if r < 0.94:
        return ['sub', {'how': rng.choice(['name', 'name', 'kw', 'client', 'render', 'clientkw', 'tuple',
                                           'tuplekw']),
                        'nclients': rng.choice([0, 1, 2, 3]),
                        'defaults': int(rng.random() < 0.75), 'vars': int(rng.random() < 0.25)}, B()]
    if r < 0.955:
        return ['rec', {'defaults': int(rng.random() < 0.7), 'mutual': int(rng.random() < 0.3)}]
    o = {'branches': rng.choice(['default', 'named', 'expr', 'expr'])}
    for f, p in (('expand_all', .6), ('collapse_all', .1), ('sort', .2), ('reverse', .2),
                 ('assume_children', .2), ('single', .2), ('prefix', .2)):
        if rng.random() < p:
            o[f] = 1
    o['shape'] = rng.choice(['abc', 'ab'])
    for f in ('header', 'footer', 'leaves', 'expand'):
        if rng.random() < (0.15 if f != 'expand' else 0.08):
            o[f] = gen_body(rng, maxdepth, maxdepth, guarded, 1)
    if guarded and rng.random() < 0.5:
        o['deny'] = 1
        if rng.random() < 0.5:
            o['skip_unauthorized'] = 1
    return ['tree', o, gen_body(rng, maxdepth, maxdepth, guarded, rng.choice([1, 2]))]


# ================================================================== one execution
class Harness:
    MODES = ('protocol', 'protocol-client', 'toplevel', 'protocol-tuple')

    def __init__(self, ctx):
        self.ctx = ctx
        self.mon = U.StackMonitor().install()
        from DocumentTemplate._DocumentTemplate import TemplateDict
        self.TemplateDict = TemplateDict
        self.runs = 0

    def build(self, tree, guarded):
        b = U.Builder(tree, guarded)
        b.top = b.cls(b.full, mk_top='M@top')
        b.sig = (b.full, guarded, tuple(sorted((k, t.read_raw()) for k, t in b.subs.items())))
        return b

    def execute(self, b, mode, plan, level0=0):
        """Run the real template once; returns an observation dict."""
        mon = self.mon
        env = b.make_env(plan)
        U.CURRENT['env'] = env
        mon.reset()
        self.runs += 1
        t = b.top
        issues = []
        obs = {'issues': issues}
        client = None
        if mode != 'protocol':
            client = env.label(U.Obj(env, 'top', 'client', x='x@client', mk_client='M@client'), 'client')
        if mode == 'protocol-tuple':     # a "path" of clients, pushed in order
            client = (env.label(U.Obj(env, 'top', 'client0', x='x@client0', mk_client0='M@client0'),
                                'client0'), client)
        try:
            if mode == 'toplevel':
                try:
                    out = t(client, env.ns, mk_kw='M@kw')
                    obs['outcome'] = ('completed', str(out)[-60:])
                except BaseException as e:
                    obs['outcome'] = ('raised', type(e).__name__, str(e)[:60])
            else:
                md = self.TemplateDict()
                md.guarded_getattr = getattr(t, 'guarded_getattr', None)
                md.guarded_getitem = getattr(t, 'guarded_getitem', None)
                md._push(env.ns)
                md._push({'mk_extra': 'M@extra'})
                md.level = level0
                snap = list(md._data)
                try:
                    if mode == 'protocol':
                        out = t(None, md)
                    else:
                        out = t(client, md, mk_kw='M@kw')
                    obs['outcome'] = ('completed', str(out)[-60:])
                except BaseException as e:
                    obs['outcome'] = ('raised', type(e).__name__, str(e)[:60])
                cur = md._data
                self.ctx.count('oracle:caller namespace compared after the call')
                if len(cur) != len(snap) or any(a is not b_ for a, b_ in zip(cur, snap)):
                    issues.append("caller's own TemplateDict changed by the call: depth %d -> %d (%s)"
                                  % (len(snap), len(cur), obs['outcome'][0]))
                if md.level != level0:
                    issues.append("caller's TemplateDict.level %d -> %d" % (level0, md.level))
        finally:
            U.CURRENT['env'] = None
        for p in mon.problems:
            issues.append('frame %s exit=%s: depth %s -> %s, level %s -> %s; extra=%s missing=%s'
                          % (p['frame'], p['exit'], p['entry_depth'], p['exit_depth'],
                             p['level_entry'], p['level_exit'],
                             [(e['type'], e.get('of') or e.get('keys'), e['pusher']) for e in p['extra']],
                             [(e['type'], e.get('of') or e.get('keys')) for e in p['missing']]))
        obs['problems'] = [dict(p) for p in mon.problems]
        obs['cascades'] = mon.cascades
        obs['exceptional_exits'] = mon.exceptional
        # head/tail probes of every dtml-try that was left normally
        final = None
        for site, head, tail in env.tail_events:
            self.ctx.count('oracle:try head/tail binding comparisons')
            if site == 0:
                final = tail
            if head is not None and head != tail:
                diff = dict((k, (head.get(k, U.MISSING), tail.get(k, U.MISSING)))
                            for k in set(head) | set(tail) if head.get(k) != tail.get(k))
                issues.append('bindings after dtml-try #%d differ from the bindings before it: %s'
                              % (site, sorted(diff.items())[:4]))
        obs['final_tail'] = final
        obs['mix_seen'] = env.mix_seen
        obs['n'] = env.ctl.n
        obs['log'] = env.ctl.log
        obs['fired'] = env.ctl.fired
        return obs


def classify_origin(p):
    """Mechanism key of a known finding for ONE origin record of the monitor, else None."""
    clean = not p['missing'] and p['level_entry'] == p['level_exit'] and p['extra']
    if clean and all(e['pusher'] == 'TreeTag.py:get_items' and e['type'] == 'InstanceDict'
                     for e in p['extra']) and p['kind'] in ('tpRender', 'Tree.render'):
        return MECH_TREE
    if clean and all(e['pusher'] == 'DT_String.py:__call__' and e['type'] == 'dict' and
                     e['pusher_frame'] == 'String.__call__(sub-template)' and
                     e['pusher_exit'] == 'exc:SystemError' and
                     (e['pusher_msg'] or '').startswith('infinite recursion')
                     for e in p['extra']) \
            and p['kind'] == 'String.__call__(sub-template)' and p['exit'] == 'exc:SystemError' \
            and p['level_entry'] > 200:
        return MECH_REC
    return None


def classify(obs):
    """Mechanism keys of one execution: [] when the monitor recorded no origin or any origin is
    not a known mechanism (the whole execution is then reported unlisted); otherwise the distinct
    mechanisms of its origins (an execution can run into both known defects one after the other).
    End-to-end symptoms (caller namespace, tail probes) of an execution are attributed to its
    origins, never classified on their own."""
    mechs = [classify_origin(p) for p in obs['problems']]
    if not mechs or None in mechs:
        return []
    return sorted(set(mechs))


def case_key(case):
    h = hashlib.blake2b(json.dumps(case, sort_keys=True, default=str).encode(), digest_size=6)
    return h.hexdigest()


def applicable_kinds(site, tier, k):
    pk = site.split('@')[0]
    if pk in ('getattr', 'guard-attr'):
        # by far the most frequent points (every name lookup that passes a pushed object):
        # two kinds per point, rotating with k, instead of all of them
        rot = ('key', 'base', 'unauth', 'attr', 'keyother', 'exc', 'ret')
        kinds = ['exc' if k % 2 else 'ret', rot[k % len(rot)]]
        if tier != 'quick':
            kinds.append(rot[(k + 3) % len(rot)])
        return list(dict.fromkeys(kinds))
    kinds = list(CORE_KINDS)
    if tier == 'quick':
        kinds.append(EXTRA_KINDS[k % 2])
    else:
        kinds.extend(EXTRA_KINDS)
    if pk in ('guard-item', 'seq-getitem', 'objmeth'):
        kinds.append('unauth')
    if pk in ('objmeth', 'tree-branches', 'tree-id'):
        kinds.append('attr')
    if pk in ('seq-getitem', 'iter-pull', 'guard-item'):
        kinds.append('index')
    return kinds


def evaluate(ctx, H, b, family, tree, guarded, mode, plan, base, level0=0):
    """One faulted (or fault-free) execution + oracle."""
    obs = H.execute(b, mode, dict(plan), level0)
    case = {'family': family, 'tree': tree, 'guarded': guarded, 'mode': mode,
            'plan': [list(p) for p in plan], 'level0': level0, 'src': b.full}
    fired = len(obs['fired'])
    engine_exc = obs['outcome'][0] == 'raised' or obs['exceptional_exits'] > 0
    ctx.case((b.sig, mode, tuple(plan), level0), nontrivial=bool(fired or engine_exc))
    if fired != len(plan):
        ctx.count('planned fault not reached (second fault of a pair after control flow changed)')
    for k, kind, site in obs['fired']:
        pk, blk = site.split('@')
        ctx.table('faults by enclosing block kind', '%s | %s' % (blk, kind))
        ctx.table('faults by point kind', '%s | %s' % (pk, kind))
    if plan:
        ctx.table('outcome by first fault kind', '%s | %s' % (plan[0][1], obs['outcome'][0] if
                  obs['outcome'][0] == 'raised' else ('returned RET' if str(obs['outcome'][1]).startswith('RET@')
                                                      else 'completed')))
        ctx.count('injected runs: %d fault%s' % (len(plan), '' if len(plan) == 1 else 's'))
    else:
        ctx.count('fault-free runs')
    count_mixed(ctx, b, obs, mode, bool(plan))
    issues = obs['issues']
    if base is not None and base['issues']:
        ctx.count('oracle:fault-free run itself violated; cross-run tail comparison skipped')
    elif base is not None and base.get('final_tail') is not None and obs['final_tail'] is not None:
        ctx.count('oracle:final tail compared with the fault-free run')
        if obs['final_tail'] != base['final_tail']:
            a, c = base['final_tail'], obs['final_tail']
            diff = dict((k, (a.get(k, U.MISSING), c.get(k, U.MISSING)))
                        for k in set(a) | set(c) if a.get(k) != c.get(k))
            issues.append('final tail probe sees other bindings than in the fault-free run: %s'
                          % sorted(diff.items())[:4])
    if obs['cascades']:
        ctx.count('monitor:cascade frames (enclosing an origin)', obs['cascades'])
    if issues:
        mechs = classify(obs) or [None]
        for mech in mechs:
            own = [o for o in obs['problems'] if mech is None or classify_origin(o) == mech]
            ctx.violation('; '.join(issues[:3])[:900], case, mech=mech,
                          key='%s_%s' % (mech or 'unlisted', case_key(case)),
                          detail={'outcome': obs['outcome'], 'issues': issues[:10],
                                  'origins': own[:4], 'fired': obs['fired'],
                                  'points': obs['log'][:80]})
    return obs


def count_mixed(ctx, b, obs, mode, faulted):
    """Evidence that heterogeneous sequences were really iterated (harness-side record of the
    element each body rendering was for) and that an output-level oracle then evaluated."""
    seen = obs.get('mix_seen') or {}
    if not seen:
        return
    how = 'faulted' if faulted else 'fault-free'
    # output-level deciders: the caller's own namespace compared after the call (protocol modes),
    # or the head/tail probes around the whole template (any mode, when the tail was reached)
    decided = mode != 'toplevel' or obs['final_tail'] is not None
    for name, codes in seen.items():
        info = b.mixed_info.get(name)
        if info is None or not codes:
            continue
        tag = 'batched' if info['batched'] else 'unbatched'
        ctx.count('mixed:%s loops whose body was rendered (%s runs)' % (tag, how))
        if faulted:
            continue
        classes = [U.MIX_CLASS.get(c, 'lost') for c in codes]
        ctx.table('mixed loops by option (fault-free)', '%s | %s' % (info['flags'] or 'plain', tag))
        for x, y in zip(classes, classes[1:]):
            ctx.table('mixed element-kind transitions rendered (fault-free)', '%s>%s | %s' % (x, y, tag))
            if decided:
                ctx.table('mixed element-kind transitions decided at output level',
                          '%s>%s | %s' % (x, y, tag))
        if decided:
            ctx.count('mixed:%s fault-free runs decided by caller-namespace / head-tail comparison' % tag)


def enumerate_template(ctx, H, family, tree, guarded, modes, tier, rng):
    try:
        b = H.build(tree, guarded)
    except Exception as e:
        ctx.count('generator: template rejected by cook (%s)' % type(e).__name__)
        return
    ctx.count('templates')
    ctx.table('template families', family.split(':')[0])
    for k in b.kinds:
        ctx.table('block kinds present in templates', k)
    for f in b.features:
        ctx.table('template features', f)
    for mode in modes:
        ctx.table('call modes', mode)
        level0 = {'protocol-client': 3, 'protocol-tuple': 7}.get(mode, 0)
        has_rec = any(f.startswith('rec:') for f in b.features)
        if has_rec and mode != 'toplevel':
            level0 = 192 if mode == 'protocol' else 197     # a caller that is already deeply nested
        slow = has_rec and mode == 'toplevel'               # 200 real levels: ~15 ms per execution
        base = evaluate(ctx, H, b, family, tree, guarded, mode, (), None, level0)
        N = base['n']
        ctx.count('fault points in fault-free runs', N)
        sites = base['log']
        pair_budget = PAIR_CAP[tier]
        if family.startswith('mixed:'):
            pair_budget = MIXED_PAIR_CAP[tier]
        singles = []
        for k in range(1, N + 1):
            kinds = applicable_kinds(sites[k - 1], tier, k)
            if slow:
                kinds = kinds[k % 2:][:1]
            singles.extend((k, kind) for kind in kinds)
        cap = SINGLE_CAP[tier] // (4 if has_rec else 1)
        if len(singles) > cap:
            # large templates (trees inside trees, deep recursion): a strided subset of (k, kind)
            step = -(-len(singles) // cap)
            off = rng.randrange(step)
            ctx.count('single faults skipped by the per-template cap', len(singles) - len(singles[off::step]))
            singles = singles[off::step]
        else:
            ctx.count('templates x modes with every (k, kind) enumerated')
        for k, kind in singles:
            o1 = evaluate(ctx, H, b, family, tree, guarded, mode, ((k, kind),), base, level0)
            # pairs: a second fault at a point the k-faulted run still reaches
            later = list(range(k + 1, o1['n'] + 1))
            if not later or pair_budget <= 0 or kind not in CORE_KINDS or slow:
                continue
            if len(later) > 3 and tier == 'quick':
                later = sorted(rng.sample(later, 3))
            for j in later:
                if pair_budget <= 0:
                    break
                pair_budget -= 1
                kind2 = CORE_KINDS[(j + k) % 3]
                evaluate(ctx, H, b, family, tree, guarded, mode, ((k, kind), (j, kind2)), base, level0)
    if len(ctx.samples) < 2 or (family in ('rec-in-try', 'single:tree-expr-expand') and len(ctx.samples) < 4):
        o = H.execute(b, 'protocol', {2: 'exc'})
        ctx.sample({'family': family, 'template': b.full[:400], 'mode': 'protocol', 'plan': {2: 'exc'},
                    'fault points': o['log'][:12], 'outcome': o['outcome'], 'issues': o['issues'][:2],
                    'final tail bindings': o['final_tail']})


# ================================================================== repository tests under the monitor
def run_repo_tests(ctx, H, only=None):
    import unittest
    mon = H.mon
    loader = unittest.TestLoader()
    suite = unittest.TestSuite()
    import os
    import DocumentTemplate.tests as dtests
    mods = ['DocumentTemplate.tests.' + f[:-3] for f in sorted(os.listdir(os.path.dirname(dtests.__file__)))
            if f.startswith('test') and f.endswith('.py')] + ['TreeDisplay.tests']
    for modname in mods:
        try:
            suite.addTests(loader.loadTestsFromName(modname))
        except Exception:
            ctx.count('repo tests: module not loadable ' + modname)

    def flat(s):
        for t in s:
            if isinstance(t, unittest.TestSuite):
                yield from flat(t)
            else:
                yield t
    for test in flat(suite):
        tid = test.id()
        if 'FailedTest' in tid or (only and tid != only):
            continue
        mon.reset()
        res = unittest.TestResult()
        test.run(res)
        ctx.count('repo tests run under the stack monitor')
        ctx.case(('repo-test', tid), nontrivial=True)
        if res.errors or res.failures:
            ctx.count('repo tests failing/erroring under the monitor (not a C08 verdict)')
        if mon.problems:
            obs = {'problems': [dict(p) for p in mon.problems]}
            p = mon.problems[0]
            ctx.violation('repository test %s: frame %s exit=%s depth %s -> %s level %s -> %s'
                          % (tid, p['frame'], p['exit'], p['entry_depth'], p['exit_depth'],
                             p['level_entry'], p['level_exit']),
                          {'mode': 'repo-test', 'test': tid}, mech=(classify(obs) + [None])[0],
                          key='repotest_' + case_key(tid), detail={'origins': mon.problems[:4]})


# ================================================================== run / finish / replay
def reach_setup():
    from vlib.reach import Reach
    from DocumentTemplate import DT_String, DT_In, DT_With, DT_Let, DT_Try
    from DocumentTemplate import _DocumentTemplate as core
    from TreeDisplay import TreeTag
    r = Reach()
    missing = []
    for label, owner, attr in (('String.__call__', DT_String.String, '__call__'),
                               ('render_blocks_', core, 'render_blocks_'),
                               ('InClass.renderwb', DT_In.InClass, 'renderwb'),
                               ('InClass.renderwob', DT_In.InClass, 'renderwob'),
                               ('With.render', DT_With.With, 'render'),
                               ('Let.render', DT_Let.Let, 'render'),
                               ('Try.render_try_except', DT_Try.Try, 'render_try_except'),
                               ('Try.render_try_finally', DT_Try.Try, 'render_try_finally'),
                               ('tpRender', TreeTag, 'tpRender'),
                               ('tpRenderTABLE', TreeTag, 'tpRenderTABLE'),
                               ('TemplateDict._push', core.TemplateDict, '_push'),
                               ('TemplateDict._pop', core.TemplateDict, '_pop')):
        f = getattr(owner, attr, None)     # an internal may have been renamed: diagnosis only
        if f is None:
            missing.append(label)
            continue
        r.watch(label, f)
    r.missing = missing
    return r


def run(ctx, spec):
    import sys
    sys.setrecursionlimit(12000)
    H = Harness(ctx)
    reach = reach_setup()
    reach.start()
    tier = ctx.tier
    items = atlas(tier)
    for i, (family, tree, guarded) in enumerate(items):
        if i % ctx.nshards != ctx.shard:
            continue
        if family.startswith('pair:') or (tier == 'quick' and
                                          not family.startswith(('single', 'rec', 'guarded:'))):
            modes = (Harness.MODES[i % 4],)
        elif family.startswith('mixed:'):
            modes = (Harness.MODES[(i + i // 4) % 4],)       # a large family: one mode each, rotating
        else:
            modes = Harness.MODES
        enumerate_template(ctx, H, family, tree, guarded, modes, tier, ctx.rng)
    nrand = NRANDOM[tier]
    rng = ctx.rng
    for i in range(nrand):
        if i % ctx.nshards != ctx.shard:
            continue
        guarded = rng.random() < 0.25
        maxdepth = rng.choice([1, 2, 2, 3, 3])
        tree = gen_body(rng, 0, maxdepth, guarded)
        mode = rng.choice(Harness.MODES[:2] * 2 + Harness.MODES[2:])
        enumerate_template(ctx, H, 'random:depth%d' % maxdepth, tree, guarded, (mode,), tier, rng)
    if ctx.shard == ctx.nshards - 1:
        run_repo_tests(ctx, H)
    reach.stop()
    reach.report(ctx)
    for label in reach.missing:
        ctx.count('reach-missing:' + label)
    H.mon.report(ctx)
    ctx.count('monitor:wrapped callables', len(H.mon.wrapped))
    ctx.count('executions', H.runs)


MIX_CLASSES = ('obj', 'map', 'pair', 'str', 'num')
REQUIRED_FRAMES = ('String.__call__(sub-template)', 'String.__call__(top-level)', 'render_blocks_',
                   'InClass.renderwb', 'InClass.renderwob', 'With.render', 'Let.render',
                   'Try.render', 'Try.render_try_except', 'Try.render_try_finally', 'Raise.render',
                   'ReturnTag.render', 'Var.render', 'Tree.render', 'tpRender', 'tpRenderTABLE')


def finish(agg):
    c = agg['counters']
    t = agg['tables']
    inc = []
    if not c.get('monitor:frame exits compared'):
        inc.append('stack monitor never compared a frame exit')
    if not c.get('monitor:exits exception'):
        inc.append('the monitor saw zero exceptional exits')
    if not c.get('monitor:exits DTReturn'):
        inc.append('the monitor saw zero DTReturn exits')
    # ---- output-level deciders (independent of which engine internals could be wrapped)
    output_level = all(c.get(k) for k in ('oracle:caller namespace compared after the call',
                                          'oracle:try head/tail binding comparisons',
                                          'oracle:final tail compared with the fault-free run'))
    diagnosis = []
    for r in ('String.__call__', 'render_blocks_', 'InClass.renderwb', 'InClass.renderwob', 'With.render',
              'Let.render', 'Try.render_try_except', 'Try.render_try_finally', 'tpRender', 'tpRenderTABLE',
              'TemplateDict._push', 'TemplateDict._pop'):
        if not c.get('reach:' + r):
            diagnosis.append('anchor never entered: ' + r)
    exits = t.get('frame exits by kind', {})
    for f in REQUIRED_FRAMES:
        for how in ('return', 'exception'):
            if f == 'ReturnTag.render' and how == 'return':
                continue
            if f == 'Raise.render' and how == 'return':
                continue
            if not exits.get('%s | %s' % (f, how)):
                diagnosis.append('monitored frame kind %s never left by %s' % (f, how))
    # wrappers on engine internals give the precise origin of an imbalance; when one of them could
    # not be placed (renamed internal) the enclosing frames and the output-level comparisons still
    # decide: that is reported as diagnosis, and only as inconclusive when the output-level oracle
    # did not evaluate either, or when the PUBLIC entry point frames were never compared
    public = ('String.__call__',)
    for d in diagnosis:
        if not output_level or any(('anchor never entered: ' + x) == d or
                                   ('frame kind %s(' % x) in d for x in public):
            inc.append(d)
    # ---- heterogeneous sequences (harness-side record of what was iterated)
    trans = t.get('mixed element-kind transitions decided at output level', {})
    for tag in ('batched', 'unbatched'):
        if not c.get('mixed:%s fault-free runs decided by caller-namespace / head-tail comparison' % tag):
            inc.append('no fault-free %s loop over a mixed sequence was decided at output level' % tag)
        if not c.get('mixed:%s loops whose body was rendered (faulted runs)' % tag):
            inc.append('no faulted run rendered a %s loop over a mixed sequence' % tag)
        for x in MIX_CLASSES:
            for y in MIX_CLASSES:
                if not trans.get('%s>%s | %s' % (x, y, tag)):
                    inc.append('mixed sequence: element kind %s followed by %s never rendered by the %s '
                               'dtml-in in a fault-free run decided at output level' % (x, y, tag))
    opts_seen = set()
    for k in t.get('mixed loops by option (fault-free)', {}):
        for w in k.split(' | ')[0].split('+'):
            opts_seen.add((w, k.split(' | ')[1]))
    for tag in ('batched', 'unbatched'):
        for w in ('plain', 'mapping', 'no_push_item', 'sort', 'reverse', 'sort_expr', 'reverse_expr',
                  'prefix'):
            if (w, tag) not in opts_seen:
                inc.append('mixed sequence never rendered by the %s dtml-in with option %s' % (tag, w))
    blocks = {}
    for k, n in t.get('faults by enclosing block kind', {}).items():
        blk = k.split(' | ')[0]
        blocks[blk] = blocks.get(blk, 0) + n
    for blk in U.BLOCK_KINDS:
        if not blocks.get(blk):
            inc.append('block kind had no fault injected inside it: ' + blk)
    kinds = {}
    for k, n in t.get('faults by point kind', {}).items():
        kd = k.split(' | ')[1]
        kinds[kd] = kinds.get(kd, 0) + n
    for kd in ('exc', 'key', 'keyother', 'ret', 'base', 'unauth', 'attr', 'index'):
        if not kinds.get(kd):
            inc.append('fault kind never fired: ' + kd)
    for need in ('injected runs: 1 fault', 'injected runs: 2 faults', 'fault-free runs',
                 'oracle:caller namespace compared after the call',
                 'oracle:try head/tail binding comparisons',
                 'oracle:final tail compared with the fault-free run',
                 'repo tests run under the stack monitor'):
        if not c.get(need):
            inc.append('never happened: ' + need)
    for m in Harness.MODES:
        if not t.get('call modes', {}).get(m):
            inc.append('call mode never used: ' + m)
    feats = t.get('template features', {})
    for need in ('rec:defaults', 'rec:nodefaults', 'tree:branches=expr', 'tree:branches=named',
                 'tree:expand_all', 'engine:strseq', 'in:iter', 'in:lazy', 'in:mixed:list',
                 'in:mixed:tuple', 'in:mixed:lazy', 'in:mixed:iter', 'in:mixed:mapping', 'in:batch:size',
                 'in:batch:start', 'in:batch:end', 'in:batch:size+start', 'in:batch:start+end',
                 'with:str', 'with:tuple2', 'with:mapobj', 'with:onlymap', 'sub:clients=0',
                 'sub:clients=1', 'sub:clients=3'):
        if not feats.get(need):
            inc.append('scenario never generated: ' + need)
    return {'inconclusive': inc,
            'coverage': {'exhaustive': False,
                         'diagnosis_only': [d for d in diagnosis if d not in inc],
                         'explanation': 'every fault point k=1..N of every template/mode is faulted with '
                                        'every applicable kind (exhaustive per template); pairs are capped '
                                        'per template (%r); the template set is an atlas plus seeded '
                                        'random trees' % (PAIR_CAP,),
                         'fault_points_total': c.get('fault points in fault-free runs', 0)}}


def replay(ctx, rep):
    import sys
    sys.setrecursionlimit(12000)
    H = Harness(ctx)
    c = rep['case']
    if c.get('mode') == 'repo-test':
        run_repo_tests(ctx, H, only=c['test'])
        return
    b = H.build(c['tree'], c['guarded'])
    base = evaluate(ctx, H, b, c['family'], c['tree'], c['guarded'], c['mode'], (), None, c.get('level0', 0))
    plan = tuple((int(k), kind) for k, kind in c['plan'])
    if plan:
        evaluate(ctx, H, b, c['family'], c['tree'], c['guarded'], c['mode'], plan, base, c.get('level0', 0))
