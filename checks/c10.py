"""C10 — dtml-in visits every element once, in order, with correct sequence variables.

Monitor: the body of a dtml-in prints, per displayed element, one parseable record with every
documented sequence variable that is defined for the shape of the sequence (value form and
``dtml-if`` truth form, prefix aliases, the plain names ``x``/``id`` of the element), a marker
in the else body and a probe of every bound name after the end tag.
Oracle: model written from the DT_In docstring and the property statement
(``vlib/c10_util.py``): which elements in which order, position variables from the index in
the shown order, roman numerals by an own converter, run boundaries for first-x/last-x, alias
equality, outer values (or nothing) after the end tag.
"""
import itertools
import zlib

from vlib import c10_util as U

ID = 'C10'
LEVEL = 'exploration'
RULE = ('exhaustive grid: every x-pattern of the stated alphabet for length 0..4 (quick) / 0..6 '
        '(thorough) x element kind x container x every option subset of {mapping, no_push_item, '
        'prefix, sort, reverse} that is defined for the kind (name/expr form, else block and a '
        'conflicting outer namespace rotate by a hash, full product for length 0); a batch family '
        '(size | start+size | start+end windows inside the sequence); a nested family (inner loop '
        'over an attribute of the outer element / a global, with and without prefixes); seeded '
        'longer sequences (<= 26 with letters, <= 60 roman). A case is non-trivial when the '
        'sequence is non-empty or an else block decides the empty case; distinct = distinct '
        '(family, kind, container, options, prefix, form, else, outer, x-pattern, values, window)')
ASSUMPTIONS = [
    'sequence-key is read for 2-tuple elements only; sequence-var-x, first-x, last-x and the '
    'plain names x/id only where every element defines them (objects; mappings with `mapping`)',
    'truth-valued variables (even, odd, start, end, first-x, last-x) are compared by truthiness',
    'with sort only "shown keys are ordered and every element appears once" is demanded '
    '(stability is C13); position variables refer to the shown order',
    'letters are compared for index < 26 only; sequence-length is compared with the number of '
    'elements in unbatched loops only; first-x/last-x only unbatched (batch windows are C11)',
    'batch windows are limited to shapes the docstring fixes: size; start+size; start+end with '
    '1 <= start <= end <= length',
    'no guards, no skip_unauthorized (the property does not quantify over them)',
]
SHARD_TIMEOUT = {'quick': 600, 'thorough': 3000}
NSHARDS = {'quick': 16, 'thorough': 48}

FORMS = ('name', 'expr', 'quoted')
SEED_PREFIXES = (None, 'p', 'my_p', 'X1', 'sequence', 'Item')


def plan(tier, seed):
    return [{} for _ in range(NSHARDS[tier])]


# ---------------------------------------------------------------- enumeration
def patterns(tier):
    if tier == 'quick':
        for n in range(0, 5):
            yield from itertools.product((0, 1), repeat=n)
    else:
        for n in range(0, 6):
            yield from itertools.product((0, 1, 2), repeat=n)
        yield from itertools.product((0, 1), repeat=6)


def option_sets(kind, full=True):
    for mapping in ((False, True) if U.PART[kind] == 'map' else (False,)):
        for npi in ((False, True) if full else (False,)):
            for prefix in (None, 'p'):
                base = {'mapping': mapping, 'no_push_item': npi, 'prefix': prefix}
                for sort in U.sort_modes(kind, base):
                    for reverse in (False, True):
                        yield dict(base, sort=sort, reverse=reverse)


def containers_for(kind):
    return U.CONTAINERS + (('dictitems',) if U.is_tuple_kind(kind) else ())


def vals_for(kind, xs):
    p = U.PART[kind]
    if p == 'int':
        return list(xs)
    if p == 'str':
        return ['v%s' % x for x in xs]
    return None


def h(*a):
    return zlib.crc32(repr(a).encode())


def grid_cases(tier):
    kinds = ('obj', 'map', 'tup_obj', 'str', 'int')
    if tier != 'quick':
        kinds += ('tup_map', 'tup_int', 'tup_str')
    for xs in patterns(tier):
        for kind in kinds:
            for cont in containers_for(kind):
                for opts in option_sets(kind):
                    base = {'family': 'flat', 'kind': kind, 'container': cont, 'opts': opts,
                            'xs': list(xs), 'vals': vals_for(kind, xs)}
                    if not xs:
                        for form in FORMS:
                            for els in (True, False):
                                for outer in (False, True):
                                    yield dict(base, form=form, outer=outer, **{'else': els})
                    else:
                        k = h(kind, cont, U.opts_code(opts), xs)
                        case = dict(base, form=FORMS[k % 3], outer=bool((k >> 4) & 1),
                                    **{'else': bool((k >> 7) & 1)})
                        yield case
                        # extra: the computed spellings sort_expr / reverse_expr of the same options
                        if (k >> 9) % 4 == 0:
                            yield dict(case, opts=dict(opts, sort_via='expr', reverse_via='expr'))


def batch_cases(tier):
    top = 4 if tier == 'quick' else 6
    for n in range(0, top + 1):
        wins = []
        if n == 0:
            wins = [{'size': 2}, {'start': 1, 'size': 3}]
        for k in range(1, n + 2):
            if n:
                wins.append({'size': k})
        for s in range(1, n + 1):
            for k in range(1, n - s + 3):
                wins.append({'start': s, 'size': k})
            for e in range(s, n + 1):
                wins.append({'start': s, 'end': e})
        for w in wins:
            for kind in ('obj', 'tup_obj', 'int', 'map'):
                for opts in option_sets(kind, full=False):
                    if kind == 'map' and not opts['mapping']:
                        continue
                    for cont in ('list', 'gen', 'lazy'):
                        k = h(n, sorted(w.items()), kind, U.opts_code(opts), cont)
                        xs = [(k >> (2 * j)) % 3 for j in range(n)]
                        yield {'family': 'batch', 'kind': kind, 'container': cont, 'opts': opts,
                               'xs': xs, 'vals': vals_for(kind, xs), 'batch': w,
                               'form': FORMS[k % 3], 'outer': bool((k >> 13) & 1),
                               'else': bool((k >> 14) & 1) or n == 0}


def nested_cases(tier):
    top, width = (3, 3) if tier == 'quick' else (4, 4)
    for no in range(0, top + 1):
        for kids in itertools.product(range(width), repeat=no):
            for op in (None, 'o'):
                for ip in (None, 'i'):
                    for inner in ('attr', 'global'):
                        for cont in ('list', 'gen'):
                            yield {'family': 'nested', 'kids': list(kids), 'oprefix': op,
                                   'iprefix': ip, 'inner': inner, 'container': cont,
                                   'gkids': (sum(kids) % width) if inner == 'global' else 0}


def random_case(rng):
    kind = rng.choice(U.KINDS)
    n = rng.choice([rng.randint(0, 26), rng.randint(0, 26), rng.randint(27, 60), rng.randint(2, 9)])
    base = {'mapping': U.PART[kind] == 'map' and rng.random() < 0.7,
            'no_push_item': rng.random() < 0.3, 'prefix': rng.choice(SEED_PREFIXES)}
    opts = dict(base, sort=rng.choice(U.sort_modes(kind, base)), reverse=rng.random() < 0.4,
                sort_via=rng.choice(('attr', 'attr', 'expr')),
                reverse_via=rng.choice(('attr', 'attr', 'expr')))
    alpha = rng.choice([(0, 1), (0, 1, 2), ('a', 'b'), ('a', 'B', 'c'), tuple(range(max(n, 1)))])
    xs = []
    while len(xs) < n:                       # runs of equal x with random lengths
        xs += [rng.choice(alpha)] * rng.choice([1, 1, 2, 3, 5])
    xs = xs[:n]
    p = U.PART[kind]
    if p == 'str':
        pool = rng.choice([['', 'a', 'b', 'ab', 'B'], ['v1', 'v2', '10', '9'], ['\xe9', 'z', 'Z', ' ']])
        vals = [rng.choice(pool) for _ in range(n)]
    elif p == 'int':
        pool = rng.choice([[0, 1, 2, -1, 10], [0, 1.5, 2.0, 2, -3.25], list(range(n + 2))])
        vals = [rng.choice(pool) for _ in range(n)]
    else:
        vals = None
    return {'family': 'flat', 'kind': kind, 'container': rng.choice(containers_for(kind)),
            'opts': opts, 'xs': xs, 'vals': vals, 'form': rng.choice(FORMS),
            'outer': rng.random() < 0.3, 'else': rng.random() < 0.5}


# ---------------------------------------------------------------- known-finding classifier
def classify(case, problems):
    """mechanism key of a known finding, or None (no genuine C10 defect is known so far)"""
    return None


# ---------------------------------------------------------------- shard
def anchors():
    from DocumentTemplate import DT_In, DT_InSV, DT_Util
    return [('InClass.renderwob', DT_In.InClass.renderwob),
            ('InClass.renderwb', DT_In.InClass.renderwb),
            ('InClass.sort_sequence', DT_In.InClass.sort_sequence),
            ('InClass.reverse_sequence', DT_In.InClass.reverse_sequence),
            ('sequence_variables.__getitem__', DT_InSV.sequence_variables.__getitem__),
            ('sequence_variables.__setitem__', DT_InSV.sequence_variables.__setitem__),
            ('sequence_variables.first', DT_InSV.sequence_variables.first),
            ('sequence_variables.last', DT_InSV.sequence_variables.last),
            ('sequence_variables.value', DT_InSV.sequence_variables.value),
            ('add_with_prefix', DT_Util.add_with_prefix),
            ('Add_with_prefix.__setitem__', DT_Util.Add_with_prefix.__setitem__),
            ('sequence_ensure_subscription', DT_Util.sequence_ensure_subscription),
            ('SequenceFromIter.__getitem__', DT_Util.SequenceFromIter.__getitem__)]


def run(ctx, spec):
    from DocumentTemplate.DT_HTML import HTML
    from vlib.reach import Reach
    reach = Reach()
    for label, fn in anchors():
        reach.watch(label, fn)
    reach.start()
    hz = U.Harness(ctx, HTML)
    T = hz.tally
    sampled = 0
    for fam, gen in (('grid', grid_cases), ('batch', batch_cases), ('nested', nested_cases)):
        for i, case in enumerate(gen(ctx.tier)):
            if i % ctx.nshards != ctx.shard:
                continue
            T.c('cases:' + fam)
            hz.evaluate(case, classify)
    nrand = (4000 if ctx.tier == 'quick' else 60000) // ctx.nshards
    for _ in range(nrand):
        T.c('cases:seeded')
        hz.evaluate(random_case(ctx.rng), classify)
    if ctx.shard < 3:
        for case in ({'family': 'flat', 'kind': 'tup_obj', 'container': 'gen', 'form': 'name',
                      'opts': {'mapping': False, 'no_push_item': False, 'prefix': 'p', 'sort': 'x',
                               'reverse': True}, 'xs': [1, 0, 1], 'vals': None, 'outer': False,
                      'else': True},
                     {'family': 'batch', 'kind': 'int', 'container': 'lazy', 'form': 'expr',
                      'opts': {'mapping': False, 'no_push_item': False, 'prefix': None,
                               'sort': 'item', 'reverse': False}, 'xs': [2, 0, 1, 1],
                      'vals': [2, 0, 1, 1], 'batch': {'start': 2, 'size': 2}, 'outer': True,
                      'else': False},
                     {'family': 'nested', 'kids': [2, 0, 1], 'oprefix': 'o', 'iprefix': None,
                      'inner': 'attr', 'container': 'list', 'gkids': 0})[ctx.shard:ctx.shard + 1]:
            ctx.sample(sample_of(hz, case))
            sampled += 1
    T.flush(ctx)
    reach.stop()
    reach.report(ctx)


def sample_of(hz, case):
    """render one case again, outside the verdict, to store inputs and observed output"""
    if case['family'] == 'nested':
        src, outer, glob = U.nested_source(case)
        out = hz.template(src)(outer=U.make_container(case['container'], outer), gk=glob)
        return {'case': case, 'source': U.show(src, 900),
                'sequence': repr([(o, o.kids) for o in outer])[:300], 'output': U.show(out, 1200)}
    elements, _ = U.build_elements(case['kind'], case['xs'], case.get('vals'))
    src, _ = U.flat_source(case)
    ns = U.outer_namespace(case['opts']) if case.get('outer') else {}
    out = hz.template(src)(None, ns, seq=U.make_container(case['container'], elements))
    return {'case': case, 'source': U.show(src, 900), 'sequence': repr(elements)[:300],
            'output': U.show(out, 1200)}


REQUIRED_VARIABLES = (['sequence-' + nm for nm in U.FIXED] +
                      ['if:sequence-' + nm for nm in U.TRUTH] +
                      ['sequence-var-x', 'first-x', 'last-x', 'if:first-x', 'if:last-x',
                       'name:x', 'name:id'] +
                      ['alias:' + nm for nm in U.FIXED])


def finish(agg):
    c = agg['counters']
    t = agg['tables']
    inc = []
    seen = t.get('variables compared', {})
    for v in REQUIRED_VARIABLES:
        if not seen.get(v):
            inc.append('variable never read and compared: ' + v)
    for n in ('0', '1'):
        if not t.get('lengths', {}).get(n):
            inc.append('no case of length ' + n)
    for k in ('records compared', 'after-end probes compared', 'empty sequences',
              'nested records compared', 'cases:grid', 'cases:batch', 'cases:seeded'):
        if not c.get(k):
            inc.append('monitor never evaluated: ' + k)
    for r in ('InClass.renderwob', 'InClass.renderwb', 'sequence_variables.__getitem__',
              'sequence_variables.__setitem__', 'sequence_variables.first',
              'sequence_variables.last', 'add_with_prefix', 'Add_with_prefix.__setitem__',
              'sequence_ensure_subscription', 'SequenceFromIter.__getitem__',
              'InClass.sort_sequence', 'InClass.reverse_sequence'):
        if not c.get('reach:' + r):
            inc.append('anchor never entered: ' + r)
    kc = t.get('kind x container', {})
    kinds = ('obj', 'map', 'tup_obj', 'str', 'int')
    for kind in kinds:
        for cont in U.CONTAINERS:
            if not kc.get('%s/%s' % (kind, cont)):
                inc.append('kind/container never rendered: %s/%s' % (kind, cont))
    tier = agg['tier']
    return {'inconclusive': inc,
            'coverage': {'exhaustive': True,
                         'grid': {'length': [0, 4 if tier == 'quick' else 6],
                                  'x alphabet': '{0,1}' if tier == 'quick' else '{0,1,2} (length 6: {0,1})',
                                  'x patterns': sum(1 for _ in patterns(tier)),
                                  'option subsets': len(t.get('option subsets', {}))},
                         'explanation': 'exhaustive over the stated grid (kinds x containers x '
                                        'option subsets x x-patterns); batch, nested and seeded '
                                        'families are extra'}}


def replay(ctx, rep):
    from DocumentTemplate.DT_HTML import HTML
    hz = U.Harness(ctx, HTML)
    hz.evaluate(rep['case'], classify)
    hz.tally.flush(ctx)
