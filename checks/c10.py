"""C10 — dtml-in visits every element once, in order, with correct sequence variables.

Monitor: the body of a dtml-in prints, per displayed element, one parseable record with every
documented sequence variable that is defined for the shape of the sequence (value form and
``dtml-if`` truth form, prefix aliases, the plain names ``x``/``id`` of the element), a marker
in the else body and a probe of every bound name after the end tag.
Oracle: model written from the DT_In docstring and the property statement
(``vlib/c10_util.py``): which elements in which order, position variables from the index in
the shown order, roman numerals by an own converter, run boundaries for first-x/last-x, alias
equality, outer values (or nothing) after the end tag.

Partial reads: a documented value does not depend on which elements the body reads it on.  In the
gated families every field of the record sits behind a ``dtml-if`` on a per-element gate (one gate
per record, per family of related variables, or per field; the gate is an attribute of the element
or a list indexed by ``sequence-index``); a closed gate must print the skip token, an open one the
documented value.  Only the identity of the element (sequence-item / sequence-key) is printed on
every element.  Tag spellings: the same records through ``<!--#in-->`` and ``%(in)[`` (class
String), the else / end tag repeating the name of the in tag, ``name=``, entity reads.

Attribute names: what an element exposes is visible in the body whatever it is called.  In the
names family the elements carry attributes / keys with arbitrary names (dashes, the look of a
sequence variable, digits, underscores, upper case, the look of a prefix alias, characters only an
expression can spell), exposed through the instance dictionary, ``__getattr__``, the class, a
property, a dict, a Mapping or a UserDict, on some elements only, with and without an outer value
of the same name.  The body reads them as ``dtml-var``, ``dtml-if``, entity, ``_[name]``,
``_.getitem``, ``_.has_key``, as a python name and as ``sequence-var-nnn`` / ``first-nnn`` /
``last-nnn``; the model is the documented precedence: the (innermost) element that defines the
name, else what was visible outside the tag; with ``no_push_item`` only the latter; after the end
tag only the latter.

Block tags in the body: what the statement says about the body holds wherever in the body a
variable is read.  In the blocks family other block tags stand between the fields of the record
(if / elif / else chains over every pair of conditions - an expression or a name; true, false,
undefined; a sequence variable, an attribute of the element, a prefix alias -, unless, with / let,
try / except / else / finally with an error unwinding through a with or an inner loop (failing in
its body, when its sequence is looked up, when it is sorted or reversed), an inner
dtml-in over another sequence, call, comment); the block prints what its own documentation says
(the first true section, with sequence-number read inside it) and every read after it - in this
record and the following ones - keeps its documented value.

Element values and containers: the element may be any object, also None or another false value
(0, '', False, 0.0), and the sequence may reach the tag as a list, tuple, generator, counting
iterator, lazy __getitem__/__len__ sequence, list iterator, map object, dictionary view, an
object that is only iterable, one with the old __getitem__ protocol only, or a deque; the same
values as the x of objects / mappings and as the keys of 2-tuples.

Long sequences: every position 1..3999 of one sequence is read (number, roman, Roman, the
aliases; parity, start / end, length) and compared with the model's numeral writer (two writers,
cross-checked), batch windows lie around the positions where a numeral changes its shape, whole
records are read on some hundred elements.
"""
import itertools
import zlib

from vlib import c10_util as U

ID = 'C10'
LEVEL = 'exploration'
RULE = ('exhaustive grid: every x-pattern of the stated alphabet for length 0..4 (quick) / 0..6 '
        '(thorough) x element kind x container x every option subset of {mapping, no_push_item, '
        'prefix, sort, reverse} that is defined for the kind (name/expr form, else block and a '
        'conflicting outer namespace rotate by a hash, full product for length 0); a batch family '
        '(size | start+size | start+end windows inside the sequence); a nested family (inner loop '
        'over an attribute of the outer element / a global, with and without prefixes); seeded '
        'longer sequences (<= 26 with letters, <= 60 roman); a gated family (partial reads: every '
        'binary x-pattern of length 2..5 (thorough 2..6, ternary 2..4) x every subset of positions '
        'that read the run boundaries, gate per record / per variable family / per field, gate by '
        'element attribute or by sequence-index, a second run attribute y and a permuted reading '
        'order by hash); a syntax family (tag style dtml / comment / %()[ x name, name=, expr, '
        '"expr" x else tag plain or repeating the name x end tag plain, named, <!--#endin--> x '
        'length 0..3 (thorough 0..4) x kind x unbatched / size / start+size; entity reads and an '
        'else body of several blocks by hash); seeded cases decorated with gates / y / reading '
        'order / spelling; a names family (every name of a pool of 57 element attribute names - '
        'dashed, sequence-variable look-alikes, identifiers with digits / underscores / upper case, '
        'the words sequence variables end in, prefix-alias look-alikes, names only an expression '
        'can spell - x 10 ways an element exposes it (instance dict, __getattr__, class, property; '
        'dict, Mapping, UserDict with mapping; (key, object) and (key, mapping) pairs) x '
        'no_push_item x prefix x unbatched / size / start+size (thorough: x 12 reading forms); '
        'companion names, presence per element, values with runs, outer values, sort / reverse, '
        'container, tag spelling and an inner loop over the children of the element by hash); '
        'seeded names cases with names drawn from a grammar of these classes; a blocks family '
        '(another block tag between the fields of the record: every if chain of one or two '
        'conditions over 15 conditions - expression / name; true, false, undefined; sequence '
        'variable, element attribute, alias - with and without else (full product for objects and '
        'numbers, a third for the other kinds in the quick tier), chains of three by kind of '
        'condition, unless x condition, 5 with / let, 8 try (an error unwinding through with, and '
        'through an inner dtml-in at four stages), 5 inner dtml-in variants, call, '
        'comment x kind {obj, int, map, tup_obj, str, val}; position of the block, a second block, '
        'options, container, spelling, gates, reading order, batch window by hash); a values '
        'family (every pattern of length 0..3 over {None, 0, \'\', False, \'a\'} (thorough: 10 values, '
        'length 4 over 5; half of the pairs and of length 4) as the elements x 11 containers '
        '(+ dict items for pairs), as the x of '
        'objects / mappings / pairs and every ordered choice of 1..3 of 6 keys (None, 0, \'\', ...) '
        'for 2-tuples; the ordinary kinds x the 6 further containers x binary patterns 0..3); a '
        'long family (16 (thorough 96) sequences of 3950..3999 elements - three quarters of them '
        'exactly 3999 - reading number / roman / Roman / aliases and in a third of them the other '
        'position variables, kinds x containers x options by hash; batch windows around 25 '
        'positions where the numeral changes shape (4, 9, 40, 90, 400, 900, 1000, ...) into lazy / '
        'list / generator / deque / list-iterator sequences; whole records on 61..500 elements); '
        'seeded wide cases (any scalar element, false x values, every container, blocks, rarely up '
        'to 400 elements). A case is non-trivial when the '
        'sequence is non-empty or an else block decides the empty case; distinct = distinct '
        '(family, kind, container, options, prefix, form, else, outer, x-pattern, values, window, '
        'spelling, gates, y-pattern, reading order; names family: the whole case)')
ASSUMPTIONS = [
    'sequence-key is read for 2-tuple elements only; sequence-var-x, first-x, last-x and the '
    'plain names x/id only where every element defines them (objects; mappings with `mapping`)',
    'truth-valued variables (even, odd, start, end, first-x, last-x) are compared by truthiness',
    'with sort only "shown keys are ordered and every element appears once" is demanded '
    '(stability is C13); position variables refer to the shown order',
    'letters are compared for index < 26 only; sequence-length is compared with the number of '
    'elements in unbatched loops only; first-x/last-x only unbatched (batch windows are C11)',
    'batch windows are limited to shapes the docstring fixes: size; start+size; start+end with '
    '1 <= start <= end <= length',
    'no guards, no skip_unauthorized (the property does not quantify over them)',
    'a gated body prints sequence-item (2-tuples: sequence-key) on every element to identify it; '
    'every other variable is read only where its gate is open; a prefix alias whose sequence- '
    'form is not read on the same element is compared with the documented value itself',
    'the else / end tag repeats the name only where the in tag names its sequence (name or '
    'name= form); the "expr" shorthand is generated for the HTML spellings only (the %()[ tag '
    'pattern does not admit it); entity reads are used for values html_quote leaves unchanged',
    'the gate expression reads sequence-index through the namespace variable _ '
    '(_[\'sequence-index\']); this is itself a read of a documented variable on every element',
    'names family: values are str / int / float (no callables, no None); names never start with '
    'an underscore and never equal a name the tag itself binds (sequence-item, p_item, first-x, '
    'mapping, ...): there two sentences of the statement would claim the name',
    'names family: a name that looks like a sequence variable (first word sequence / first / last '
    '/ next / previous / a statistic, or the prefix followed by _) is read only where every '
    'element defines it and the element is pushed: elsewhere its lookup is a sequence variable '
    'computation whose outcome the documentation does not fix; _[name] / _.getitem / entity / '
    'python-name reads only where the name resolves on every element (they raise otherwise); '
    'sequence-var-nnn / first-nnn / last-nnn only for identifier names defined on every element '
    '(the documentation spells nnn as a simple name), first/last unbatched only',
    'names family: where the current element lacks a name, the value visible outside the tag (or '
    'nothing) is expected - the tag binds nothing under that name',
    'blocks family: the text a block prints is modelled from the documentation of if / unless / '
    'with / let / try / in (first true section; an undefined name is false; an error in a try '
    'section discards its text; sorting values that do not compare is an error); conditions '
    'never call anything; dtml-call is generated for the '
    'HTML spellings only; attributes of the element are used as conditions only where the '
    'element is pushed',
    'values family: scalars whose texts are pairwise distinct (None, 0, \'\', False, \'a\', 0.0, '
    '1, True); elements that are equal as text are interchangeable; such sequences are not '
    'sorted by item, false x values and arbitrary keys not sorted at all (where None sorts is '
    'C13); no 2-tuples as plain elements (they are pairs)',
    'long sequences stay within 3999 elements (the range of roman numerals); letters are read '
    'but compared for index < 26 only; 2-tuple keys are made distinct beyond 100 elements',
]
SHARD_TIMEOUT = {'quick': 600, 'thorough': 3000}
NSHARDS = {'quick': 16, 'thorough': 48}

FORMS = ('name', 'expr', 'quoted')
SEED_PREFIXES = (None, 'p', 'my_p', 'X1', 'sequence', 'Item')


def plan(tier, seed):
    return [{} for _ in range(NSHARDS[tier])]


# ---------------------------------------------------------------- enumeration
def patterns(tier):
    if tier == 'quick':
        for n in range(0, 5):
            yield from itertools.product((0, 1), repeat=n)
    else:
        for n in range(0, 6):
            yield from itertools.product((0, 1, 2), repeat=n)
        yield from itertools.product((0, 1), repeat=6)


def option_sets(kind, full=True):
    for mapping in ((False, True) if U.PART[kind] == 'map' else (False,)):
        for npi in ((False, True) if full else (False,)):
            for prefix in (None, 'p'):
                base = {'mapping': mapping, 'no_push_item': npi, 'prefix': prefix}
                for sort in U.sort_modes(kind, base):
                    for reverse in (False, True):
                        yield dict(base, sort=sort, reverse=reverse)


def containers_for(kind):
    return U.CONTAINERS + (('dictitems',) if U.is_tuple_kind(kind) else ())


def vals_for(kind, xs, k=0):
    p = U.PART[kind]
    if p == 'int':
        return list(xs)
    if p == 'str':
        return ['v%s' % x for x in xs]
    if p == 'val':
        return [U.VALUE_POOL[(zlib.crc32(repr((k, j)).encode()) + x) % len(U.VALUE_POOL)]
                for j, x in enumerate(xs)]
    return None


def h(*a):
    return zlib.crc32(repr(a).encode())


def grid_cases(tier):
    kinds = ('obj', 'map', 'tup_obj', 'str', 'int')
    if tier != 'quick':
        kinds += ('tup_map', 'tup_int', 'tup_str')
    for xs in patterns(tier):
        for kind in kinds:
            for cont in containers_for(kind):
                for opts in option_sets(kind):
                    base = {'family': 'flat', 'kind': kind, 'container': cont, 'opts': opts,
                            'xs': list(xs), 'vals': vals_for(kind, xs)}
                    if not xs:
                        for form in FORMS:
                            for els in (True, False):
                                for outer in (False, True):
                                    yield dict(base, form=form, outer=outer, **{'else': els})
                    else:
                        k = h(kind, cont, U.opts_code(opts), xs)
                        case = dict(base, form=FORMS[k % 3], outer=bool((k >> 4) & 1),
                                    **{'else': bool((k >> 7) & 1)})
                        yield case
                        # extra: the computed spellings sort_expr / reverse_expr of the same options
                        if (k >> 9) % 4 == 0:
                            yield dict(case, opts=dict(opts, sort_via='expr', reverse_via='expr'))


def batch_cases(tier):
    top = 4 if tier == 'quick' else 6
    for n in range(0, top + 1):
        wins = []
        if n == 0:
            wins = [{'size': 2}, {'start': 1, 'size': 3}]
        for k in range(1, n + 2):
            if n:
                wins.append({'size': k})
        for s in range(1, n + 1):
            for k in range(1, n - s + 3):
                wins.append({'start': s, 'size': k})
            for e in range(s, n + 1):
                wins.append({'start': s, 'end': e})
        for w in wins:
            for kind in ('obj', 'tup_obj', 'int', 'map'):
                for opts in option_sets(kind, full=False):
                    if kind == 'map' and not opts['mapping']:
                        continue
                    for cont in ('list', 'gen', 'lazy'):
                        k = h(n, sorted(w.items()), kind, U.opts_code(opts), cont)
                        xs = [(k >> (2 * j)) % 3 for j in range(n)]
                        yield {'family': 'batch', 'kind': kind, 'container': cont, 'opts': opts,
                               'xs': xs, 'vals': vals_for(kind, xs), 'batch': w,
                               'form': FORMS[k % 3], 'outer': bool((k >> 13) & 1),
                               'else': bool((k >> 14) & 1) or n == 0}


def nested_cases(tier):
    top, width = (3, 3) if tier == 'quick' else (4, 4)
    for no in range(0, top + 1):
        for kids in itertools.product(range(width), repeat=no):
            for op in (None, 'o'):
                for ip in (None, 'i'):
                    for inner in ('attr', 'global'):
                        for cont in ('list', 'gen'):
                            yield {'family': 'nested', 'kids': list(kids), 'oprefix': op,
                                   'iprefix': ip, 'inner': inner, 'container': cont,
                                   'gkids': (sum(kids) % width) if inner == 'global' else 0}


def random_case(rng, wide=False):
    """wide: also any scalar as an element, false values as x, every container, now and then
    some hundred elements"""
    kind = rng.choice(U.WIDE_KINDS if wide else U.KINDS)
    n = rng.choice([rng.randint(0, 26), rng.randint(0, 26), rng.randint(27, 60), rng.randint(2, 9)])
    if wide and rng.random() < 0.015:
        n = rng.randint(61, 400)
    base = {'mapping': U.PART[kind] == 'map' and rng.random() < 0.7,
            'no_push_item': rng.random() < 0.3, 'prefix': rng.choice(SEED_PREFIXES)}
    opts = dict(base, sort=rng.choice(U.sort_modes(kind, base)), reverse=rng.random() < 0.4,
                sort_via=rng.choice(('attr', 'attr', 'expr')),
                reverse_via=rng.choice(('attr', 'attr', 'expr')))
    alpha = rng.choice([(0, 1), (0, 1, 2), ('a', 'b'), ('a', 'B', 'c'), tuple(range(max(n, 1)))])
    if wide and rng.random() < 0.25:
        alpha = rng.choice([(None, 0, '', False, 'a'), (None, 'a'), (0, False, 0.0), ('', None)])
        if opts['sort'] == 'x':
            opts['sort'] = None                     # where None sorts is not this property's
    xs = []
    while len(xs) < n:                       # runs of equal x with random lengths
        xs += [rng.choice(alpha)] * rng.choice([1, 1, 2, 3, 5])
    xs = xs[:n]
    p = U.PART[kind]
    if p == 'str':
        pool = rng.choice([['', 'a', 'b', 'ab', 'B'], ['v1', 'v2', '10', '9'], ['\xe9', 'z', 'Z', ' ']])
        vals = [rng.choice(pool) for _ in range(n)]
    elif p == 'int':
        pool = rng.choice([[0, 1, 2, -1, 10], [0, 1.5, 2.0, 2, -3.25], list(range(n + 2))])
        vals = [rng.choice(pool) for _ in range(n)]
    elif p == 'val':
        pool = rng.choice([list(U.VALUE_POOL), [None, 'a'], [None, 0, '', False, 0.0], [None]])
        vals = [rng.choice(pool) for _ in range(n)]
    else:
        vals = None
    conts = containers_for(kind) + (U.MORE_CONTAINERS if wide else ())
    case = {'family': 'flat', 'kind': kind, 'container': rng.choice(conts),
            'opts': opts, 'xs': xs, 'vals': vals, 'form': rng.choice(FORMS),
            'outer': rng.random() < 0.3, 'else': rng.random() < 0.5}
    if wide and U.is_tuple_kind(kind) and (n > 100 or rng.random() < 0.2):
        case['keys'] = ['q%04d' % ((j * 37 + 11) % 1009) for j in range(n)]
    return case


# ---------------------------------------------------------------- partial reads (gates)
def bits(k, width, salt):
    """`width` hash-derived bits"""
    out, j = 0, 0
    while out.bit_length() < width + 32:
        out = (out << 32) | h(k, salt, j)
        j += 1
    return out & ((1 << width) - 1)


def run_values(k, n, alphabet=(0, 1)):
    """hash-derived values with runs of equal neighbours"""
    ys = []
    j = 0
    while len(ys) < n:
        w = h(k, 'y', j)
        ys += [alphabet[w % len(alphabet)]] * (1 + (w >> 8) % 3)
        j += 1
    return ys[:n]


GATE_WIDTH = 96      # more slots than any record has fields


def gate_rows(gran, n, P, k):
    """open slots per position: P (n bits) says where the run boundaries are read; with one gate
    per record it is the whole gate, with one gate per family of variables last-x follows the
    mirrored pattern and the other families are hash-derived, with one gate per field all are"""
    rows = []
    for p in range(n):
        bit = (P >> p) & 1
        if gran == 'record':
            rows.append(bit)
        elif gran == 'group':
            m = bits(k, U.NGROUPS, ('g', p)) & ~0b1111000
            m |= bit << 3 | ((P >> (n - 1 - p)) & 1) << 4
            m |= ((h(k, 'fy') >> p) & 1) << 5 | ((h(k, 'ly') >> p) & 1) << 6
            rows.append(m)
        else:
            rows.append(bits(k, GATE_WIDTH, ('f', p)))
    return rows


def gated_cases(tier):
    """bodies that read a variable on some elements only: every x-pattern x every subset of the
    positions (one gate per record / per family of variables), all other choices by hash"""
    kinds = ('obj', 'map', 'tup_obj') if tier == 'quick' else ('obj', 'map', 'tup_obj', 'tup_map')
    plan_ = [(n, (0, 1)) for n in range(2, 6 if tier == 'quick' else 7)]
    if tier != 'quick':
        plan_ += [(n, (0, 1, 2)) for n in range(2, 5)]
    for n, alpha in plan_:
        for xs in itertools.product(alpha, repeat=n):
            if len(alpha) == 3 and 2 not in xs:
                continue                                  # already in the binary part
            for P in range(1 << n):
                k = h('gated', xs, P)
                kind = kinds[k % len(kinds)]
                osets = [o for o in option_sets(kind) if U.has_x(kind, o)]
                opts = osets[(k >> 3) % len(osets)]
                conts = containers_for(kind)
                gran = ('record', 'group', 'field')[(k >> 13) % 3]
                by = 'attr' if (k >> 15) & 1 and not opts['no_push_item'] else 'index'
                yield {'family': 'flat', 'kind': kind, 'container': conts[(k >> 9) % len(conts)],
                       'opts': opts, 'xs': list(xs), 'vals': None, 'form': FORMS[(k >> 21) % 3],
                       'outer': bool((k >> 23) & 1), 'else': bool((k >> 24) & 1),
                       'gate': {'by': by, 'gran': gran, 'rows': gate_rows(gran, n, P, k)},
                       'ys': run_values(k, n) if (k >> 17) & 1 else None,
                       'perm': k % 1000 if (k >> 19) % 4 == 0 else None}


# ---------------------------------------------------------------- tag spellings
def spellings():
    """(style, form, else spelling, end spelling): the else / end tag may repeat the name of the
    in tag where the in tag gives a name"""
    for style in U.Syn.STYLES:
        ends = ('plain', 'named', 'end') if style == 'comment' else ('plain', 'named')
        for form in ('name', 'name=', 'expr', 'quoted'):
            for els in ('plain', 'named'):
                for end in ends:
                    if form in ('expr', 'quoted') and (els == 'named' or end != 'plain'):
                        continue
                    if form == 'quoted' and style == 'epfs':
                        continue        # the "..." shorthand belongs to the HTML spellings
                    yield style, form, els, end


SYNTAX_BATCHES = (None, {'size': 2}, {'start': 1, 'size': 3})


def syntax_cases(tier):
    """every tag spelling x empty and short sequences x kinds x unbatched / batched"""
    top = 3 if tier == 'quick' else 4
    for n in range(0, top + 1):
        for xs in itertools.product((0, 1), repeat=n):
            for kind in ('obj', 'map', 'tup_obj', 'str', 'int'):
                for bi, batch in enumerate(SYNTAX_BATCHES):
                    for style, form, els, end in spellings():
                        k = h('syntax', xs, kind, bi, style, form, els, end)
                        osets = list(option_sets(kind, full=not batch))
                        opts = osets[k % len(osets)]
                        if batch and kind == 'map' and not opts['mapping']:
                            opts = dict(opts, mapping=True, sort=None)
                        conts = containers_for(kind)
                        case = {'family': 'batch' if batch else 'flat', 'kind': kind,
                                'container': conts[(k >> 7) % len(conts)], 'opts': opts,
                                'xs': list(xs), 'vals': vals_for(kind, xs), 'form': form,
                                'outer': bool((k >> 11) & 1),
                                'else': n == 0 or els == 'named' or bool((k >> 12) & 1),
                                'syntax': {'style': style, 'else': els, 'end': end,
                                           'entity': bool((k >> 13) & 1),
                                           'rich_else': bool((k >> 14) & 1)}}
                        if batch:
                            case['batch'] = batch
                        yield case


def rich_random_case(rng, wide=False):
    """a seeded case with partial reads, a second run attribute, another reading order and / or
    another tag spelling"""
    case = random_case(rng, wide)
    kind, opts, n = case['kind'], case['opts'], len(case['xs'])
    hasx = U.has_x(kind, opts)
    todo = [rng.random() < 0.6, hasx and rng.random() < 0.4, rng.random() < 0.3, rng.random() < 0.4]
    if not any(todo):
        todo[0] = True
    if todo[0]:
        gran = rng.choice(('record', 'group', 'field'))
        width = {'record': 1, 'group': U.NGROUPS, 'field': GATE_WIDTH}[gran]
        dens = rng.choice((0.25, 0.5, 0.75))
        rows = [sum((rng.random() < dens) << s for s in range(width)) for _ in range(n)]
        by = 'attr' if hasx and not opts['no_push_item'] and rng.random() < 0.5 else 'index'
        case['gate'] = {'by': by, 'gran': gran, 'rows': rows}
    if todo[1]:
        alpha = rng.choice([(0, 1), ('a', 'b', 'c'), (0, '', 'a')])
        ys = []
        while len(ys) < n:
            ys += [rng.choice(alpha)] * rng.choice([1, 1, 2, 4])
        case['ys'] = ys[:n]
    if todo[2]:
        case['perm'] = rng.randrange(10 ** 6)
    if todo[3]:
        style, form, els, end = rng.choice(list(spellings()))
        case['form'] = form
        case['syntax'] = {'style': style, 'else': els, 'end': end, 'entity': rng.random() < 0.5,
                          'rich_else': rng.random() < 0.5}
    return case


# ---------------------------------------------------------------- block tags between the reads
def decorate(case, k, tier, batch_ok=True):
    """hash-derived spelling / gate / reading order / window of a generated case"""
    n = len(case['xs'])
    style = ('dtml', 'dtml', 'comment', 'epfs')[(k >> 3) % 4]
    if any(style not in U.block_styles(spec) for _, spec in case.get('blocks') or ()):
        style = 'dtml'
    form = case['form']
    if style == 'epfs' and form == 'quoted':
        form = case['form'] = 'expr'
    if style != 'dtml' or (k >> 5) & 1:
        case['syntax'] = {'style': style, 'else': 'plain', 'end': 'plain',
                          'entity': bool((k >> 6) & 1), 'rich_else': False}
    if n and (k >> 7) % 4 == 0:
        gran = ('record', 'field')[(k >> 9) & 1]
        width = 1 if gran == 'record' else GATE_WIDTH
        case['gate'] = {'by': 'index', 'gran': gran,
                        'rows': [bits(k, width, ('blk', p)) for p in range(n)]}
    if (k >> 10) % 4 == 0:
        case['perm'] = k % 1000
    if batch_ok and n >= 2 and (k >> 12) % 4 == 0 and not (
            case['kind'] == 'map' and not case['opts']['mapping']):
        case['family'] = 'batch'
        case['batch'] = ({'size': 2}, {'start': 2, 'size': 2})[(k >> 14) & 1]
    return case


def block_specs(conds):
    """every block over the conditions defined for a shape: if chains of one and two conditions
    (full product) and of three (kinds of conditions x 4 hash-derived choices), with and without
    else; unless over every condition; every variant of the other block tags"""
    for c1 in conds:
        for els in (False, True):
            yield ['if', [c1], els]
            for c2 in conds:
                yield ['if', [c1, c2], els]
    by_type = {t: [c for c in conds if U.cond_type(c) == t] for t in ('expr', 'name')}
    for types in itertools.product(('expr', 'name'), repeat=3):
        for els in (False, True):
            for v in range(4):
                yield ['if', [by_type[t][h('if3', types, els, v, j) % len(by_type[t])]
                              for j, t in enumerate(types)], els]
    for c in conds:
        yield ['unless', c]
    for tag, variants in sorted(U.BLOCK_VARIANTS.items()):
        for v in variants:
            yield [tag, v]
    yield ['call']
    yield ['comment']


BLOCK_KINDS = ('obj', 'int', 'map', 'tup_obj', 'str', 'val')


def block_cases(tier):
    """a body with other block tags between the reads of the record: every block spec x kind
    (the full product of two-condition chains for objects and numbers - an element that is pushed
    and one that is not -, a third of it for the other kinds), everything else by hash"""
    top = 3 if tier == 'quick' else 5
    others = [[t, v] for t, vs in sorted(U.BLOCK_VARIANTS.items()) for v in vs]
    for ki, kind in enumerate(BLOCK_KINDS):
        base_sets = [o for o in option_sets(kind) if o['sort'] is None]
        can_push = any(U.has_x(kind, o) for o in base_sets)
        conds = list(U.COND_ANY) + (['x', 'id'] if can_push else []) + ['alias']
        for variant in range(1 if tier == 'quick' else 3):
            for spec in block_specs(conds):
                k = h('blocks', kind, variant, spec)
                if (spec[0] == 'if' and len(spec[1]) == 2 and ki >= 2 and tier == 'quick'
                        and k % 3):
                    continue
                used = set(spec[1]) if spec[0] == 'if' else set(spec[1:2])
                osets = [o for o in base_sets
                         if (not used & {'x', 'id'} or (U.has_x(kind, o) and not o['no_push_item']))
                         and ('alias' not in used or o['prefix'])]
                opts = osets[(k >> 1) % len(osets)]
                n = 1 + (k >> 4) % top
                xs = run_values(k, n)
                conts = containers_for(kind) + U.MORE_CONTAINERS
                nfields = 17 + (13 if opts['prefix'] else 0)
                pos = (0, 0, 2, nfields // 2, nfields - 3, 99)[(k >> 16) % 6]
                blocks = [[pos, spec]]
                if (k >> 19) % 3 == 0:       # a second block, of another tag, further on
                    blocks.append([pos + 1 + (k >> 21) % 9, others[(k >> 25) % len(others)]])
                case = {'family': 'flat', 'kind': kind,
                        'container': conts[(k >> 7) % len(conts)], 'opts': opts, 'xs': xs,
                        'vals': vals_for(kind, xs, k), 'form': FORMS[(k >> 11) % 3],
                        'outer': bool((k >> 13) & 1), 'else': bool((k >> 14) & 1),
                        'blocks': blocks}
                yield decorate(case, h(k, 'deco'), tier)


# ---------------------------------------------------------------- element values, containers
FALSE_ALPHABET = (None, 0, '', False, 'a')
KEY_POOL = (None, 0, '', 'k', 1.5, -1)          # pairwise distinct as text and as dictionary keys


def value_patterns(tier):
    for n in range(0, 4):
        yield from itertools.product(FALSE_ALPHABET if tier == 'quick' else U.VALUE_POOL, repeat=n)
    if tier != 'quick':
        yield from itertools.product(FALSE_ALPHABET, repeat=4)


def values_cases(tier):
    """None and the other false values as elements, as the x of objects / mappings and as the keys
    of 2-tuples, through every container; the ordinary kinds through the further containers"""
    def finish_(case, k, n):
        kind = case['kind']
        base = {'mapping': U.PART[kind] == 'map', 'no_push_item': (k >> 3) % 3 == 0,
                'prefix': (None, 'p')[(k >> 5) & 1]}
        sorts = case.pop('sorts')
        modes = [m for m in U.sort_modes(kind, base) if m in sorts]
        case.update(family='flat', opts=dict(base, sort=modes[(k >> 7) % len(modes)],
                                              reverse=(k >> 9) % 3 == 0),
                    form=FORMS[(k >> 11) % 3], outer=bool((k >> 13) & 1))
        case['else'] = n == 0 or bool((k >> 14) & 1)
        return decorate(case, h(k, 'deco'), tier)

    for vals in value_patterns(tier):
        n = len(vals)
        for cont in U.ALL_CONTAINERS + ('dictitems',):
            for kind in ('val', 'tup_val'):
                k = h('values', vals, cont, kind)
                if kind == 'val' and cont == 'dictitems':
                    continue
                if tier == 'quick' and (
                        (kind == 'tup_val' and cont != 'dictitems' and k % 3) or
                        (kind == 'val' and n == 3 and k % 2)):
                    continue            # quick: a sample of the longest patterns / of the pairs
                if tier != 'quick' and cont != 'dictitems' and k % 2 and (kind == 'tup_val' or n == 4):
                    continue            # thorough: half of the pairs and of the longest patterns
                yield finish_({'kind': kind, 'container': cont, 'xs': [0] * n, 'vals': list(vals),
                               'sorts': (None, 'key')}, k, n)
    # false values as the x of objects and mappings (no sort: the order of None is not C10's)
    for xs in value_patterns(tier):
        if not xs:
            continue
        for kind in ('obj', 'map', 'tup_obj'):
            k = h('false x', xs, kind)
            conts = U.ALL_CONTAINERS + (('dictitems',) if kind == 'tup_obj' else ())
            yield finish_({'kind': kind, 'container': conts[(k >> 16) % len(conts)],
                           'xs': list(xs), 'vals': None, 'sorts': (None,)}, k, len(xs))
    # any value as the key of a 2-tuple
    for n in range(1, 4 if tier == 'quick' else 5):
        for keys in itertools.permutations(KEY_POOL, n):
            for kind in ('tup_val', 'tup_obj') if tier == 'quick' else ('tup_val', 'tup_obj', 'tup_int'):
                k = h('keys', keys, kind)
                conts = U.ALL_CONTAINERS + ('dictitems',)
                xs = run_values(k, n)
                yield finish_({'kind': kind, 'container': conts[(k >> 16) % len(conts)],
                               'xs': xs, 'vals': vals_for(kind, xs, k), 'keys': list(keys),
                               'sorts': (None,)}, k, n)
    # the ordinary kinds through the further containers
    for n in range(0, 4 if tier == 'quick' else 5):
        for xs in itertools.product((0, 1), repeat=n):
            for kind in ('obj', 'map', 'tup_obj', 'str', 'int'):
                for cont in U.MORE_CONTAINERS:
                    for variant in range(1 if tier == 'quick' else 3):
                        k = h('containers', xs, kind, cont, variant)
                        yield finish_({'kind': kind, 'container': cont, 'xs': list(xs),
                                       'vals': vals_for(kind, xs), 'sorts': (None, 'x', 'key', 'item')},
                                      k, n)


# ---------------------------------------------------------------- long sequences
ROMAN_ONLY = ['sequence-number', 'sequence-roman', 'sequence-Roman', 'alias:roman', 'alias:Roman',
              'alias:number']
POSITION_ONLY = ['sequence-index', 'sequence-number', 'sequence-even', 'sequence-odd',
                 'if:sequence-even', 'if:sequence-odd', 'sequence-start', 'sequence-end',
                 'if:sequence-start', 'if:sequence-end', 'sequence-length', 'sequence-letter',
                 'sequence-Letter', 'alias:index', 'alias:even', 'alias:odd', 'alias:start',
                 'alias:end', 'alias:length', 'alias:letter']
ROMAN_TOP = 3999
LONG_KINDS = ('int', 'obj', 'map', 'str', 'tup_obj', 'val', 'tup_int')
ROMAN_EDGES = (4, 9, 14, 19, 40, 49, 90, 99, 140, 400, 449, 490, 499, 900, 949, 990, 999, 1000,
               1444, 1999, 2494, 2999, 3444, 3888, 3990)


def long_opts(kind, k):
    base = {'mapping': U.PART[kind] == 'map', 'no_push_item': (k >> 3) % 4 == 0,
            'prefix': (None, 'p', 'p', 'X1')[(k >> 5) % 4]}
    modes = U.sort_modes(kind, base)
    return dict(base, sort=modes[(k >> 8) % len(modes)] if (k >> 7) & 1 else None,
                reverse=(k >> 11) % 3 == 0)


def long_cases(tier):
    """long sequences, reading the cheap variables only: every position 1..3999 of one sequence
    (roman numerals, numbers, parity, ends), windows around the positions where a numeral changes
    its shape, whole records for some hundred elements"""
    nfull = 16 if tier == 'quick' else 96
    for j in range(nfull):
        kind = LONG_KINDS[j % len(LONG_KINDS)]
        k = h('long', j)
        conts = U.ALL_CONTAINERS + (('dictitems',) if U.is_tuple_kind(kind) else ())
        only = (ROMAN_ONLY, ROMAN_ONLY + POSITION_ONLY, ROMAN_ONLY)[j % 3]
        case = {'family': 'flat', 'kind': kind, 'container': conts[(j // 2) % len(conts)],
                'opts': long_opts(kind, k), 'count': ROMAN_TOP - (0 if j % 4 else (k >> 13) % 50),
                'only': only, 'form': FORMS[(k >> 14) % 3], 'outer': bool((k >> 16) & 1),
                'else': bool((k >> 17) & 1)}
        style = ('dtml', 'comment', 'epfs', 'dtml')[(k >> 18) % 4]
        if style == 'epfs' and case['form'] == 'quoted':
            case['form'] = 'expr'
        case['syntax'] = {'style': style, 'else': 'plain', 'end': 'plain',
                          'entity': bool((k >> 20) & 1), 'rich_else': False}
        yield case
    # windows into a long sequence around the edges
    for e in ROMAN_EDGES:
        for ci, cont in enumerate(('lazy', 'list', 'gen', 'deque', 'listiter')):
            if tier == 'quick' and (e + ci) % 2:
                continue
            for variant in range(1 if tier == 'quick' else 4):
                k = h('window', e, cont, variant)
                kind = LONG_KINDS[k % len(LONG_KINDS)]
                opts = dict(long_opts(kind, k >> 3), sort=None)
                start = max(1, e - 2 - (k >> 20) % 4)
                size = 8 + (k >> 23) % 8
                n = min(ROMAN_TOP, start + size + (k >> 26) % 5)
                batch = ({'start': start, 'size': size} if (k >> 29) & 1
                         else {'start': start, 'end': min(n, start + size - 1)})
                yield {'family': 'batch', 'kind': kind, 'container': cont, 'opts': opts,
                       'count': n, 'only': ROMAN_ONLY + POSITION_ONLY, 'batch': batch,
                       'form': FORMS[(k >> 14) % 3], 'outer': False, 'else': bool((k >> 17) & 1)}
    # whole records on some hundred elements
    for j, n in enumerate((61, 90, 99, 100, 149, 199, 240, 399, 400, 500) if tier == 'quick'
                          else tuple(range(61, 130)) + tuple(range(130, 1000, 29))):
        k = h('mid', n)
        kind = LONG_KINDS[j % len(LONG_KINDS)]
        conts = U.ALL_CONTAINERS
        yield {'family': 'flat', 'kind': kind, 'container': conts[(k >> 5) % len(conts)],
               'opts': long_opts(kind, k >> 9), 'count': n, 'form': FORMS[(k >> 2) % 3],
               'outer': bool((k >> 24) & 1), 'else': False}


def wide_random_case(rng):
    """a seeded case over the wider alphabets: any scalar as an element, every container, block
    tags in the body, now and then some hundred elements"""
    case = rich_random_case(rng, wide=True) if rng.random() < 0.5 else random_case(rng, wide=True)
    kind, opts = case['kind'], case['opts']
    n = len(case['xs'])
    style = (case.get('syntax') or {}).get('style', 'dtml')
    if n and rng.random() < 0.6:
        pushes = U.has_x(kind, opts) and not opts['no_push_item']
        conds = U.conds_for(opts, pushes)
        blocks = []
        for _ in range(rng.choice((1, 1, 2, 3))):
            r = rng.random()
            if r < 0.6:
                spec = ['if', [rng.choice(conds) for _ in range(rng.choice((1, 2, 2, 3, 4)))],
                        rng.random() < 0.5]
            elif r < 0.7:
                spec = ['unless', rng.choice(conds)]
            else:
                tag = rng.choice(sorted(U.BLOCK_VARIANTS))
                spec = [tag, rng.choice(U.BLOCK_VARIANTS[tag])]
            if style in U.block_styles(spec):
                blocks.append([rng.randrange(0, 45), spec])
        case['blocks'] = blocks
    return case


# ---------------------------------------------------------------- element attribute names
NAME_POOL = (
    # names with a dash (ids of children, header-like names, upper-case look-alikes of the
    # sequence variable words)
    'given-name', 'zip-code', 'contact-form', 'a-b-c', 'e-mail2', 'Last-Modified', 'x-y_z',
    'Sequence-item', 'First-x', 'q-', 'item-7', 'my-first', 'zip-length', 'a--b',
    # names that look like sequence variables and are none
    'sequence-foo', 'sequence-var-q7', 'first-q7', 'last-q7', 'next-q7', 'previous-q7',
    'total-q7', 'count-q7', 'mean-q7', 'sequence-step-q7', 'batch-q7', 'sequence-index-q7',
    # identifiers with digits / underscores / upper case, and the plain words the sequence
    # variables end in
    'X1', 'my_attr', 'Title', 'a1b2', 'UPPER', 'camelCase', 'x2', 'q_', 'sequence_item',
    'number', 'item', 'length', 'key', 'index', 'start', 'even', 'value', 'first', 'data', 'items',
    # names that look like an alias of the prefix (classified as such where the prefix is p)
    'p_foo', 'p_q7', 'p_item2',
    # names only an expression can spell
    'caf\xe9', 'a.b', 'a b', 'x:y', '1st', '-lead', 'a+b', 'n/a',
)
NAME_CLASSES = ('dashed', 'seq-like', 'ident', 'sv-suffix', 'prefix-like', 'expr-only')
NAME_KINDS = (('obj', 'dict'), ('obj', 'getattr'), ('obj', 'class'), ('obj', 'prop'),
              ('map', 'dict'), ('map', 'cmap'), ('map', 'udict'),
              ('tup_obj', 'dict'), ('tup_obj', 'getattr'), ('tup_map', 'dict'))
NAME_BATCHES = (None, {'size': 2}, {'start': 2, 'size': 2})
NAME_VALUE_ALPHABETS = (('a', 'b'), (0, 1), ('', 'z', 0), (1.5, 'A-b'), None)


def name_values(k, ni, n):
    """per element values of one name, with runs of equal neighbours (None: all distinct)"""
    alpha = NAME_VALUE_ALPHABETS[h(k, 'alpha', ni) % len(NAME_VALUE_ALPHABETS)]
    if alpha is None:
        return ['v%d.%d' % (ni, j) for j in range(n)]
    return run_values(h(k, 'vals', ni), n, alpha)


def complete_names_case(case, k):
    """presence per element, values, outer values from the hash k (the choices that matter were
    made by the caller)"""
    names, n = case['names'], len(case['xs'])
    pfx = case['opts'].get('prefix')
    has = [0] * n
    for ni, nm in enumerate(names):
        mode = h(k, 'has', ni) % 4          # 0,1: every element; 2: some; 3: alternating
        for j in range(n):
            if (U.name_seqlike(nm, pfx) or mode < 2 or (mode == 2 and (h(k, 'p', ni) >> j) & 1)
                    or (mode == 3 and (j + ni) % 2 == 0)):
                has[j] |= 1 << ni
    case['has'] = has
    case['vals'] = [name_values(k, ni, n) for ni in range(len(names))]
    case['outer'] = bits(k, len(names), 'outer')
    return case


def names_cases(tier):
    """every name of the pool as the focus x how the element exposes it x no_push_item x prefix x
    unbatched / size / start+size; companions, presence, values, reading forms, spelling, sort,
    container and an inner loop over the element's children by hash (thorough: every reading
    form of the focus name)"""
    forms = U.NAME_FORMS
    for fi, focus in enumerate(NAME_POOL):
        for kind, src in NAME_KINDS:
            for npi in (False, True):
                for prefix in (None, 'p'):
                    for bi, batch in enumerate(NAME_BATCHES):
                        for form in (forms if tier != 'quick' else (None,)):
                            k = h('names', focus, kind, src, npi, prefix, bi, form)
                            if form is None:
                                form = forms[(fi + k) % len(forms)]
                            n = 1 + (k >> 3) % (4 if tier == 'quick' else 6)
                            if batch and n < 2:
                                n = 2
                            others = [nm for nm in NAME_POOL if nm != focus]
                            names = [focus, others[(k >> 5) % len(others)],
                                     others[(k >> 11) % len(others)]]
                            if names[1] == names[2]:
                                names.pop()
                            base = {'mapping': U.PART[kind] == 'map', 'no_push_item': npi,
                                    'prefix': prefix}
                            modes = U.sort_modes(kind, base)
                            opts = dict(base, sort=modes[(k >> 17) % len(modes)],
                                        reverse=bool((k >> 19) & 1))
                            conts = containers_for(kind)
                            reads = [[0, form], [1, forms[(k >> 21) % 7]],
                                     [0, forms[(k >> 24) % 7]]]
                            if len(names) > 2:
                                reads.append([2, forms[(k >> 27) % len(forms)]])
                            case = {'family': 'names', 'kind': kind, 'src': src,
                                    'container': conts[(k >> 7) % len(conts)], 'opts': opts,
                                    'form': FORMS[(k >> 9) % 3], 'xs': run_values(k, n),
                                    'names': names, 'reads': reads,
                                    'style': U.Syn.STYLES[(k >> 13) % 3]}
                            if batch:
                                case['batch'] = batch
                            elif not npi and (k >> 15) % 3 == 0:
                                kk = h(k, 'kids')
                                case['kids'] = [[(h(kk, j, b) % (1 << len(names)))
                                                 for b in range((kk >> (2 * j)) % 3)] for j in range(n)]
                                case['iopts'] = {'prefix': (None, 'i')[(kk >> 20) & 1],
                                                 'no_push_item': (kk >> 21) % 4 == 0}
                            yield complete_names_case(case, k)


LETTERS = 'abcdefghijklmnopqrstuvwxyzABCDEFGHIJKLMNOPQRSTUVWXYZ'
ODD_CHARS = '.: +/!\xe9Ж,;@#'


def random_name(rng, prefix):
    def seg(lo=1):
        return rng.choice(LETTERS) + ''.join(rng.choice(LETTERS + '0123456789_')
                                             for _ in range(rng.randint(lo, 5)))
    for _ in range(50):
        cls = rng.choice(('dashed', 'dashed', 'dashed', 'seq', 'ident', 'ident', 'suffix',
                          'alias', 'odd'))
        if cls == 'dashed':
            nm = '-'.join(seg() for _ in range(rng.randint(2, 3)))
            if rng.random() < 0.2:
                nm = nm.replace('-', '--', 1) if rng.random() < 0.5 else nm + '-'
            if rng.random() < 0.3:          # ends in the word a sequence variable ends in
                nm = seg() + '-' + rng.choice(U.SV_SUFFIXES)
        elif cls == 'seq':
            nm = rng.choice(('sequence-', 'sequence-var-', 'first-', 'last-', 'next-', 'previous-',
                             'total-', 'count-', 'min-', 'max-', 'mean-', 'median-', 'variance-',
                             'standard-deviation-', 'sequence-step-', 'sequence-index-',
                             'batch-')) + seg() + str(rng.randint(0, 9))
        elif cls == 'ident':
            nm = seg()
        elif cls == 'suffix':
            nm = rng.choice(U.SV_SUFFIXES)
        elif cls == 'alias':
            nm = (prefix or 'p') + '_' + seg() + str(rng.randint(0, 9))
        else:
            nm = seg(0)
            at = rng.randint(0, len(nm))
            nm = nm[:at] + rng.choice(ODD_CHARS) + nm[at:]
            if rng.random() < 0.3:
                nm = rng.choice('0123456789-') + nm
            nm = nm.strip()
        if len(nm) > 1 and not U.name_conflicts(nm, prefix):
            return nm
    return 'fall-back'


def random_names_case(rng):
    kind, src = rng.choice(NAME_KINDS)
    n = rng.choice((1, 2, 2, 3, 3, 4, 5, 7))
    base = {'mapping': U.PART[kind] == 'map', 'no_push_item': rng.random() < 0.25,
            'prefix': rng.choice(SEED_PREFIXES)}
    opts = dict(base, sort=rng.choice(U.sort_modes(kind, base)), reverse=rng.random() < 0.4)
    names = []
    while len(names) < rng.randint(1, 5):
        nm = random_name(rng, base['prefix']) if rng.random() < 0.8 else rng.choice(NAME_POOL)
        if nm not in names and not U.name_conflicts(nm, base['prefix']):
            names.append(nm)
    reads = [[rng.randrange(len(names)), rng.choice(U.NAME_FORMS)]
             for _ in range(rng.randint(len(names), 2 * len(names) + 1))]
    xs = []
    while len(xs) < n:
        xs += [rng.choice((0, 1, 2))] * rng.choice((1, 1, 2, 3))
    case = {'family': 'names', 'kind': kind, 'src': src,
            'container': rng.choice(containers_for(kind)), 'opts': opts, 'form': rng.choice(FORMS),
            'xs': xs[:n], 'names': names, 'reads': reads, 'style': rng.choice(U.Syn.STYLES)}
    r = rng.random()
    if r < 0.3:
        s = rng.randint(1, n)
        case['batch'] = rng.choice(({'size': rng.randint(1, n + 1)},
                                    {'start': s, 'size': rng.randint(1, n - s + 2)},
                                    {'start': s, 'end': rng.randint(s, n)}))
    elif r < 0.55 and not base['no_push_item']:
        case['kids'] = [[rng.randrange(1 << len(names)) for _ in range(rng.randint(0, 3))]
                        for _ in range(n)]
        case['iopts'] = {'prefix': rng.choice((None, 'i', base['prefix'])),
                         'no_push_item': rng.random() < 0.25}
    return complete_names_case(case, rng.randrange(1 << 30))


# ---------------------------------------------------------------- known-finding classifier
def classify(case, problems):
    """mechanism key of a known finding, or None (no genuine C10 defect is known so far)"""
    return None


# ---------------------------------------------------------------- shard
ANCHORS = (('InClass.renderwob', 'DT_In', 'InClass.renderwob'),
           ('InClass.renderwb', 'DT_In', 'InClass.renderwb'),
           ('InClass.sort_sequence', 'DT_In', 'InClass.sort_sequence'),
           ('InClass.reverse_sequence', 'DT_In', 'InClass.reverse_sequence'),
           ('sequence_variables.__getitem__', 'DT_InSV', 'sequence_variables.__getitem__'),
           ('sequence_variables.__setitem__', 'DT_InSV', 'sequence_variables.__setitem__'),
           ('sequence_variables.first', 'DT_InSV', 'sequence_variables.first'),
           ('sequence_variables.last', 'DT_InSV', 'sequence_variables.last'),
           ('sequence_variables.value', 'DT_InSV', 'sequence_variables.value'),
           ('add_with_prefix', 'DT_Util', 'add_with_prefix'),
           ('Add_with_prefix.__setitem__', 'DT_Util', 'Add_with_prefix.__setitem__'),
           ('sequence_ensure_subscription', 'DT_Util', 'sequence_ensure_subscription'),
           ('SequenceFromIter.__getitem__', 'DT_Util', 'SequenceFromIter.__getitem__'))


def anchors():
    """engine internals watched as a diagnosis of where the workload went; a name that a
    refactoring removed is skipped (the verdict rests on the output comparisons)"""
    import importlib
    out = []
    for label, mod, path in ANCHORS:
        try:
            obj = importlib.import_module('DocumentTemplate.' + mod)
            for part in path.split('.'):
                obj = getattr(obj, part)
        except (ImportError, AttributeError):
            continue
        out.append((label, obj))
    return out


def run(ctx, spec):
    from DocumentTemplate.DT_HTML import HTML
    from vlib.reach import Reach
    reach = Reach()
    for label, fn in anchors():
        reach.watch(label, fn)
    reach.start()
    hz = U.Harness(ctx, HTML)
    T = hz.tally
    sampled = 0
    if U.roman_selfcheck(ROMAN_TOP):
        T.c('model self-check: the two roman writers agree on 1..3999')
    else:
        ctx.inconclusive('the two roman numeral writers of the model disagree')
    for fam, gen in (('grid', grid_cases), ('batch', batch_cases), ('nested', nested_cases),
                     ('gated', gated_cases), ('syntax', syntax_cases), ('names', names_cases),
                     ('blocks', block_cases), ('values', values_cases), ('long', long_cases)):
        for i, case in enumerate(gen(ctx.tier)):
            if i % ctx.nshards != ctx.shard:
                continue
            T.c('cases:' + fam)
            hz.evaluate(case, classify)
    nrand = (4000 if ctx.tier == 'quick' else 60000) // ctx.nshards
    for _ in range(nrand):
        T.c('cases:seeded')
        hz.evaluate(random_case(ctx.rng), classify)
    for _ in range((2000 if ctx.tier == 'quick' else 30000) // ctx.nshards):
        T.c('cases:seeded rich')
        hz.evaluate(rich_random_case(ctx.rng), classify)
    for _ in range((2400 if ctx.tier == 'quick' else 36000) // ctx.nshards):
        T.c('cases:seeded names')
        hz.evaluate(random_names_case(ctx.rng), classify)
    for _ in range((800 if ctx.tier == 'quick' else 8000) // ctx.nshards):
        T.c('cases:seeded wide')
        hz.evaluate(wide_random_case(ctx.rng), classify)
    if ctx.shard < 9:
        for case in ({'family': 'flat', 'kind': 'tup_obj', 'container': 'gen', 'form': 'name',
                      'opts': {'mapping': False, 'no_push_item': False, 'prefix': 'p', 'sort': 'x',
                               'reverse': True}, 'xs': [1, 0, 1], 'vals': None, 'outer': False,
                      'else': True},
                     {'family': 'batch', 'kind': 'int', 'container': 'lazy', 'form': 'expr',
                      'opts': {'mapping': False, 'no_push_item': False, 'prefix': None,
                               'sort': 'item', 'reverse': False}, 'xs': [2, 0, 1, 1],
                      'vals': [2, 0, 1, 1], 'batch': {'start': 2, 'size': 2}, 'outer': True,
                      'else': False},
                     {'family': 'nested', 'kids': [2, 0, 1], 'oprefix': 'o', 'iprefix': None,
                      'inner': 'attr', 'container': 'list', 'gkids': 0},
                     {'family': 'flat', 'kind': 'obj', 'container': 'lazy', 'form': 'name',
                      'opts': {'mapping': False, 'no_push_item': False, 'prefix': None,
                               'sort': None, 'reverse': False}, 'xs': [0, 0, 1, 1], 'vals': None,
                      'outer': False, 'else': False, 'ys': [0, 1, 1, 1],
                      'gate': {'by': 'index', 'gran': 'record', 'rows': [1, 1, 0, 1]}},
                     {'family': 'flat', 'kind': 'int', 'container': 'tuple', 'form': 'name',
                      'opts': {'mapping': False, 'no_push_item': False, 'prefix': 'p',
                               'sort': None, 'reverse': False}, 'xs': [], 'vals': [],
                      'outer': False, 'else': True,
                      'syntax': {'style': 'epfs', 'else': 'named', 'end': 'named',
                                 'entity': False, 'rich_else': True}},
                     next(names_cases('quick')),
                     {'family': 'flat', 'kind': 'obj', 'container': 'gen', 'form': 'name',
                      'opts': {'mapping': False, 'no_push_item': False, 'prefix': 'p',
                               'sort': None, 'reverse': False}, 'xs': [0, 1], 'vals': None,
                      'outer': False, 'else': False,
                      'blocks': [[2, ['if', ['e0', 'x'], True]], [20, ['try', 'raise']]]},
                     {'family': 'flat', 'kind': 'val', 'container': 'dictvalues', 'form': 'name',
                      'opts': {'mapping': False, 'no_push_item': False, 'prefix': None,
                               'sort': None, 'reverse': False}, 'xs': [0, 0, 0],
                      'vals': [None, '', 0], 'outer': False, 'else': True},
                     {'family': 'batch', 'kind': 'int', 'container': 'lazy', 'form': 'name',
                      'opts': {'mapping': False, 'no_push_item': False, 'prefix': 'p',
                               'sort': None, 'reverse': False}, 'count': 3999,
                      'only': ROMAN_ONLY, 'batch': {'start': 3986, 'size': 6}, 'outer': False,
                      'else': False},
                     )[ctx.shard:ctx.shard + 1]:
            ctx.sample(sample_of(hz, case))
            sampled += 1
    T.flush(ctx)
    reach.stop()
    reach.report(ctx)


def sample_of(hz, case):
    """render one case again, outside the verdict, to store inputs and observed output"""
    if case['family'] == 'nested':
        src, outer, glob = U.nested_source(case)
        out = hz.template(src)(outer=U.make_container(case['container'], outer), gk=glob)
        return {'case': case, 'source': U.show(src, 900),
                'sequence': repr([(o, o.kids) for o in outer])[:300], 'output': U.show(out, 1200)}
    if case['family'] == 'names':
        src, _ = U.names_source(case)
        elements, _ = U.names_elements(case)
        out = hz.template(src, case.get('style', 'dtml'))(
            None, U.names_outer(case), seq=U.make_container(case['container'], elements))
        return {'case': case, 'source': U.show(src, 900), 'sequence': repr(elements)[:300],
                'outer namespace': U.names_outer(case), 'output': U.show(out, 1200)}
    given, case = case, U.expand_case(case)
    src, fields = U.flat_source(case)
    extras, kwargs = U.case_extras(case, [lab for lab, _ in fields])
    elements, _ = U.build_elements(case['kind'], case['xs'], case.get('vals'), extras,
                                   case.get('keys'))
    ns = U.outer_namespace(case['opts']) if case.get('outer') else {}
    style = (case.get('syntax') or {}).get('style', 'dtml')
    out = hz.template(src, style)(None, ns, seq=U.make_container(case['container'], elements),
                                  **kwargs)
    return {'case': given, 'source': U.show(src, 900), 'sequence': repr(elements)[:300],
            'output': U.show(out, 1200)}


REQUIRED_VARIABLES = (['sequence-' + nm for nm in U.FIXED] +
                      ['if:sequence-' + nm for nm in U.TRUTH] +
                      ['sequence-var-x', 'first-x', 'last-x', 'if:first-x', 'if:last-x',
                       'name:x', 'name:id'] +
                      ['alias:' + nm for nm in U.FIXED])


def finish(agg):
    c = agg['counters']
    t = agg['tables']
    inc = []
    seen = t.get('variables compared', {})
    for v in REQUIRED_VARIABLES:
        if not seen.get(v):
            inc.append('variable never read and compared: ' + v)
    for n in ('0', '1'):
        if not t.get('lengths', {}).get(n):
            inc.append('no case of length ' + n)
    for k in ('records compared', 'after-end probes compared', 'empty sequences',
              'nested records compared', 'cases:grid', 'cases:batch', 'cases:seeded',
              'cases:gated', 'cases:syntax', 'cases:seeded rich', 'gated cases compared',
              'gated fields read', 'gated fields skipped',
              'first-x read on an element whose predecessor did not read it',
              'last-x read on an element whose successor does not read it',
              'cases with a second run attribute y', 'cases with a permuted reading order'):
        if not c.get(k):
            inc.append('monitor never evaluated: ' + k)
    for v in ('sequence-var-y', 'first-y', 'last-y', 'if:first-y', 'if:last-y'):
        if not seen.get(v):
            inc.append('variable never read and compared: ' + v)
    for g in ('index', 'attr'):
        for gran in ('record', 'group', 'field'):
            if not t.get('gates', {}).get('%s/%s' % (g, gran)):
                inc.append('partial reads never rendered: gate by %s, one per %s' % (g, gran))
    for style in U.Syn.STYLES:
        if not t.get('syntax styles', {}).get(style):
            inc.append('tag spelling never rendered: ' + style)
        for els in ('plain', 'named'):
            for b in ('plain', 'batch'):
                key = '%s/else %s/%s' % (style, els, b)
                if not t.get('else decided on an empty sequence', {}).get(key):
                    inc.append('else body never decided on an empty sequence: ' + key)
    # element attribute names: every class of name seen on the element through every way an
    # element can expose it, every reading form, every branch of the precedence
    for k in ('cases:names', 'cases:seeded names', 'name records compared', 'name reads compared',
              'name after-end probes compared'):
        if not c.get(k):
            inc.append('monitor never evaluated: ' + k)
    seen_on = t.get('name classes seen on the element', {})
    through = t.get('name classes seen through', {})
    for cls in NAME_CLASSES:
        for shape in ('object', 'mapping', 'pair'):
            if not seen_on.get('%s/%s' % (cls, shape)):
                inc.append('element attribute names never read on a pushed element: %s/%s' % (cls, shape))
        for part, srcs in sorted(U.NAME_SOURCES.items()):
            for src in srcs:
                if not through.get('%s/%s:%s' % (cls, part, src)):
                    inc.append('element attribute names never read: %s through %s:%s' % (cls, part, src))
    for form in U.NAME_FORMS:
        if not t.get('name reads by form', {}).get(form):
            inc.append('element attribute never read in the form: ' + form)
    for where in ('element value', 'element value (shadows an outer value)',
                  'outer value (element lacks it)', 'nothing (element lacks it)',
                  'outer value (no_push_item)', 'nothing (no_push_item)', 'inner element value',
                  'inner element value (shadows the outer element)',
                  'outer element value in the inner body',
                  'outer element value in the inner body (inner no_push_item)'):
        if not t.get('name visibility', {}).get(where):
            inc.append('precedence branch never compared: ' + where)
    ncodes = list(t.get('name cases: options', {}))
    for what, test in (('batched', lambda cd: '/batch' in cd), ('nested', lambda cd: '/nested' in cd),
                       ('no_push_item', lambda cd: cd[1] == 'N'), ('prefix', lambda cd: cd[2] == 'P'),
                       ('mapping', lambda cd: cd[0] == 'M'), ('sort', lambda cd: cd[3] != '-'),
                       ('no_push_item batched', lambda cd: cd[1] == 'N' and '/batch' in cd)):
        if not any(test(cd) for cd in ncodes):
            inc.append('names family never rendered: ' + what)
    for style in U.Syn.STYLES:
        if not t.get('name cases: style', {}).get(style):
            inc.append('names family never rendered in the spelling: ' + style)
    for var_ in ('sequence-var', 'first', 'last'):
        for cls in ('ident', 'sv-suffix'):
            if not any(k.startswith('%s/%s/' % (var_, cls))
                       for k in t.get('named attribute variables', {})):
                inc.append('%s-nnn never compared for a name of class %s' % (var_, cls))
    # block tags between the reads, arbitrary scalars as elements / keys, further containers,
    # long sequences
    for k in ('cases:blocks', 'cases:values', 'cases:long', 'cases:seeded wide',
              'cases with block tags between the reads', 'reads after a block tag in the body',
              'cases with arbitrary values as the keys of 2-tuples',
              'cases reading a part of the variables only',
              'model self-check: the two roman writers agree on 1..3999',
              'sequences with every numeral 1..3999 compared'):
        if not c.get(k):
            inc.append('monitor never evaluated: ' + k)
    bc = t.get('blocks compared', {})
    for code in (['unless expr', 'unless name', 'call', 'comment'] +
                 ['%s %s' % (tag, v) for tag, vs in sorted(U.BLOCK_VARIANTS.items()) for v in vs]):
        if not bc.get(code):
            inc.append('block tag never rendered between the reads: ' + code)
    chains = t.get('if chains: kinds of the conditions and branch taken', {})
    for ln in (1, 2, 3):
        for types in itertools.product(('expr', 'name'), repeat=ln):
            for els in ('', '+else'):
                code = '>'.join(types) + els
                branches = ['abc'[j] for j in range(ln)] + ['z' if els else '-']
                for b in (branches if ln < 3 else branches[:1]):
                    if not chains.get('%s:%s' % (code, b)):
                        inc.append('if chain never compared: %s taking branch %s' % (code, b))
    sc = t.get('scalar elements compared', {})
    for cont in U.ALL_CONTAINERS + ('dictitems',):
        for v in (None, 0, '', False):
            for where in ('first', 'later'):
                if not sc.get('%s/%r/%s' % (cont, v, where)):
                    inc.append('false value never compared as an element: %r %s in %s'
                               % (v, where, cont))
    hundreds = t.get('roman numerals compared beyond 60, by hundred', {})
    for hnd in range(40):
        if hundreds.get(str(hnd), 0) < 39:
            inc.append('roman numerals of %d..%d not all compared' % (max(hnd * 100, 61), hnd * 100 + 99))
    # what the engine anchors used to vouch for, demanded at the output level instead
    codes = list(t.get('option subsets', {}))
    for pos, letters, what in ((0, 'M', 'mapping'), (1, 'N', 'no_push_item'), (2, 'P', 'prefix'),
                               (3, 'XE', 'sort=x'), (3, 'I', 'sort=sequence-item'),
                               (3, 'K', 'valueless sort'), (4, 'RT', 'reverse')):
        if not any(code[pos] in letters for code in codes):
            inc.append('option never rendered and compared: ' + what)
    for shape in ('size', 'size+start', 'end+start'):
        if not t.get('batch shapes', {}).get(shape):
            inc.append('batch shape never rendered: ' + shape)
    # engine internals: diagnosis only (a renamed helper must not mask an evaluated oracle)
    unreached = [label for label, _, _ in ANCHORS if not c.get('reach:' + label)]
    kc = t.get('kind x container', {})
    kinds = ('obj', 'map', 'tup_obj', 'str', 'int', 'val')
    for kind in kinds:
        for cont in U.ALL_CONTAINERS:
            if not kc.get('%s/%s' % (kind, cont)):
                inc.append('kind/container never rendered: %s/%s' % (kind, cont))
    tier = agg['tier']
    return {'inconclusive': inc,
            'coverage': {'exhaustive': True,
                         'engine anchors not entered (diagnosis only)': unreached,
                         'grid': {'length': [0, 4 if tier == 'quick' else 6],
                                  'x alphabet': '{0,1}' if tier == 'quick' else '{0,1,2} (length 6: {0,1})',
                                  'x patterns': sum(1 for _ in patterns(tier)),
                                  'option subsets': len(t.get('option subsets', {}))},
                         'blocks family': {'conditions': len(U.CONDS),
                                           'block codes compared': len(t.get('blocks compared', {})),
                                           'if chains x branch': len(chains)},
                         'values family': {'value alphabet': [repr(v) for v in (
                                               FALSE_ALPHABET if tier == 'quick' else U.VALUE_POOL)],
                                           'containers': list(U.ALL_CONTAINERS) + ['dictitems']},
                         'long family': {'top': ROMAN_TOP, 'edges': list(ROMAN_EDGES),
                                         'sequences with every numeral 1..3999 compared':
                                             c.get('sequences with every numeral 1..3999 compared', 0)},
                         'names family': {'name pool': len(NAME_POOL), 'ways to expose a name': len(NAME_KINDS),
                                          'reading forms': len(U.NAME_FORMS),
                                          'classes x shapes seen on a pushed element':
                                              len(t.get('name classes seen on the element', {}))},
                         'explanation': 'exhaustive over the stated grid (kinds x containers x '
                                        'option subsets x x-patterns); batch, nested and seeded '
                                        'families are extra'}}


def replay(ctx, rep):
    from DocumentTemplate.DT_HTML import HTML
    hz = U.Harness(ctx, HTML)
    hz.evaluate(rep['case'], classify)
    hz.tally.flush(ctx)
