"""C04 — tainted values are always HTML-escaped when inserted, once not twice.

Monitor: the real engine renders dtml-var / entity insertions of ``AccessControl.tainted.
TaintedString`` values while wrappers on every modifier and special format of ``DT_Var``, on
``Var.render``, on ``DT_Var.ustr`` and on ``TaintedString.quoted/__untaint__`` record a per-stage
taint trace ``(stage, marked in?, marked out?, raw '<' in/out)``.
Oracle (from the statement, not from the code): templates and option strings contain no '<',
'&' or 'amp' and the value contains '<' but no '&'; hence, after deleting the engine's own
``<br />`` where newline_to_br / fmt=multi-line is requested, any '<' in the output is a leak
and, where html_quote is requested, any '&amp;' is a second escape.  Rendering may raise instead.
The trace is used only to name the stage (mechanism key) of a report.
"""
from vlib import c04_util as U

ID = 'C04'
LEVEL = 'exploration'
RULE = ('family A: every one of the 4096 subsets of the 12 documented modifiers x syntaxes '
        '(<dtml-var>, <!--#var-->, %(..)s, &dtml.m1.m2-x;) x position of "<" in a 6-letter value '
        'and in a value with an ingredient for every modifier (case, "_", digits, blank, %3C, +, '
        'quote, newline); B: every special_formats key, every public zero-argument str method and '
        'C-style fmt= strings x modifier subsets; C: size 0..8 x etc; D: null/missing/url; '
        'E: expressions over x; F: where the value comes from (kw, mapping, client attribute, '
        'callable, taintWrapper mapping, sequence-item, let alias, and stored on a template: constructor keyword / '
        'constructor mapping / var() variable, also through copy.copy of that template, a new object given its state, '
        'and a copy made after a render); G: %(x)<C-format> suffixes. '
        'A case is distinct by (family, syntax, written modifier list, value, surrounding text, '
        'expression, source kind, guard, fmt, C-format, size, etc, null, missing, url) and '
        'non-trivial when the engine produced an output for a value that is marked when it '
        'reaches the insertion (raised renders and unmarked expression results are trivial)')
ASSUMPTIONS = [
    'a second escape is a violation only where html_quote is requested (html_quote option, '
    '&dtml-x; entity, fmt=html-quote); elsewhere "&amp;" is counted, not judged',
    '"direct result of an expression" = the expression evaluates to a marked value under '
    'AccessControl semantics; x.casefold() or a slice without "<" is unmarked and not judged',
    'the null branch of the fmt stage needs a false value; a marked value contains "<", so that '
    'branch is outside the quantifier and unreachable',
    'escaped-form (positive) demand only for modifier sets that by documentation keep every '
    'character (no url_*, no fmt, no size): html.unescape(output) has as many "<" as the value',
]
SHARD_TIMEOUT = {'quick': 600, 'thorough': 3000}
NSHARDS = {'quick': 16, 'thorough': 32}

CSTYLE = ['%s', '%10s', '%-9s', '%.3s', '%5.2s', 'v=%s', '%r', '%a', '%8r', '%d', '%f', '',
          # the template author's own markup around the value (the only template text with "<": judged with the
          # literal tags of the format removed from the output, see c04_util.judge)
          '<q>%s</q>', 'p<q/>%s']
CFMT_QUICK = ['s', '10s', '.3s', '5.2s', '9.9s', 'r', 'a', '12r', 'd', 'f', 'c', 'x', 'i', 'e', 'g']
ETCS = [None, '', '..', 'ETC']
EXPRS = list(U.EXPR_MARKED)
MULTI = '<ab<c_D<'          # several marks: first, middle, last character
NR = len(U.RICH) + 1
CTXS = ['kw', 'mapping', 'client', 'callable', 'taintwrapper', 'in', 'let'] + list(U.STORED_CTXS)


def plan(tier, seed):
    return [{} for _ in range(NSHARDS[tier])]


def popcount(m):
    return bin(m).count('1')


def small_masks():
    return [m for m in range(U.NMASK) if popcount(m) <= 2] + [U.NMASK - 1]


def written(mask):
    """Written order of the subset: canonical order rotated by the mask (deterministic)."""
    names = U.mods_of(mask)
    if names:
        k = mask % len(names)
        names = names[k:] + names[:k]
    return names


def method_formats():
    """Public str methods callable without arguments (the method formats a str-like supports)."""
    out = []
    for n in dir(str):
        if n.startswith('_'):
            continue
        try:
            getattr('aB<c', n)()
        except Exception:
            continue
        out.append(n)
    return out


class Work:
    def __init__(self, ctx, mon):
        self.ctx = ctx
        self.mon = mon
        self.cache = {}

    def case(self, **fields):
        return U.evaluate(self.ctx, self.mon, fields, self.cache)

    def own(self, i):
        return i % self.ctx.nshards == self.ctx.shard


def values_for(tier, fam, mask=0):
    plain = list(range(len(U.PLAIN) + 1))
    rich = list(range(len(U.RICH) + 1))
    if tier == 'thorough':
        if fam == 'A':
            return [U.plain_value(p) for p in plain] + [U.rich_value(b) for b in rich] + [MULTI]
        return [U.plain_value(mask % 7), U.rich_value(mask % NR), U.rich_value((mask + 5) % NR)]
    if fam == 'A':
        return [U.plain_value(0), U.plain_value(3 + mask % 4), U.rich_value(mask % NR),
                U.rich_value((mask + 4) % NR), MULTI]
    return [U.plain_value(mask % 7), U.rich_value((mask // 7) % NR)]


def family_a(w, tier):
    ctx = w.ctx
    own_seen = 0
    for mask in range(U.NMASK):
        if not w.own(mask):
            continue
        w.cache.clear()
        w.mon.masks.discard(mask)
        mods = written(mask)
        vals = values_for(tier, 'A', mask)
        for i, v in enumerate(vals):
            for syntax in ('dtml', 'epfs', 'comment', 'entity'):
                if syntax == 'entity' and not mods:
                    continue
                if tier == 'quick' and syntax in ('comment', 'entity') and i != (mask % len(vals)):
                    continue
                wraps = (False, True) if (tier == 'thorough' and syntax == 'dtml') else ((mask + i) % 2 == 1,)
                for wrap in wraps:
                    w.case(fam='A', syntax=syntax, mods=mods, value=v, wrap=wrap)
        # the two subsets {} and {html_quote} compile to the simple form; an inert null= forces
        # the full Var.render path for every subset
        w.case(fam='A', syntax='dtml', mods=mods, value=vals[0], wrap=bool(mask & 1), null='N')
        w.case(fam='A', syntax='epfs', mods=mods, value=vals[-1], wrap=not (mask & 1), missing='M')
        if mask in w.mon.masks:
            own_seen += 1
    ctx.count('A:distinct modifier subsets that reached Var.render', own_seen)


def masks_for(w, tier, n_random):
    if tier == 'thorough':
        return [m for m in range(U.NMASK) if w.own(m)]
    sm = small_masks()
    out = [m for i, m in enumerate(sm) if w.own(i)]
    out += [w.ctx.rng.randrange(U.NMASK) for _ in range(n_random)]
    return out


def family_b(w, tier, specials, methods):
    fmts = [('special', f) for f in specials] + [('method', f) for f in methods] + \
           [('cstyle', f) for f in CSTYLE]
    for mask in masks_for(w, tier, 4):
        mods = written(mask)
        vals = values_for(tier, 'B', mask)
        w.cache.clear()
        for kind, f in fmts:
            w.ctx.table('fmt kinds rendered', kind)
            for j, v in enumerate(vals):
                for syntax in ('dtml', 'epfs'):
                    w.case(fam='B', syntax=syntax, mods=mods, value=v, fmt=f,
                           wrap=(mask + j) % 2 == 0)
            if kind == 'method':
                w.case(fam='B', syntax='dtml', mods=mods, value=vals[0], fmt=f, guard=True)
            if f in ('multi-line', 'html-quote', '%s', 'lower'):
                w.case(fam='B', syntax='dtml', mods=mods, value=vals[0], fmt=f, null='N',
                       missing='M')


def family_c(w, tier):
    sm = [0] + [1 << i for i in range(len(U.MODS))] + [U.NMASK - 1]
    if tier == 'thorough':
        sm = small_masks()
    fmts = [None, '%s', 'lower', 'multi-line'] + (['sql-quote', '%10s'] if tier == 'thorough' else [])
    i = 0
    for mask in sm:
        mods = written(mask)
        for size in range(0, 9):
            for etc in ETCS:
                for f in fmts:
                    i += 1
                    if not w.own(i):
                        continue
                    for pos in range(7):
                        if tier == 'quick' and (pos + i) % 3:
                            continue
                        w.case(fam='C', syntax='epfs' if (i // w.ctx.nshards) % 3 == 0 else 'dtml',
                               mods=mods, value=U.plain_value(pos), size=size, etc=etc, fmt=f,
                               wrap=bool(pos % 2))
                    w.case(fam='C', syntax='dtml', mods=mods, value=U.rich_value(size % NR), size=size + 4,
                           etc=etc, fmt=f)
        if len(w.cache) > 2000:
            w.cache.clear()


def family_d(w, tier):
    opts = [dict(null='N'), dict(missing='M'), dict(null='', missing='gone'), dict(url=True),
            dict(null='N', size=4), dict(missing='M', fmt='upper')]
    for mask in masks_for(w, 'quick', 2):         # small subsets + seeded ones in both tiers
        mods = written(mask)
        for o in opts:
            for syntax in ('dtml', 'epfs', 'comment'):
                for v in values_for('quick', 'D', mask):
                    w.case(fam='D', syntax=syntax, mods=mods, value=v, wrap=bool(mask & 2), **o)


def family_e(w, tier):
    for mask in masks_for(w, tier, 2):
        mods = written(mask)
        w.cache.clear()
        for e in EXPRS:
            for syntax in ('dtml', 'epfs'):
                for v in values_for('quick', 'E', mask) + [U.plain_value(0)]:
                    w.case(fam='E', syntax=syntax, mods=mods, value=v, via=e, wrap=bool(mask & 4))
            w.case(fam='E', syntax='dtml', mods=mods, value=U.plain_value(3), via=e, guard=True)
            w.case(fam='E', syntax='dtml', mods=mods, value=U.plain_value(2), via=e, size=3)


def family_f(w, tier):
    for mask in masks_for(w, tier, 2):
        mods = written(mask)
        w.cache.clear()
        for kind in CTXS:
            for syntax in ('dtml', 'epfs', 'entity'):
                if syntax == 'entity' and not mods:
                    continue
                for v in values_for('quick', 'F', mask):
                    w.case(fam='F', syntax=syntax, mods=mods, value=v, ctx=kind, wrap=bool(mask & 8))
            w.case(fam='F', syntax='dtml', mods=mods, value=U.plain_value(1), ctx=kind, fmt='%s')
            w.case(fam='F', syntax='dtml', mods=mods, value=U.plain_value(5), ctx=kind, null='N')


def family_g(w, tier):
    cf = list(CFMT_QUICK)
    if tier == 'thorough':
        cf += [ch for ch in 'abcdefghijklmnopqrstuvwxyz' if ch not in cf] + ['3r', '.2r', '20a']
    for mask in masks_for(w, tier, 2):
        mods = written(mask)
        w.cache.clear()
        for c in cf:
            for v in values_for('quick', 'G', mask):
                w.case(fam='G', syntax='epfs', mods=mods, value=v, cfmt=c, wrap=bool(mask & 16))
            w.case(fam='G', syntax='epfs', mods=mods, value=U.plain_value(4), cfmt=c, fmt='upper')
            w.case(fam='G', syntax='epfs', mods=mods, value=U.plain_value(4), cfmt=c, fmt='multi-line')
            w.case(fam='G', syntax='epfs', mods=mods, value=U.plain_value(2), cfmt=c, size=3)
            w.case(fam='G', syntax='epfs', mods=mods, value=U.plain_value(2), cfmt=c, via='x[1:]')


SAMPLES = (dict(syntax='dtml', mods=['upper', 'spacify'], value='a_b<cd', wrap=True),
           dict(syntax='entity', mods=['html_quote'], value='<abcdef'),
           dict(syntax='epfs', mods=['sql_quote'], value="ab<c'd", cfmt='10s'),
           dict(syntax='dtml', mods=['newline_to_br', 'html_quote'], value='ab<\ncd'),
           dict(syntax='dtml', mods=[], value='abc<def', size=4, etc='..'),
           dict(syntax='dtml', mods=['lower'], value='aBc<dEf', via="x[2:]+'Q'", fmt='%9s'))


def samples(w):
    """One real case (inputs and observed output) per low-numbered shard (the driver keeps one
    sample per shard)."""
    from AccessControl.tainted import TaintedString
    if w.ctx.shard >= len(SAMPLES):
        return
    c = U.norm(dict(SAMPLES[w.ctx.shard], fam='sample'))
    src = U.build_source(c)
    try:
        out = U.call_template(U.template_class(c)(src), c, TaintedString)
    except Exception as e:
        out = 'raised %s' % type(e).__name__
    w.ctx.sample({'source': src, 'tainted value': c['value'], 'output': out})


def run(ctx, spec):
    from vlib.reach import Reach
    mon = U.Monitor(ctx)
    mon.install()
    reach = Reach()
    mon.watch(reach)
    reach.start()
    from DocumentTemplate import DT_Util
    specials = sorted(k[4:] for k in mon.real if k.startswith('fmt:'))
    methods = method_formats()
    ctx.count('setup:special formats enumerated', len(specials) if ctx.shard == 0 else 0)
    ctx.count('setup:method formats enumerated', len(methods) if ctx.shard == 0 else 0)
    if ctx.shard == 0:
        # wiring observation (not part of the statement): which object serves `_.string`
        ctx.table('observed:type of TemplateDict.string', type(DT_Util.TemplateDict.string).__name__)
        for m in methods:
            ctx.table('method formats', '%s (%s)' % (m, 'served from bare str' if
                                                    U.passthrough_method(mon.T, m) else 'defined by TaintedString'))
    w = Work(ctx, mon)
    tier = ctx.tier
    family_a(w, tier)
    family_b(w, tier, specials, methods)
    family_c(w, tier)
    family_d(w, tier)
    family_e(w, tier)
    family_f(w, tier)
    family_g(w, tier)
    samples(w)
    reach.stop()
    reach.report(ctx)


def finish(agg):
    c = agg['counters']
    inc = []
    n = c.get('A:distinct modifier subsets that reached Var.render', 0)
    if n < U.NMASK:
        inc.append('only %d of %d modifier subsets reached Var.render' % (n, U.NMASK))
    for k in ('monitor:final val.quoted() evaluations', 'monitor:__untaint__ evaluations (simple form)',
              'monitor:Var.render evaluations', 'monitor:newline_to_br quoted() evaluations',
              'oracle:escaped-form evaluations', 'oracle:outputs judged'):
        if not c.get(k):
            inc.append('deciding monitor never evaluated: ' + k)
    for m in U.MODS:
        if m in ('html_quote', 'newline_to_br'):
            # html_quote is by design skipped for marked values (its reach is reported only);
            # newline_to_br is decided by its own quoted() evaluations (demanded above)
            continue
        if not c.get('stage saw tainted input: mod:' + m):
            inc.append('modifier stage never saw a marked value: ' + m)
    for r in ('Var.render', 'render_blocks_', 'thousands_commas', 'url_unquote', 'url_unquote_plus',
              'newline_to_br', 'sql_quote', 'lower', 'upper', 'capitalize', 'spacify',
              'StringFunctionWrapper.__call__'):        # the anchors.mechanism list of the property
        if not c.get('reach:' + r):
            inc.append('anchor never entered: ' + r)
    for fam in 'ABCDEFG':
        cases = c.get('family %s: cases' % fam, 0)
        judged = c.get('family %s: outputs judged' % fam, 0)
        if not cases:
            inc.append('family %s did not run' % fam)
        elif fam == 'A' and judged * 10 < cases * 9:
            inc.append('family A: only %d of %d renders produced an output to judge' % (judged, cases))
        elif judged * 5 < cases:
            inc.append('family %s: only %d of %d renders produced an output to judge' % (fam, judged, cases))
    strobj = sorted(agg.get('tables', {}).get('observed:type of TemplateDict.string', {}))
    return {'inconclusive': inc,
            'coverage': {'exhaustive': True,
                         'observation_string_module': 'TemplateDict.string is served by %s (DT_Util.'
                         'StringModuleWrapper is overwritten when DocumentTemplate.security copies '
                         'safe_builtins onto TemplateDict); the taint-aware wrapper is exercised '
                         'through a StringModuleWrapper passed in the namespace' % strobj,
                         'modifier_subsets': U.NMASK,
                         'explanation': 'family A is exhaustive over the 4096 modifier subsets; in the '
                                        'thorough tier families B, E, F, G are too; positions, formats '
                                        'and sizes are the finite lists in the module; quick samples '
                                        'subsets of size <= 2, the full set and seeded random ones for '
                                        'B..G'}}


def replay(ctx, rep):
    mon = U.Monitor(ctx)
    mon.install()
    st = U.evaluate(ctx, mon, rep['case'], None)
    ctx.count('replay status: ' + st)
