"""C12 — batching a lazy sequence pulls only the window plus one look-ahead batch.

Monitor: the sequence handed to ``dtml-in`` is a counting iterator / generator / re-iterable
lazy collection / lazy ``__getitem__`` sequence that logs every pull (index, order, and the
``opt`` call during which it happened), every ``iter()`` and ``len()``; unbounded sources carry
a logical pull budget.  Oracle: from the window the rendering *showed* and the parameters,
``pulls <= window end + size + orphan``; the log must read 0,1,2,...; the k-th shown element
must be the k-th produced one; unbatched renders produce exactly 0..n-1.

The lazy value reaches the tag by every documented route (keyword, client attribute - plain, computed by
``__getattr__``, path of clients, zero-argument method -, mapping, ``dtml-with`` object / mapping / only,
``dtml-let``, item of an enclosing loop, sub-template rendered in the caller's namespace, values given when
the template was created), and pages put several tags and passive lookups of the same name into one render:
the oracle is the same statement applied per tag (see ``page``).
"""
import itertools

from checks import c11
from vlib.c12_util import ATTRIBUTE_ROUTES
from vlib.c12_util import CREATED
from vlib.c12_util import KINDS
from vlib.c12_util import MORE_KINDS
from vlib.c12_util import OptSites
from vlib.c12_util import PullBudgetExceeded
from vlib.c12_util import PullLog
from vlib.c12_util import ROUTE_WRAP
from vlib.c12_util import ROUTES
from vlib.c12_util import deliver
from vlib.c12_util import make

ID = 'C12'
LEVEL = 'exploration'
RULE = ('exhaustive grid (source length incl. unbounded, start, end, size, orphan, overlap) = '
        'C11\'s grid with one more overlap value, every point rendered over a counting iterator '
        'and over one more lazy container kind (generator / lazy __getitem__ sequence / re-iterable / sized iterable without __getitem__) '
        'with rotating body variants (full previous/next variables, minimal, previous-batches, false reverse_expr, '
        'expr= form) and previous/next attribute modes; literal-attribute sample; seeded larger '
        'tuples (length <= 200 or unbounded); unbatched renders of every kind. A batched case is '
        'non-trivial when the source could produce more elements than the bound (unbounded, or '
        'length > window end + size + orphan) - only then can the bound be broken; an unbatched '
        'case when the source is non-empty. Added: every 4th grid point once more with a rotating delivery route '
        '(client attribute, __getattr__ client, client + keyword parameters, tuple of clients, method, mapping, '
        'dtml-with object / only / mapping / expr, dtml-let name / expr, item of an enclosing dtml-in (object / '
        'mapping), sub-template in the caller\'s namespace) x kind (the five plus a lazy sequence whose == / in '
        'produce everything) x body variant; pages = one template whose 2..6 segments work on the same name in one '
        'render (batch, batch at a second start, full body, expr form, previous / next attribute forms, batch of a '
        'dtml-let alias, unbatched walk, and lookups that walk nothing: another name next to it, has_key, raw '
        'getitem): a fixed family (8 page shapes x every route incl. values given at template creation and the page '
        'rendered twice as a sub-template x 4 multi-walk kinds x 16 parameter points) and seeded pages (iterator / '
        'generator pages have one walking tag); seeded routed tuples and unbatched renders. A page is non-trivial '
        'when the source is longer than the largest (single-pass kinds) / some (re-iterables) tag bound. '
        'distinct = distinct (template or page segments,route,kind,length,start,start2,end,size,orphan,overlap,'
        'strings) tuples')
ASSUMPTIONS = ['"size" in the bound is the effective batch size: the size parameter when >= 1, the '
               'requested window length end+1-start when both bounds are given, else the default 7 '
               '(same reading as C11)',
               'pulls = elements produced by the source; the final exhaustion signal '
               '(StopIteration / IndexError) is not an element and is only counted',
               'a second iter() on an iterator object that returns itself pulls nothing and is only '
               'counted; on a re-iterable it restarts at element 0 and is refuted by the pull log',
               'with the previous / next attributes nothing is displayed element-wise; the window is '
               'the one the engine reports in sequence-step-start-index / -end-index',
               'previous-batches is requested only with overlap < size (with overlap >= size '
               'previous_batches never terminates - outside this property, reported separately)',
               'how the sequence is found (keyword, attribute of a client / dtml-with object / loop item, mapping, '
               'dtml-let, sub-template namespace, creation-time values) is not an excepted request: the bound is '
               'demanded on every route; a method route is used with the name form only (an expression does not '
               'call what it names)',
               'pages: the statement is applied per tag. A lazy __getitem__ sequence remembers what it produced, so '
               'over the whole page the log must read 0,1,2,... and stop at the largest tag bound (an unbatched tag '
               'makes that the length); a re-iterable legitimately starts one pass per tag (never more passes than '
               'tags), pass i within the bound of tag i; iterator / generator pages have exactly one walking tag. '
               'Lookups that walk nothing (has_key, raw getitem, dtml-let alias, another name) may pull nothing',
               'pages use overlap 0 / 1 only (the known previous-batch probe mechanism needs overlap > 2*size+orphan)']
SHARD_TIMEOUT = {'quick': 600, 'thorough': 3000}

INF = float('inf')
MECH_PREV = 'prev-batch-probe-past-lookahead'

ATTRS = ' start=st end=en size=sz orphan=orp overlap=ovl>'
ELSE = '<dtml-else>EMPTY</dtml-in>'
B_MIN = '[<dtml-var sequence-number>|<dtml-var sequence-item>]'
B_PB = ('[<dtml-var sequence-number>|<dtml-var sequence-item>|<dtml-if previous-sequence>'
        '<dtml-in previous-batches mapping>(<dtml-var batch-start-index>:<dtml-var batch-end-index>)'
        '</dtml-in></dtml-if>]')
B_MODE = ('{<dtml-var sequence-step-start-index missing=->|<dtml-var sequence-step-end-index missing=->|'
          '<dtml-var previous-sequence-end-number missing=->|<dtml-var next-sequence-start-number missing=->}')
SOURCES = {
    'full': '<dtml-in seq' + ATTRS + c11.BODY + ELSE,
    'min': '<dtml-in seq' + ATTRS + B_MIN + ELSE,
    'pb': '<dtml-in seq' + ATTRS + B_PB + ELSE,
    'expr': '<dtml-in expr="seq"' + ATTRS + B_MIN + ELSE,
    # a reverse_expr that evaluates to false requests no reversing: the exception for reversing does not apply
    'rev0': '<dtml-in seq reverse_expr="rv0"' + ATTRS + B_MIN + ELSE,
    'prev': '<dtml-in seq previous' + ATTRS + 'B' + B_MODE + '<dtml-else>E' + B_MODE + '</dtml-in>',
    'next': '<dtml-in seq next' + ATTRS + 'B' + B_MODE + '<dtml-else>E' + B_MODE + '</dtml-in>',
    # the attribute forms whose section walks the neighbouring batch of the SAME name: still one pass, in order
    'next_nested': ('<dtml-in seq next' + ATTRS + 'B' + B_MODE +
                    '<dtml-in seq start=next-sequence-start-number size=sz orphan=orp>' + B_MIN + '</dtml-in>'
                    '<dtml-else>E' + B_MODE + '</dtml-in>'),
    'prev_nested': ('<dtml-in seq previous' + ATTRS + 'B' + B_MODE +
                    '<dtml-in seq start=previous-sequence-start-number size=sz orphan=orp>' + B_MIN + '</dtml-in>'
                    '<dtml-else>E' + B_MODE + '</dtml-in>'),
    'unb': '<dtml-in seq>' + B_MIN + ELSE,
    'unb_expr': '<dtml-in "seq">' + B_MIN + ELSE,
}
DISPLAYED = ('full', 'min', 'pb', 'expr', 'rev0', 'literal')

# pages: several tags of ONE template work on the same lazy value in one render (the batch plus its
# previous / next navigation, two batches, a batch under another name, plus lookups of the name that walk
# nothing); the outputs of the segments are joined by '#'
ATTRS2 = ' start=st2 end=en size=sz orphan=orp overlap=ovl>'
SEGMENTS = {
    'show': SOURCES['min'],
    'show2': '<dtml-in seq' + ATTRS2 + B_MIN + ELSE,
    'full': SOURCES['full'],
    'xshow': SOURCES['expr'],
    'prev': SOURCES['prev'],
    'next': SOURCES['next'],
    'next2': '<dtml-in seq next' + ATTRS2 + 'B' + B_MODE + '<dtml-else>E' + B_MODE + '</dtml-in>',
    'alias': '<dtml-let al=seq><dtml-in al' + ATTRS + B_MIN + ELSE + '</dtml-let>',
    'unb': SOURCES['unb'],
    # lookups that walk nothing: another name living next to the sequence, a has_key test of the name,
    # the raw value of the name
    'var': 'v<dtml-var title>',
    'has': '<dtml-if "_.has_key(\'seq\')">y<dtml-else>n</dtml-if>',
    'raw': '<dtml-if "_.getitem(\'seq\') is not None">y<dtml-else>n</dtml-if>',
}
PASSIVE = ('var', 'has', 'raw')
PASSIVE_OUT = {'var': 'v', 'has': 'y', 'raw': 'y'}
WALKS = tuple(k for k in SEGMENTS if k not in PASSIVE)
MODES = ('prev', 'next', 'next2')
# kinds that can be walked by more than one tag: the value itself remembers what it produced (lazy) or
# every tag legitimately starts its own pass (re-iterables)
SINGLE_PASS = ('iter', 'gen', 'lazy', 'lazyeq')
# routes for pages only: the whole page is rendered twice as a sub-template of one calling template
PAGE_ONLY_ROUTES = ('sub2',)


def page_source(segs):
    return '#'.join(SEGMENTS[k] for k in segs)

GRID = {}
for _tier in ('quick', 'thorough'):
    _g = dict(c11.GRID[_tier])
    # the source length axis gains the unbounded source (None); one more overlap value so that
    # overlap can exceed 2*size+orphan for the smallest batches in both tiers
    _g['length'] = list(_g['length']) + [None]
    _g['overlap'] = range(0, _g['overlap'][-1] + 2)
    GRID[_tier] = _g
NSHARDS = {'quick': 16, 'thorough': 48}


def plan(tier, seed):
    return [{} for _ in range(NSHARDS[tier])]


# ---------------------------------------------------------------- model
def eff_size(st, en, sz):
    if sz >= 1:
        return sz
    if st > 0 and en >= st:
        return en + 1 - st
    return 7


def classify(case, s, e, bound, log):
    """Mechanism key of a bound violation, or None.

    prev-batch-probe-past-lookahead: the window does not start at element 1, and the number the
    previous batch is said to end at (start-1+overlap) lies beyond window end + size + orphan;
    every pull past the bound happened inside a later opt() call that was asked for exactly that
    end with no start (the previous-batch computation), and nothing was pulled beyond it.
    """
    ovl = case['overlap']
    if s is None or not (s > 1 and ovl > 0):
        return None
    want = s - 1 + ovl
    if want <= bound:
        return None
    n = case['n']
    if len(log.pulls) != (want if n is None else min(want, n)):
        return None
    if not log.opt_calls:
        # no attribution available (the wrapped internal was renamed): the output-level part above - pulls stop
        # exactly at the number the previous batch is said to end at - is what classifies
        return MECH_PREV
    for idx, site in zip(log.pulls, log.sites):
        if idx < bound:
            continue
        if site < 1:            # 0 is the window computation itself, -1 is outside opt
            return None
        c = log.opt_calls[site]
        if not (c[0] <= 0 and c[1] == want):
            return None
    return MECH_PREV


class Env:
    def __init__(self, ctx):
        from DocumentTemplate.DT_HTML import HTML
        self.ctx = ctx
        self.HTML = HTML
        self.sites = OptSites()
        self.sites.install()
        self.templates = {}
        self.literals = {}
        self.outers = (HTML('<dtml-var inner>'), HTML('<dtml-var inner>#<dtml-var inner>'))
        # a real generator cannot log requests made after it is exhausted; once an observable
        # container has shown a render that does not stop asking, generators are no longer fed
        # (the verdict is already a violation; this only keeps the shard from hanging)
        self.nonterminating = False

    def skip(self, kind):
        if self.nonterminating and kind == 'gen':
            self.ctx.count('note:generator cases skipped after a non-terminating render was observed')
            return True
        return False

    def template(self, case):
        """(compiled template or None for the created routes, its source)."""
        name = case['tmpl']
        route = case.get('route', 'kw')
        wrap = ROUTE_WRAP.get(route, ('', ''))
        if name == 'literal':
            src = case['src']
        elif name == 'page':
            src = page_source(case['segs'])
        else:
            src = SOURCES[name]
        src = wrap[0] + src + wrap[1]
        if route in CREATED:
            return None, src
        if name in ('literal', 'page'):
            t = self.literals.get(src)
            if t is None:
                if len(self.literals) > 2000:
                    self.literals.clear()
                t = self.literals[src] = self.HTML(src)
            return t, src
        t = self.templates.get((name, wrap))
        if t is None:
            t = self.templates[(name, wrap)] = self.HTML(src)
            t.cook()
        return t, src


def render(env, case, log):
    """Returns (output, exception)."""
    t, src = env.template(case)
    seq = make(case['kind'], log)
    route = case.get('route', 'kw')
    env.ctx.table('route/kind', '%s/%s' % (route, case['kind']))
    vals = {'seq': seq}
    if route != 'kw' or case['tmpl'] == 'page':
        vals['title'] = ''
    if case['tmpl'] in ('unb', 'unb_expr', 'literal'):
        params = {}
    else:
        p = [case['start'], case['end'], case['size'], case['orphan'], case['overlap']]
        if case['tmpl'] == 'page':
            p.append(case['start2'])
        if case.get('strs'):
            p = [str(v) for v in p]
        params = dict(zip(('st', 'en', 'sz', 'orp', 'ovl', 'st2'), p))
        params['rv0'] = 0
    env.sites.current = log
    try:
        return deliver(route, env.HTML, t, src, env.outers, vals, params), None
    except PullBudgetExceeded as e:
        return None, e
    except Exception as e:
        return None, e
    finally:
        env.sites.current = None


def parse_records(out):
    if not (out.startswith('[') and out.endswith(']')):
        raise ValueError('unparseable output %r' % out[:80])
    nums, items = [], []
    for r in out[1:-1].split(']['):
        f = r.split('|')
        nums.append(int(f[0]))
        items.append(int(f[1]))
    return nums, items


def case_key(case):
    key = '%s_%s_%s_%s_%s_%s_%s_%s' % (case['tmpl'], case['kind'], case['n'], case.get('start'),
                                     case.get('end'), case.get('size'), case.get('orphan'),
                                     case.get('overlap'))
    if case.get('route', 'kw') != 'kw':
        key += '_' + case['route']
    if case['tmpl'] == 'page':
        key += '_%s_%s' % (case['start2'], '+'.join(case['segs']))
    return key


def log_detail(log, out):
    return {'pulls': len(log.pulls), 'pull_log_tail': log.pulls[-12:], 'sites_tail': log.sites[-12:],
            'opt_calls': log.opt_calls[:8], 'iter_calls': log.iters, 'len_calls': log.lens,
            'exhaustion_signals': log.stops, 'over_budget': log.over,
            'output': None if out is None else str(out)[:400]}


# ---------------------------------------------------------------- one batched render
def batched(ctx, env, case, sample=False):
    tmpl, kind, n = case['tmpl'], case['kind'], case['n']
    st, en, sz, orp, ovl = case['start'], case['end'], case['size'], case['orphan'], case['overlap']
    if env.skip(kind):
        return
    eff = eff_size(st, en, sz)
    ms, me, only_end = c11.model(INF if n is None else n, st, en, sz, orp)
    if n is None:
        budget = me + eff + orp + 64
        ctx.count('cases:unbounded source')
    else:
        budget = 3 * n + 64
        ctx.count('cases:bounded source')
    log = PullLog(n, budget)
    out, exc = render(env, case, log)
    npull = len(log.pulls)
    desc = (tmpl, kind, n, st, en, sz, orp, ovl, bool(case.get('strs')), case.get('src'))
    if case.get('route', 'kw') != 'kw':
        desc += (case['route'],)
        ctx.count('routes:batched renders with the sequence delivered other than by keyword')
    ctx.table('kind/template', '%s/%s' % (kind, tmpl))
    key = case_key(case)

    # -- termination / budget
    if log.over or isinstance(exc, PullBudgetExceeded):
        ctx.case(desc, True)
        env.nonterminating = True
        if n is None:
            what = ('pull budget (window end + size + orphan + 64 = %d) exhausted: the render does not '
                    'stop pulling from an unbounded source' % budget)
        else:
            what = ('logical budget exhausted on a source of %d elements (%d pulls, %d requests after '
                    'exhaustion): the render does not stop asking' % (n, npull, log.stops))
        ctx.violation(what, case, key='budget_' + key, detail=log_detail(log, out))
        return
    if exc is not None:
        ctx.case(desc, True)
        ctx.violation('batched render over a lazy sequence raised %s: %s'
                      % (type(exc).__name__, str(exc)[:160]), case, key='raise_' + key,
                      detail=log_detail(log, out))
        return

    problems = []
    # -- order / once
    if log.pulls != list(range(npull)):
        problems.append('pull log is not 0,1,2,...: %r' % (log.pulls[:16],))
    if log.iters is not None:
        ctx.count('monitor:iter() calls', log.iters)
        if log.iters > 1:
            ctx.count('monitor:renders with more than one iter() call')
    if log.lens:
        ctx.count('monitor:len() calls on the lazy __getitem__ sequence', log.lens)
    if log.negative:
        ctx.count('monitor:negative subscripts', log.negative)
    ctx.count('monitor:exhaustion signals', log.stops)

    # -- the window that was shown
    s = e = None
    if n == 0:
        ctx.case(desc, False)
        ctx.count('cases:empty source')
        if npull:
            problems.append('%d elements pulled from an empty source' % npull)
        if tmpl in DISPLAYED and out != 'EMPTY':
            problems.append('empty source did not render the else body: %r' % out[:60])
        if problems:
            ctx.violation('; '.join(problems), case, key='empty_' + key, detail=log_detail(log, out))
        return
    if tmpl in DISPLAYED:
        try:
            nums, items = parse_records(out)
        except (ValueError, IndexError) as err:
            ctx.case(desc, True)
            ctx.violation('output not parseable: %s' % err, case, key='parse_' + key,
                          detail=log_detail(log, out))
            return
        s, e = nums[0], nums[-1]
        if items != nums:
            problems.append('shown elements %r are not the elements produced at positions %r'
                            % (items[:8], nums[:8]))
        if e > npull:
            problems.append('element %d shown but only %d pulled' % (e, npull))
        if e != me:
            ctx.count('note:shown window end differs from the C11 model (not asserted here)')
    else:
        # previous / next attribute: the engine-reported window (documented variables)
        try:
            f = out[2:-1].split('|')
            s, e = int(f[0]) + 1, int(f[1]) + 1
        except (ValueError, IndexError):
            ctx.case(desc, True)
            ctx.violation('mode output not parseable: %r' % out[:80], case, key='parse_' + key,
                          detail=log_detail(log, out))
            return
        ctx.count('mode:%s body %s' % (tmpl, 'rendered' if out[0] == 'B' else 'else'))
        if e != me:
            ctx.count('note:reported window end differs from the C11 model (not asserted here)')

    # -- the bound
    bound = e + eff + orp
    deciding = n is None or n > bound
    ctx.case(desc, deciding)
    ctx.count('bound:evaluations')
    if deciding:
        ctx.count('bound:deciding (source longer than the bound)')
        slack = bound - npull
        ctx.table('slack = bound - pulls (deciding cases)',
                  'over' if slack < 0 else ('%d' % slack if slack < 8 else '8+'))
        if slack == 0:
            ctx.count('bound:reached exactly')
        shape = ('start&end' if st > 0 and en > 0 else 'start only' if st > 0
                 else 'end only' if en > 0 else 'neither')
        ctx.table('parameter shape / slack (deciding cases)',
                  '%s / %s' % (shape, 'over' if slack < 0 else 'tight' if slack == 0 else 'within'))
    mech = None
    if npull > bound:
        mech = classify(case, s, e, bound, log)
        over = [(i, k) for i, k in zip(log.pulls, log.sites) if i >= bound]
        problems.insert(0, 'pulled %d elements, bound is window end %d + size %d + orphan %d = %d '
                        '(window %s..%d, overlap %d; pulls past the bound came from opt calls %r)'
                        % (npull, e, eff, orp, bound, s, e, ovl,
                           sorted({tuple(log.opt_calls[k]) if k >= 0 else ('outside opt',)
                                   for _, k in over})[:3]))
    if problems:
        if mech and len(problems) > 1:
            mech = None             # anything else wrong in the same case is not the known mechanism
        ctx.violation('; '.join(problems[:3]), case, mech=mech,
                      key=('prevprobe_' if mech else 'bound_') + key, detail=log_detail(log, out))
    if sample:
        ctx.sample({'template': SOURCES.get(tmpl, case.get('src'))[:110] + '...', 'case': case,
                    'shown_window': [s, e], 'bound': bound, 'observed': log_detail(log, out)})


# ---------------------------------------------------------------- attribute form + nested walk of the same name
def nested(ctx, env, case):
    tmpl, kind, n = case['tmpl'], case['kind'], case['n']
    st, en, sz, orp, ovl = case['start'], case['end'], case['size'], case['orphan'], case['overlap']
    if env.skip(kind):
        return
    eff = eff_size(st, en, sz)
    eff_inner = sz if sz >= 1 else 7
    ms, me, only_end = c11.model(INF if n is None else n, st, en, sz, orp)
    budget = (me + eff + eff_inner * 2 + orp * 2 + 64) if n is None else 3 * n + 64
    log = PullLog(n, budget)
    out, exc = render(env, case, log)
    npull = len(log.pulls)
    desc = (tmpl, kind, n, st, en, sz, orp, ovl)
    if case.get('route', 'kw') != 'kw':
        desc += (case['route'],)
    key = case_key(case)
    ctx.table('kind/template', '%s/%s' % (kind, tmpl))
    ctx.count('nested:renders')
    if log.over or isinstance(exc, PullBudgetExceeded):
        ctx.case(desc, True)
        env.nonterminating = True
        ctx.violation('pull budget %d exhausted by an attribute-form render whose section walks the neighbouring '
                      'batch of the same name' % budget, case, key='budget_' + key, detail=log_detail(log, out))
        return
    if exc is not None:
        ctx.case(desc, True)
        ctx.violation('attribute-form render with a nested walk raised %s: %s' % (type(exc).__name__, str(exc)[:160]),
                      case, key='raise_' + key, detail=log_detail(log, out))
        return
    problems = []
    if log.pulls != list(range(npull)):
        problems.append('pull log is not 0,1,2,...: %r' % (log.pulls[:16],))
    if n == 0:
        ctx.case(desc, False)
        if npull:
            problems.append('%d elements pulled from an empty source' % npull)
        if problems:
            ctx.violation('; '.join(problems), case, key='empty_' + key, detail=log_detail(log, out))
        return
    try:
        head, rest = out[:out.index('}') + 1], out[out.index('}') + 1:]
        f = head[2:-1].split('|')
        s_, e_ = int(f[0]) + 1, int(f[1]) + 1
        nums, items = parse_records(rest) if rest else ([], [])
    except (ValueError, IndexError) as err:
        ctx.case(desc, True)
        ctx.violation('nested output not parseable: %s: %r' % (err, out[:80]), case, key='parse_' + key,
                      detail=log_detail(log, out))
        return
    bound = e_ + eff + orp
    if nums:
        ctx.count('nested:inner walk rendered')
        if items != nums:
            problems.append('inner walk shows elements %r at positions %r' % (items[:8], nums[:8]))
        bound = max(bound, nums[-1] + eff_inner + orp)
    deciding = n is None or n > bound
    ctx.case(desc, deciding)
    ctx.count('nested:bound evaluations')
    if deciding:
        ctx.count('nested:deciding (source longer than the bound)')
    if npull > bound:
        problems.insert(0, 'pulled %d elements; outer window %d..%d, inner walk %s: bound %d'
                        % (npull, s_, e_, ('%d..%d' % (nums[0], nums[-1])) if nums else 'none', bound))
    if problems:
        ctx.violation('; '.join(problems[:3]), case, key='nested_' + key, detail=log_detail(log, out))


# ---------------------------------------------------------------- several tags on one lazy value
def page(ctx, env, case, sample=False):
    """One render of a page: every walking segment is a batched (or, 'unb', unbatched) dtml-in over the
    same value.  Per segment the statement gives: in order, each element at most once, at most shown
    window end + size + orphan.  A lazy __getitem__ sequence remembers what it produced, so for the whole
    page the log reads 0,1,2,... up to the largest of the segment bounds; a re-iterable starts one pass
    per tag, each within the bound of its tag."""
    segs, kind, n, route = case['segs'], case['kind'], case['n'], case.get('route', 'kw')
    st, st2, en, sz, orp, ovl = (case['start'], case['start2'], case['end'], case['size'], case['orphan'],
                                 case['overlap'])
    if env.skip(kind):
        return
    if route == 'sub2':
        segs = list(segs) * 2
    walks = [k for k in segs if k not in PASSIVE]
    starts = [st2 if k.endswith('2') else st for k in walks]
    effs = [eff_size(a, en, sz) for a in starts]
    if n is None:
        ubs = [c11.model(INF, a, en, sz, orp)[1] + f + orp for a, f in zip(starts, effs)]
        budget = (max(ubs) if kind in SINGLE_PASS else sum(ubs)) + 64
    else:
        budget = 3 * n * len(walks) + 64
    log = PullLog(n, budget)
    out, exc = render(env, case, log)
    npull = len(log.pulls)
    desc = ('page', tuple(case['segs']), route, kind, n, st, st2, en, sz, orp, ovl, bool(case.get('strs')))
    key = case_key(case)
    ctx.count('pages:renders')
    ctx.table('pages: walking segments / kind', '%d / %s' % (len(walks), kind))
    for k in segs:
        ctx.table('pages: segment', k)
    if log.over or isinstance(exc, PullBudgetExceeded):
        ctx.case(desc, True)
        env.nonterminating = True
        ctx.violation('pull budget %d exhausted by a page whose tags %s work on the same lazy value (delivered by: %s)'
                      % (budget, '+'.join(segs), route), case, key='budget_' + key, detail=log_detail(log, out))
        return
    if exc is not None:
        ctx.case(desc, True)
        ctx.violation('page %s over a lazy value (delivered by: %s) raised %s: %s'
                      % ('+'.join(segs), route, type(exc).__name__, str(exc)[:160]), case, key='raise_' + key,
                      detail=log_detail(log, out))
        return
    problems = []
    tokens = out.split('#')
    if len(tokens) != len(segs):
        ctx.case(desc, True)
        ctx.violation('page output not parseable: %r' % out[:80], case, key='parse_' + key,
                      detail=log_detail(log, out))
        return
    for k, tok in zip(segs, tokens):
        if k in PASSIVE and tok != PASSIVE_OUT[k]:
            problems.append('segment %s rendered %r' % (k, tok[:40]))
    if n == 0:
        ctx.case(desc, False)
        ctx.count('pages:empty source')
        if npull:
            problems.append('%d elements pulled from an empty source' % npull)
        for k, tok in zip(segs, tokens):
            if k not in PASSIVE and k not in MODES and tok != 'EMPTY':
                problems.append('empty source did not render the else body of %s: %r' % (k, tok[:40]))
        if problems:
            ctx.violation('; '.join(problems[:3]), case, key='empty_' + key, detail=log_detail(log, out))
        return
    # -- the window every walking segment showed / reported
    bounds = []
    windows = []
    wtokens = [tok for k, tok in zip(segs, tokens) if k not in PASSIVE]
    for k, tok, f in zip(walks, wtokens, effs):
        try:
            if k in MODES:
                fld = tok[2:-1].split('|')
                s, e = int(fld[0]) + 1, int(fld[1]) + 1
            else:
                nums, items = parse_records(tok)
                s, e = nums[0], nums[-1]
                if items != nums:
                    problems.append('segment %s shows elements %r at positions %r' % (k, items[:8], nums[:8]))
                if k == 'unb' and nums != list(range(1, n + 1)):
                    problems.append('unbatched segment shows %r, expected every element 1..%d' % (nums[:10], n))
        except (ValueError, IndexError) as err:
            ctx.case(desc, True)
            ctx.violation('output of segment %s not parseable: %s: %r' % (k, err, tok[:60]), case,
                          key='parse_' + key, detail=log_detail(log, out))
            return
        windows.append((s, e))
        bounds.append(n if k == 'unb' else e + f + orp)
    # -- order / once / bound
    if kind in SINGLE_PASS:
        top = max(bounds)
        deciding = n is None or n > top
        if log.pulls != list(range(npull)):
            problems.append('pull log is not 0,1,2,...: %r' % (log.pulls[:16],))
        if max(e for _, e in windows) > npull:
            problems.append('element %d shown but only %d pulled' % (max(e for _, e in windows), npull))
        if npull > top:
            problems.insert(0, 'pulled %d elements; the tags %s showed the windows %r, bounds (window end + size + '
                            'orphan) %r: at most %d' % (npull, '+'.join(walks), windows, bounds, top))
        if 'unb' in walks and npull != n:
            problems.append('page with an unbatched walk of %d elements pulled %d' % (n, npull))
    else:
        deciding = any(n is None or n > b for b in bounds)
        runs = []
        for i in log.pulls:
            if i == 0 or not runs:
                runs.append([])
            runs[-1].append(i)
        if any(r != list(range(len(r))) for r in runs):
            problems.append('pull log is not a succession of passes 0,1,2,...: %r' % (log.pulls[:24],))
        if len(runs) > len(walks) or (log.iters or 0) > len(walks):
            problems.append('%d passes / %r iter() calls for %d tags' % (len(runs), log.iters, len(walks)))
        elif len(runs) == len(walks):
            for k, r, b, w in zip(walks, runs, bounds, windows):
                if len(r) > b or (k == 'unb' and len(r) != n):
                    problems.insert(0, 'the pass of tag %s pulled %d elements, window %r, bound %d' % (k, len(r), w, b))
                if w[1] > len(r):
                    problems.append('tag %s shows element %d but its pass pulled %d' % (k, w[1], len(r)))
        elif runs and max(len(r) for r in runs) > max(bounds):
            problems.insert(0, 'a pass pulled %d elements, bounds %r' % (max(len(r) for r in runs), bounds))
    ctx.case(desc, deciding)
    ctx.count('pages:bound evaluations')
    lookups = len(segs)
    if deciding:
        ctx.count('pages:deciding (source longer than the bound)')
        ctx.table('pages: route (deciding)', route)
        if len(walks) > 1:
            ctx.count('pages:deciding with more than one walking tag')
        if route in ATTRIBUTE_ROUTES and lookups > 1:
            ctx.count('pages:deciding with the name looked up again as an attribute of the same object')
        if 'unb' not in walks and kind in SINGLE_PASS and npull == max(bounds):
            ctx.count('pages:bound reached exactly')
    if log.lens:
        ctx.count('monitor:len() calls on the lazy __getitem__ sequence', log.lens)
    ctx.count('monitor:exhaustion signals', log.stops)
    if problems:
        ctx.violation('; '.join(problems[:3]), case, key='page_' + key, detail=log_detail(log, out))
    if sample:
        ctx.sample({'template': page_source(case['segs'])[:160] + '...', 'case': case, 'shown_windows': windows,
                    'bounds': bounds, 'observed': log_detail(log, out)})


EXPR_FORMS = ('expr', 'unb_expr', 'xshow')


def fit_route(route, names, page=False):
    """An expression does not call what it names (DTML calls only names looked up by the name form), so a
    sequence handed out by a method is not combined with the expr forms: plain attribute instead."""
    if route == 'method' and any(k in EXPR_FORMS for k in names):
        return 'client'
    if route in PAGE_ONLY_ROUTES and not page:
        return 'sub'
    return route


def mkpage(segs, route, kind, n, st, st2, en, sz, orp, ovl, strs=False):
    route = fit_route(route, segs, page=kind not in ('iter', 'gen'))
    return {'tmpl': 'page', 'segs': list(segs), 'route': route, 'kind': kind, 'n': n, 'start': st,
            'start2': st2, 'end': en, 'size': sz, 'orphan': orp, 'overlap': ovl, 'strs': strs}


# ---------------------------------------------------------------- one unbatched render
def unbatched(ctx, env, case, sample=False):
    kind, n = case['kind'], case['n']
    if env.skip(kind):
        return
    log = PullLog(n, 3 * n + 64)
    out, exc = render(env, case, log)
    ctx.case((case['tmpl'], kind, n) + ((case['route'],) if case.get('route', 'kw') != 'kw' else ()), n > 0)
    ctx.table('kind/template', '%s/%s' % (kind, case['tmpl']))
    ctx.count('unbatched:evaluations')
    key = case_key(case)
    if log.over or isinstance(exc, PullBudgetExceeded):
        env.nonterminating = True
        ctx.violation('logical budget exhausted on a source of %d elements (%d pulls, %d requests after '
                      'exhaustion): the unbatched render does not stop asking' % (n, len(log.pulls), log.stops),
                      case, key='budget_' + key, detail=log_detail(log, out))
        return
    if exc is not None:
        ctx.violation('unbatched render over a lazy sequence raised %s: %s'
                      % (type(exc).__name__, str(exc)[:160]), case, key='raise_' + key,
                      detail=log_detail(log, out))
        return
    problems = []
    if log.pulls != list(range(n)):
        problems.append('unbatched render of %d elements pulled %d: log %r'
                        % (n, len(log.pulls), log.pulls[:16]))
    if log.iters is not None:
        ctx.count('monitor:iter() calls', log.iters)
        if log.iters > 1:
            ctx.count('monitor:renders with more than one iter() call')
    ctx.count('monitor:exhaustion signals', log.stops)
    if n == 0:
        if out != 'EMPTY':
            problems.append('empty source did not render the else body: %r' % out[:60])
    else:
        try:
            nums, items = parse_records(out)
        except (ValueError, IndexError) as err:
            nums = items = None
            problems.append('output not parseable: %s' % err)
        if nums is not None and not (nums == items == list(range(1, n + 1))):
            problems.append('shown %r / %r, expected every element 1..%d once in order'
                            % (nums[:10], items[:10], n))
    if problems:
        ctx.violation('; '.join(problems[:3]), case, key='unbatched_' + key, detail=log_detail(log, out))
    if sample:
        ctx.sample({'template': SOURCES[case['tmpl']], 'case': case, 'observed': log_detail(log, out)})


def mk(tmpl, kind, n, st, en, sz, orp, ovl, strs=False, route='kw'):
    case = {'tmpl': tmpl, 'kind': kind, 'n': n, 'start': st, 'end': en, 'size': sz,
            'orphan': orp, 'overlap': ovl, 'strs': strs}
    route = fit_route(route, (tmpl,))
    if route != 'kw':
        case['route'] = route
    return case


OTHER_KINDS = ('gen', 'lazy', 'iterable', 'sized')
VARIANTS = ('min', 'full', 'pb', 'expr', 'rev0')


def run(ctx, spec):
    from DocumentTemplate import DT_In, DT_InSV, DT_Util
    from vlib.reach import Reach
    reach = Reach()
    # diagnosis only: engine internals that a harmless refactoring may rename
    for label, owner, attr in (('SequenceFromIter.__getitem__', getattr(DT_Util, 'SequenceFromIter', None), '__getitem__'),
                               ('SequenceFromIter.__len__', getattr(DT_Util, 'SequenceFromIter', None), '__len__'),
                               ('sequence_ensure_subscription', DT_Util, 'sequence_ensure_subscription'),
                               ('DT_InSV.opt', DT_InSV, 'opt'),
                               ('InClass.renderwb', getattr(DT_In, 'InClass', None), 'renderwb'),
                               ('InClass.renderwob', getattr(DT_In, 'InClass', None), 'renderwob'),
                               ('sequence_variables.previous_batches',
                                getattr(DT_InSV, 'sequence_variables', None), 'previous_batches')):
        fn = getattr(owner, attr, None)
        if fn is None:
            ctx.count('note:anchor not found (renamed?): ' + label)
        else:
            reach.watch(label, fn)
    reach.start()
    env = Env(ctx)
    g = GRID[ctx.tier]
    space = itertools.product(g['length'], g['start'], g['end'], g['size'], g['orphan'], g['overlap'])
    for i, (n, st, en, sz, orp, ovl) in enumerate(space):
        if i % ctx.nshards != ctx.shard:
            continue
        j = i // ctx.nshards
        batched(ctx, env, mk('full', 'iter', n, st, en, sz, orp, ovl))
        variant = VARIANTS[(j // len(OTHER_KINDS)) % len(VARIANTS)]
        if variant == 'pb' and not ovl < eff_size(st, en, sz):
            variant = 'min'
        batched(ctx, env, mk(variant, OTHER_KINDS[j % len(OTHER_KINDS)], n, st, en, sz, orp, ovl))
        if j % 8 == 1:
            batched(ctx, env, mk('prev', KINDS[(j // 8) % len(KINDS)], n, st, en, sz, orp, ovl))
        elif j % 8 == 5:
            batched(ctx, env, mk('next', KINDS[(j // 8) % len(KINDS)], n, st, en, sz, orp, ovl))
        elif j % 8 == 3 and ovl <= min(eff_size(st, en, sz), 1):
            nested(ctx, env, mk(('next_nested', 'prev_nested')[(j // 8) % 2], KINDS[(j // 16) % len(KINDS)],
                                n, st, en, sz, orp, ovl))
        elif j % 32 == 7 and (st > 0 or en > 0 or sz > 0):
            case = mk('literal', KINDS[(j // 32) % len(KINDS)], n, st, en, sz, orp, ovl)
            case['src'] = c11.literal_source(st if st > 0 else None, en if en > 0 else None,
                                             sz if sz > 0 else None, orp, ovl)
            ctx.count('literal-attribute renders')
            batched(ctx, env, case)
    # the same renders with the sequence (and the parameters) reaching the tag by every other route:
    # every 4th grid point, rotating route x kind x body variant
    grid_routes = [r for r in ROUTES if r != 'kw' and r not in CREATED and r not in PAGE_ONLY_ROUTES]
    space = itertools.product(g['length'], g['start'], g['end'], g['size'], g['orphan'], g['overlap'])
    for i, (n, st, en, sz, orp, ovl) in enumerate(space):
        if i % ctx.nshards != ctx.shard:
            continue
        j = i // ctx.nshards
        if j % 4 != 2:
            continue
        m = j // 4
        route = grid_routes[m % len(grid_routes)]
        kind = MORE_KINDS[(m // len(grid_routes)) % len(MORE_KINDS)]
        if m % 16 == 9 and ovl <= min(eff_size(st, en, sz), 1):
            nested(ctx, env, mk(('next_nested', 'prev_nested')[(m // 16) % 2], kind, n, st, en, sz, orp, ovl,
                                route=route))
            continue
        variant = (VARIANTS + ('prev', 'next'))[(m // (len(grid_routes) * len(MORE_KINDS))) % (len(VARIANTS) + 2)]
        if variant == 'pb' and not ovl < eff_size(st, en, sz):
            variant = 'min'
        batched(ctx, env, mk(variant, kind, n, st, en, sz, orp, ovl, route=route))
    # pages, fixed family: the usual page shapes x every route x every kind that more than one tag can walk
    shapes = (('show', 'next'), ('prev', 'show', 'next'), ('show', 'show'), ('show', 'show2'),
              ('has', 'show'), ('show', 'alias'), ('var', 'xshow', 'next2'), ('raw', 'full', 'var', 'show2'))
    fam = itertools.product(shapes, ROUTES, ('lazy', 'lazyeq', 'iterable', 'sized'), (None, 40), (0, 4), (0, 3),
                            ((0, 0), (1, 1)))
    for i, (segs, route, kind, n, st, sz, (orp, ovl)) in enumerate(fam):
        if i % ctx.nshards != ctx.shard:
            continue
        if route in CREATED and (i // ctx.nshards) % 4:
            continue
        ctx.count('pages:fixed family')
        page(ctx, env, mkpage(segs, route, kind, n, st, max(st, 1) + eff_size(st, 0, sz) - ovl, 0, sz, orp, ovl))
    # unbatched: every kind, both template forms, every small length
    ulens = [x for x in g['length'] if x is not None]
    for i, (n, kind, tmpl) in enumerate(itertools.product(ulens, KINDS, ('unb', 'unb_expr'))):
        if i % ctx.nshards == ctx.shard:
            unbatched(ctx, env, {'tmpl': tmpl, 'kind': kind, 'n': n})
    # seeded larger tuples
    rng = ctx.rng
    nrand = (4800 if ctx.tier == 'quick' else 96000) // ctx.nshards
    for _ in range(nrand):
        n = rng.choice([None, rng.randint(0, 200), rng.randint(0, 200)])
        st = rng.choice([0, -3, rng.randint(1, 220), rng.randint(1, 220)])
        en = rng.choice([0, 0, -1, rng.randint(1, 220)])
        sz = rng.choice([0, -2, rng.randint(1, 40), rng.randint(1, 40)])
        orp = rng.randint(0, 12)
        eff = eff_size(st, en, sz)
        ovl = rng.choice([rng.randint(0, 8), rng.randint(0, 8), rng.randint(0, 2 * eff + orp + 4)])
        tmpl = rng.choice(['full', 'full', 'min', 'pb', 'expr', 'rev0', 'prev', 'next'])
        if tmpl == 'pb' and not ovl < eff:
            tmpl = 'full'
        ctx.count('seeded larger tuples')
        batched(ctx, env, mk(tmpl, rng.choice(KINDS), n, st, en, sz, orp, ovl, strs=rng.random() < 0.2))
        if rng.random() < 0.1:
            ctx.count('seeded larger unbatched renders')
            unbatched(ctx, env, {'tmpl': rng.choice(['unb', 'unb_expr']), 'kind': rng.choice(KINDS),
                                 'n': rng.randint(0, 300)})
    # seeded pages and seeded routed renders (after the tuples above so that their stream is unchanged)
    npages = (4800 if ctx.tier == 'quick' else 96000) // ctx.nshards
    routes_w = [r for r in ROUTES if r not in CREATED] * 4 + list(CREATED)
    for _ in range(npages):
        n = rng.choice([None, rng.randint(0, 30), rng.randint(0, 200)])
        st = rng.choice([0, -3, rng.randint(1, 12), rng.randint(1, 220)])
        st2 = rng.choice([0, rng.randint(1, 12), rng.randint(1, 220)])
        en = rng.choice([0, 0, 0, -1, rng.randint(1, 220)])
        sz = rng.choice([0, -2, rng.randint(1, 6), rng.randint(1, 40)])
        orp = rng.randint(0, 12)
        ovl = rng.randint(0, 1)
        kind = rng.choice(MORE_KINDS)
        route = rng.choice(routes_w)
        walking = [k for k in WALKS if k != 'unb' or (n is not None and rng.random() < 0.3)]
        if kind in ('iter', 'gen'):
            # an iterator object is used up by the first tag: one walking tag, the other lookups walk nothing
            segs = [rng.choice(walking)] + [rng.choice(PASSIVE) for _ in range(rng.randint(1, 2))]
        else:
            segs = [rng.choice(walking) for _ in range(rng.randint(2, 4))]
            segs += [rng.choice(PASSIVE) for _ in range(rng.randint(0, 2))]
        rng.shuffle(segs)
        ctx.count('pages:seeded')
        page(ctx, env, mkpage(segs, route, kind, n, st, st2, en, sz, orp, ovl, strs=rng.random() < 0.1))
        if rng.random() < 0.5:
            n = rng.choice([None, rng.randint(0, 200), rng.randint(0, 200)])
            eff = eff_size(st, en, sz)
            ovl = rng.choice([rng.randint(0, 8), rng.randint(0, 2 * eff + orp + 4)])
            tmpl = rng.choice(['full', 'min', 'pb', 'expr', 'rev0', 'prev', 'next'])
            if tmpl == 'pb' and not ovl < eff:
                tmpl = 'full'
            ctx.count('seeded larger tuples, routed')
            batched(ctx, env, mk(tmpl, rng.choice(MORE_KINDS), n, st, en, sz, orp, ovl, strs=rng.random() < 0.2,
                                 route=rng.choice(routes_w)))
        elif rng.random() < 0.2:
            ctx.count('seeded larger unbatched renders, routed')
            tmpl = rng.choice(['unb', 'unb_expr'])
            unbatched(ctx, env, {'tmpl': tmpl, 'kind': rng.choice(MORE_KINDS), 'n': rng.randint(0, 300),
                                 'route': fit_route(rng.choice(routes_w), (tmpl,))})
    # one written-out sample per shard (the driver keeps one per shard)
    if ctx.shard % 4 == 0:
        batched(ctx, env, mk('min', 'iter', None, 3, 0, 2, 1, 1), sample=True)
    elif ctx.shard % 4 == 1:
        batched(ctx, env, mk('min', 'gen', 9, 0, 4, 0, 0, 0), sample=True)
    elif ctx.shard % 8 == 2:
        batched(ctx, env, mk('pb', 'lazy', None, 5, 0, 2, 0, 1), sample=True)
    elif ctx.shard % 8 == 6:
        page(ctx, env, mkpage(('prev', 'show', 'next'), 'client', 'lazy', None, 4, 4, 0, 3, 0, 0), sample=True)
    else:
        unbatched(ctx, env, {'tmpl': 'unb', 'kind': 'iterable', 'n': 4}, sample=True)
    ctx.count('monitor:opt calls attributed', env.sites.calls)
    reach.stop()
    reach.report(ctx)


def finish(agg):
    c = agg['counters']
    t = agg['tables']
    inc = []
    if not c.get('cases:unbounded source'):
        inc.append('no unbounded source was rendered')
    for k in ('bound:evaluations', 'bound:deciding (source longer than the bound)',
              'bound:reached exactly', 'unbatched:evaluations',
              'monitor:exhaustion signals', 'monitor:iter() calls', 'nested:inner walk rendered',
              'nested:deciding (source longer than the bound)'):
        if not c.get(k):
            inc.append('deciding monitor never evaluated: ' + k)
    # anchors on engine internals are diagnosis: the verdict rests on the output-level comparisons above
    unreached = [r for r in ('reach:SequenceFromIter.__getitem__', 'reach:sequence_ensure_subscription',
                             'reach:DT_InSV.opt', 'reach:InClass.renderwb', 'reach:InClass.renderwob',
                             'monitor:opt calls attributed') if not c.get(r)]
    for k in ('routes:batched renders with the sequence delivered other than by keyword',
              'pages:bound evaluations', 'pages:deciding (source longer than the bound)',
              'pages:deciding with more than one walking tag',
              'pages:deciding with the name looked up again as an attribute of the same object',
              'pages:bound reached exactly'):
        if not c.get(k):
            inc.append('deciding monitor never evaluated: ' + k)
    routed = t.get('route/kind', {})
    decided = t.get('pages: route (deciding)', {})
    for route in ROUTES:
        if not any(k.startswith(route + '/') for k in routed):
            inc.append('delivery route never rendered: ' + route)
        if not decided.get(route):
            inc.append('delivery route without a deciding page: ' + route)
    for kind in MORE_KINDS:
        if not routed.get('kw/' + kind) and kind in KINDS:
            inc.append('container kind never rendered with keyword delivery: ' + kind)
        if not any(k.endswith('/' + kind) and not k.startswith('kw/') for k in routed):
            inc.append('container kind never rendered with another delivery: ' + kind)
    for seg in SEGMENTS:
        if not t.get('pages: segment', {}).get(seg):
            inc.append('page segment never rendered: ' + seg)
    seen = t.get('kind/template', {})
    for kind in KINDS:
        if not any(k.startswith(kind + '/') for k in seen):
            inc.append('container kind never rendered: ' + kind)
    for name in SOURCES:
        if not any(k.endswith('/' + name) for k in seen):
            inc.append('template variant never rendered: ' + name)
    g = GRID[agg['tier']]
    size = 1
    for v in g.values():
        size *= len(v)
    return {'inconclusive': inc,
            'coverage': {'exhaustive': True,
                         'internal_anchors_not_entered (diagnosis only)': unreached,
                         'grid': {k: ([v[0], v[-2], 'unbounded'] if k == 'length' else [v[0], v[-1]])
                                  for k, v in g.items()},
                         'grid_points': size,
                         'explanation': 'every grid point is rendered over a counting iterator with the '
                                        'full body and over one rotating other lazy container/body '
                                        'variant (length None = unbounded source); seeded larger tuples, '
                                        'modes, literal attributes, delivery routes and pages are extra'}}


def replay(ctx, rep):
    env = Env(ctx)
    case = rep['case']
    if case['tmpl'] in ('unb', 'unb_expr'):
        unbatched(ctx, env, case, sample=True)
    elif case['tmpl'] == 'page':
        page(ctx, env, case, sample=True)
    elif case['tmpl'] in ('next_nested', 'prev_nested'):
        nested(ctx, env, case)
    else:
        batched(ctx, env, case, sample=True)
