"""C20 — dtml-tree: the state survives its cookie/URL encoding and tracks the clicks.

Workload: the real tree tag is driven like a browser drives it: every request is built only
from what the previous response emitted (the ``tree-s`` cookie handed to RESPONSE.setCookie and
the query string of ONE link parsed from the HTML), plus expand_all / collapse_all / reload.
Monitors: the rendered rows (a token printed by the tree body), every expand/collapse link,
the cookie, and contract wrappers on the real ``apply_diff`` / ``encode_seq`` / ``decode_seq``.
Oracle: a set of expanded paths (vlib/c20_util.Model) and an independent base64/zlib/json
decoder; both written from the property statement and the tpRender docstring.
"Any node ids" is taken at its word: besides ASCII / long / non-ASCII / int ids the trees and the
codec states use the rest of the str value space (unpaired surrogates, control characters, ...);
the one spelling JSON text cannot keep apart (a high surrogate directly before a low one) has a
probe of its own, and a merge there is filed under a mechanism key.
Access control: the same histories under template classes that supply the documented
guarded_getattr / guarded_getitem hooks, with the skip_unauthorized option, over trees in which the
guard refuses some nodes -- every way to place refused nodes in every small shape (one, two or more
per folder, first / middle / last / adjacent / all children, with and without children of their
own), combined with sort / reverse / assume_children / branches / branches_expr / id / prefix /
urlparam and with branches that hand out their own list, a tuple or a lazy sequence.  "The
children" are then the children the guard lets through; the oracle is the same set model over the
accessible tree.  Option spellings in which nothing may be filtered (guard without the option,
guarded_getattr only, the option without a guard) and the decoration options (header, footer,
leaves, nowrap, name="...") run over the unchanged model.
The verdict rests on what the engine emits; the wrappers and anchors on private functions are
diagnosis (see finish()).
"""
import json

from vlib import c20_util as U

ID = 'C20'
LEVEL = 'exploration'
RULE = ('histories: every ordered tree shape (quick <= 5 nodes, thorough <= 7 nodes) x 11 id schemes '
        '(ASCII, equal ids along a path, ints incl. 0, int/str/empty mixes, 70+ char ids, non-ASCII, '
        'URL-hostile, _p_oid, id(); and the rest of the str value space: unpaired / swapped / doubled '
        'surrogates next to ASCII and astral characters, control characters, NUL, DEL, C1, U+2028/9, BOM, '
        'non-characters, escape look-alikes) x tag-option variants, explored breadth-first over every '
        'action the page offers (each link, expand_all, collapse_all, reload, refresh) to history length '
        '4 | 5, deduplicated on (cookie, model state); seeded random trees up to 60 nodes with long / '
        'non-ASCII ids x random histories <= 40, and a second batch of random trees whose ids are drawn '
        'from all code points (surrogates, controls included); codec: seeded growth paths of nested '
        'states whose compressed size walks through every value up to 130..700 bytes, ids over ASCII / '
        'non-ASCII / hostile / surrogate / control alphabets, ints, and (codec only) float, bool and None '
        'ids; a probe of ids holding an adjacent high+low surrogate pair. Access control: every shape x every '
        'antichain of non-root nodes refused by a guarded template class (guarded_getattr + guarded_getitem '
        'hooks; Unauthorized or a subclass) x 2 of 7 skip_unauthorized variants (name / this / expr root, '
        'sort+reverse over the object\'s own list, assume_children, branches_expr over tuples, branches= / '
        'id= / reverse over a lazy sequence, prefix+urlparam; valueless and =1 spelling) x 1 of 6 id schemes '
        '(rotating, coprime periods), breadth-first like above; every shape x 11 option variants in which '
        'nothing is filtered (guard without skip_unauthorized, guarded_getattr only, skip_unauthorized '
        'without guard, name="root" + nowrap, header / footer / leaves documents, own-list / tuple / lazy '
        'branches with sort / reverse); seeded random trees <= 40 nodes with each node refused with '
        'probability 0.1 .. 0.5 x random histories <= 30 under all 18 new variants. '
        'One case = one request (or one codec state); it '
        'is non-trivial when the tree has a node that can be expanded (the state is non-empty); distinct = '
        'distinct (variant, tree, history so far, action) resp. distinct encoded strings')
ASSUMPTIONS = ['sibling ids are unique (a path of ids names one node); ids are str or int (histories), any '
               'JSON scalar (codec)',
               'any str is an id, unpaired surrogates included; ids in the rendered histories avoid only '
               '< > " [ ] (the tag writes the id unquoted into name="..." and the harness parses that HTML)',
               'a high surrogate directly followed by a low one inside one id is generated only by the '
               'dedicated pair probe (JSON text spells it like the astral character; a merge there is '
               'reported under its own mechanism key, everything else in the probe is judged normally)',
               'a leaf may carry a link (assume_children): only nodes WITH children are required to '
               'carry exactly one; a clicked leaf simply joins the expanded set',
               'the cookie describes the set when its paths, plus the root entry, equal the model set',
               'a link is followed through URL query parsing, so its value must survive that unchanged; '
               'the padding character = is harmless there and is only counted, not demanded absent',
               'links of earlier pages (back button) are not clicked: only the current page and a '
               'refresh of the last request',
               'access control: under a template class with guarded_getattr AND guarded_getitem hooks and the '
               'skip_unauthorized option, "the children" of a node are the children the guard does not refuse; a '
               'refused node and everything below it are not part of the model tree (rows, links, expand_all set, '
               'cookie). The guard refuses by a mark on the object and lets every attribute through',
               'a guard WITHOUT skip_unauthorized is only run over trees in which nothing is refused (a refusal '
               'ends the request with Unauthorized, about which the statement says nothing); with only a '
               'guarded_getattr hook, or with no hook at all, skip_unauthorized has nothing to skip and the marks '
               'must not matter',
               'an expand_all request whose cookie additionally lists refused nodes / nodes whose children are all '
               'refused is filed under the mechanism key expand-all-puts-inaccessible-nodes-into-the-cookie '
               '(classifier: that and nothing else is wrong); the history is not continued past it',
               'header= / footer= / leaves= documents: the rows they add are recognised by their marks, counted and '
               'set aside, not judged; leaves= (like assume_children) may give a childless row a link, which then '
               'toggles that row',
               'branches may hand out a fresh list, the object\'s own list, a tuple or a sequence with only '
               '__len__ / __getitem__; that the engine leaves an own list unchanged is not demanded by itself '
               '(it shows in the rows of the next request when it matters)']
SHARD_TIMEOUT = {'quick': 600, 'thorough': 3000}
NSHARDS = {'quick': 16, 'thorough': 48}

MAXNODES = {'quick': 5, 'thorough': 7}
HISTLEN = {'quick': 4, 'thorough': 5}
RANDOM_TREES = {'quick': 480, 'thorough': 5000}
WILD_TREES = {'quick': 160, 'thorough': 1600}          # random trees with ids from all code points
GUARD_TREES = {'quick': 320, 'thorough': 3200}         # random trees with inaccessible nodes / option variants
GUARD_SCHEMES = ('ascii', 'same', 'int', 'mixed', 'uni', 'surr')
OPT_SCHEMES = ('ascii', 'mixed', 'urlish', 'long', 'ctrl')
CODEC_STATES = {'quick': 64000, 'thorough': 400000}
CODEC_WILD_STATES = {'quick': 24000, 'thorough': 150000}   # surrogate / control / scalar alphabets
PAIR_STATES = {'quick': 640, 'thorough': 4800}
MECH_PAIR = 'adjacent-high-low-surrogates-merge-in-json-text'
LEAFSTYLES = ('missing', 'empty', 'mixed')


def plan(tier, seed):
    return [{} for _ in range(NSHARDS[tier])]


# ---------------------------------------------------------------- monitors on the real functions
class Monitors:
    """Contract wrappers; problems are collected and reported with the current case."""

    def __init__(self, ctx):
        self.ctx = ctx
        self.problems = []
        self.mechs = []

    def install(self):
        from TreeDisplay import TreeTag
        ctx = self.ctx
        problems = self.problems
        # private names of TreeTag.py: a missing one switches its wrapper (a diagnostic) off, the
        # output-level comparisons go on; the codec workload needs encode_seq and decode_seq
        self.real_encode_seq = real_encode_seq = getattr(TreeTag, 'encode_seq', None)
        self.real_decode_seq = real_decode_seq = getattr(TreeTag, 'decode_seq', None)
        self.real_apply_diff = real_apply_diff = getattr(TreeTag, 'apply_diff', None)
        self.real_encode_str = getattr(TreeTag, 'encode_str', None)
        self.compress = getattr(TreeTag, 'compress', None)
        self.decompress = getattr(TreeTag, 'decompress', None)

        def encode_seq(state):
            r = real_encode_seq(state)
            ctx.count('monitor:encode_seq postconditions')
            try:
                dec, n = U.indep_decode(r)
                if not U.same_ids(dec, state):
                    problems.append('encode_seq(%s) decodes (independently) to %s'
                                    % (short(state), short(dec)))
            except U.FormError as e:
                problems.append('encode_seq(%s) -> %r: %s' % (short(state), r[:80], e))
            return r

        def decode_seq(value):
            r = real_decode_seq(value)
            ctx.count('monitor:decode_seq postconditions')
            try:
                dec, n = U.indep_decode(value)
                if not U.same_ids(dec, r):
                    problems.append('decode_seq(%r) = %s, independent decoder says %s'
                                    % (value[:80], short(r), short(dec)))
            except U.FormError:
                pass        # only engine-emitted values are fed; their form is judged where emitted
            return r

        def apply_diff(state, diff, expand):
            try:
                pre = U.paths_of(state)
            except (U.FormError, TypeError):
                pre = None
            d = tuple(diff)
            r = real_apply_diff(state, diff, expand)
            if pre is None or not d:
                return r
            ctx.count('monitor:apply_diff contracts')
            try:
                post = U.paths_of(state)
            except (U.FormError, TypeError) as e:
                problems.append('apply_diff left a malformed state: %s' % e)
                return r
            n = len(d)
            if expand:
                ctx.count('monitor:apply_diff expand')
                lo = pre | {d}
                hi = pre | {d[:i] for i in range(1, n + 1)}
                if not (lo <= post <= hi):
                    problems.append('apply_diff expand %s: state paths %s -> %s'
                                    % (short(d), short(sorted(pre, key=repr)), short(sorted(post, key=repr))))
            else:
                ctx.count('monitor:apply_diff collapse')
                want = {q for q in pre if q[:n] != d}
                if any(len(q) > n and q[:n] == d for q in pre):
                    ctx.count('monitor:apply_diff collapse with descendants in state')
                if post != want:
                    problems.append('apply_diff collapse %s: state paths %s -> %s, expected %s'
                                    % (short(d), short(sorted(pre, key=repr)), short(sorted(post, key=repr)),
                                       short(sorted(want, key=repr))))
            return r

        for f, real in ((encode_seq, real_encode_seq), (decode_seq, real_decode_seq),
                        (apply_diff, real_apply_diff)):
            if real is None:
                ctx.count('monitor:not installed (%s is gone)' % f.__name__)
                continue
            f.__wrapped__ = real
            setattr(TreeTag, f.__name__, f)


def size_bucket(n):
    if n < 171:
        return '%04d-%04d' % (n // 19 * 19, n // 19 * 19 + 18)
    if n < 570:
        return '%04d-%04d' % (n // 57 * 57, n // 57 * 57 + 56)
    return '%04d-%04d' % (n // 570 * 570, n // 570 * 570 + 569)


def short(x, n=240):
    s = x if isinstance(x, str) else repr(x)
    return s if len(s) <= n else s[:n] + '...(%d)' % len(s)


def safe(s):
    """Messages are printed by the driver: keep them encodable whatever the ids were."""
    return s.encode('utf-8', 'backslashreplace').decode('utf-8')


def slug(s):
    """Class of a problem message: its first words without ids, numbers and quoted data."""
    import re
    s = re.sub(r"'[^']*'|\"[^\"]*\"|\[.*?\]|\(.*?\)|\d+", ' ', s.split(':')[0])
    words = re.findall(r'[A-Za-z_]+', s)[:5]
    return '_'.join(words) or 'problem'


# ---------------------------------------------------------------- classifier of known mechanisms
def classify_raise(exc, browser):
    """Mechanism key of a known finding, or None.  Keyed by mechanism only."""
    m = browser.model
    if (isinstance(exc, TypeError) and browser.v['assume']
            and 'not iterable' in str(exc)
            and any(m.node_at(p) is not None and m.node_at(p).missing for p in m.expanded)):
        # assume_children drew an expand link on a childless object that has no branches
        # attribute at all; once that object is in the state, the renderer iterates over None
        return 'assume-children-expanded-leaf-without-branches-attribute'
    if (isinstance(exc, RuntimeError) and browser.v['prefix']
            and 'dictionary changed size during iteration' in str(exc)):
        # tpRender adds the prefixed copies of its variables to the dict it is iterating over
        return 'prefix-option-mutates-dict-while-iterating'
    return None


MECH_EXPAND_ALL = 'expand-all-puts-inaccessible-nodes-into-the-cookie'


def classify_problems(browser, effect, problems):
    """Mechanism key of a known finding for a page that rendered but was judged wrong, or None.

    expand_all builds its state by walking the branches WITHOUT the security filter the rows go
    through: under a guarded template with skip_unauthorized the cookie then also lists (a) nodes
    the guard refuses (never shown) and what lies below them, and (b) shown nodes all of whose
    children are refused (shown childless, no link).  Claimed only when that is ALL that is wrong:
    the request is an expand_all, rows and links were right, the cookie misses nothing, and every
    extra path names a node of the recipe that has children and is of kind (a) or (b)."""
    if not (browser.filter and browser.hidden and effect == ('all',)):
        return None
    if len(problems) != 1 or not problems[0].startswith('cookie describes') or not browser.cookie_diff:
        return None
    extra, missing = browser.cookie_diff
    if missing or not extra:
        return None
    root = browser.model.root
    for p in extra:
        if not p or not U.same_ids(p[0], root.mid):
            return None
        node, through_secret = root, False
        for x in p[1:]:
            nxt = [c for c in node.allchildren if U.same_ids(c.mid, x)]
            if len(nxt) != 1:
                return None
            node = nxt[0]
            through_secret = through_secret or node.secret
        if not node.allchildren:
            return None
        if not (through_secret or not node.children):
            return None
    return MECH_EXPAND_ALL


# ---------------------------------------------------------------- the browser
class Browser:
    def __init__(self, ctx, mon, templates, vname, spec, treekey):
        self.ctx = ctx
        self.mon = mon
        self.vname = vname
        self.v = v = U.variant(vname)
        src = U.template_source(v)
        # one compiled template per (class, source) and shard: it is rendered again and again
        # for other trees, other users' cookies, other histories
        t = templates.get((v['guard'], src))
        if t is None:
            t = templates[(v['guard'], src)] = U.template_class(v['guard'])(src)
            t.cook()
        self.docs = {}
        if v['decor']:
            for name, mark in U.DECOR_MARKS.items():
                d = templates.get(('doc', name))
                if d is None:
                    d = templates[('doc', name)] = U.template_class(None)(U.DECOR_SOURCE % mark)
                self.docs[name] = d
        self.src = src
        self.tmpl = t
        self.spec = spec
        self.treekey = treekey
        self.rootobj, mroot = U.build(spec, v)
        self.model = Model(mroot, v)
        self.nontrivial = bool(self.model.internal_paths())
        self.filter = v['filter']
        self.hidden = self.filter and any(n.secret for n in all_nodes(mroot))
        self.cookie_diff = None
        # which expandable nodes carry an id of the wider str space (evidence that such ids were
        # in the state that the cookie had to carry, not merely somewhere in the tree)
        self.lone_paths = {p for p in self.model.internal_paths() if U.has_lone(p[-1])}
        self.ctrl_paths = {p for p in self.model.internal_paths() if U.has_ctrl(p[-1])}
        self.cookie = None
        self.page = None
        self.last_form = None
        self.last_effect = None
        self.history = []
        self.last_out = None

    # -- BFS support
    def key(self):
        return (self.cookie, frozenset(self.model.expanded))

    def snapshot(self):
        return (self.cookie, frozenset(self.model.expanded), self.page, self.last_form,
                self.last_effect, tuple(self.history))

    def restore(self, snap):
        self.cookie, exp, self.page, self.last_form, self.last_effect, hist = snap
        self.model.expanded = set(exp)
        self.history = list(hist)

    def case(self, action):
        return {'kind': 'history', 'variant': self.vname, 'spec': self.spec, 'treekey': self.treekey,
                'history': self.history + [action]}

    def count_filtered(self, want):
        """Evidence that the security filter had something to do: per folder whose children are
        listed on this page (the root and every expanded row), how many children the guard
        refuses and where they stand."""
        ctx = self.ctx
        m = self.model
        ctx.count('guard:requests with the filter active')
        ctx.count('guard:rows compared under the filter', len(want))
        folders = [m.root] + [n for n in want if n.children and m.path_of[n.tok] in m.expanded]
        for f in folders:
            flags = [c.secret for c in f.allchildren]
            k = sum(flags)
            if not k:
                continue
            ctx.count('guard:folders listed with %s inaccessible' % ('1 child' if k == 1 else '>= 2 children'))
            if k >= 2:
                if flags[-1]:
                    ctx.count('guard:folders listed with >= 2 inaccessible children, the last child one of them')
                first = flags.index(True)
                if not all(flags[first:first + k]):
                    ctx.count('guard:folders listed with >= 2 inaccessible children, accessible ones in between')
                if not all(flags[len(flags) - k:]):
                    ctx.count('guard:folders listed with >= 2 inaccessible children, an accessible one after them')
            if k == len(flags):
                ctx.count('guard:folders listed whose children are all inaccessible')
            if any(c.allchildren for c in f.allchildren if c.secret):
                ctx.count('guard:folders listed with an inaccessible child that has children')

    def links_of(self, tok):
        for t, links in self.page or ():
            if t == tok:
                return links
        return []

    def step(self, action):
        """Send one request; check the response.  False when a violation was reported
        (or the action does not exist on the current page)."""
        ctx = self.ctx
        m = self.model
        kind = action[0]
        if kind in ('open', 'reload'):
            form, effect = [], None
        elif kind == 'expand_all':
            form, effect = [('expand_all', '1')], ('all',)
        elif kind == 'collapse_all':
            form, effect = [('collapse_all', '1')], ('none',)
        elif kind == 'click':
            links = self.links_of(action[1])
            if not links:
                ctx.count('harness:click on a row without link skipped')
                return False
            form = links[0][2]
            path = m.path_of[action[1]]
            effect = ('collapse', path) if path in m.expanded else ('expand', path)
        elif kind == 'refresh':
            if self.last_form is None:
                return False
            form, effect = self.last_form, self.last_effect
        else:
            raise ValueError(action)
        # described by the history (deterministic); BFS evaluates each (state, action) once
        ctx.case((self.vname, self.treekey, tuple(map(tuple, self.history)), tuple(action)),
                 self.nontrivial)
        ctx.count('requests:' + kind)
        case = self.case(action)
        # model transition
        if effect:
            if effect[0] == 'all':
                m.expanded = set(m.internal_paths())
            elif effect[0] == 'none':
                m.expanded = set()
            elif effect[0] == 'expand':
                m.expand(effect[1])
            else:
                if m.has_expanded_descendants(effect[1]):
                    ctx.count('histories:collapse of a node with expanded descendants')
                m.collapse(effect[1])
        # the request, as a browser would send it
        resp = U.Response()
        request = {'URL': self.v['url'], 'RESPONSE': resp}
        request.update(self.docs)
        if self.cookie is not None:
            request['tree-s'] = self.cookie
        request.update(form)            # form values win over cookies, as in a Zope REQUEST
        client = None
        if self.v['how'] == 'this':
            client = self.rootobj
        else:
            request['root'] = self.rootobj
        del self.mon.problems[:]
        try:
            out = self.tmpl(client, request)
        except Exception as e:
            mech = classify_raise(e, self)
            ctx.violation(safe('request %s raised %s: %s' % (kind, type(e).__name__, str(e)[:160])), case,
                          mech=mech, key='raise_%s_%s' % (self.vname, type(e).__name__),
                          detail={'cookie': self.cookie, 'form': form, 'source': self.src})
            return False
        self.last_out = out
        problems = list(self.mon.problems)
        self.cookie_diff = None
        if self.v['decor']:
            out, marks = U.strip_decor(out)
            for mk in marks:
                ctx.count('decor:%s rows set aside' % mk)
        cookie, page = self.check_page(out, resp, problems)
        if problems:
            ctx.violation(safe('; '.join(problems[:3])), case,
                          mech=classify_problems(self, effect, problems),
                          key='hist_%s_%s' % (self.vname, slug(problems[0])),
                          detail={'cookie_before': self.cookie, 'form': form, 'source': self.src,
                                  'output': safe(out[:1500]) if isinstance(out, str) else repr(out)[:300],
                                  'cookies': [c[:2] for c in resp.cookies][:3],
                                  'model_expanded': sorted(map(list, m.expanded), key=repr)[:40]})
            return False
        self.history.append(action)
        self.cookie = cookie
        self.page = page
        self.last_form = form
        self.last_effect = effect
        return True

    def check_page(self, out, resp, problems):
        ctx = self.ctx
        m = self.model
        mon = self.mon
        page = None
        try:
            page = U.parse_page(out)
        except U.PageError as e:
            problems.append('page: %s' % e)
        if page is not None:
            want = m.rows()
            got = [t for t, _ in page]
            ctx.count('rows:compared', len(want))
            if self.filter:
                self.count_filtered(want)
            if got != [n.tok for n in want]:
                problems.append('rows shown %r, expected %r (depth-first over the expanded set)'
                                % (got[:30], [n.tok for n in want][:30]))
            else:
                for (tok, links), node in zip(page, want):
                    path = m.path_of[tok]
                    if not node.children:
                        if links:
                            ctx.count('links:on childless rows (assume_children)')
                        continue
                    ctx.count('links:nodes with children checked')
                    if len(links) != 1:
                        problems.append('node T%d with children carries %d links' % (tok, len(links)))
                    wantkind = 'tree-c' if path in m.expanded else 'tree-e'
                    full = m.full(path)
                    for lkind, value, form, raw in links:
                        ctx.count('links:' + lkind)
                        if lkind != wantkind:
                            problems.append('node T%d is %s but its link is %s'
                                            % (tok, 'expanded' if path in m.expanded else 'collapsed', lkind))
                        if value != raw:
                            problems.append('link value %r does not survive URL query decoding (%r)'
                                            % (raw[:60], value[:60]))
                        if '=' in raw:
                            ctx.count('form:values with = padding')
                        try:
                            dec, n = U.indep_decode(value)
                        except U.FormError as e:
                            problems.append('link of T%d: %s' % (tok, e))
                            continue
                        if n > 57:
                            ctx.count('histories:link over 57 compressed bytes')
                        if self.lone_paths and U.has_lone(path[-1]):
                            ctx.count('ids:links of unpaired-surrogate ids')
                        if self.ctrl_paths and U.has_ctrl(path[-1]):
                            ctx.count('ids:links of control-character ids')
                        if not U.same_ids(dec, full):
                            problems.append('link of T%d names %s, the node is %s'
                                            % (tok, short(dec, 100), short(full, 100)))
                        if mon.real_decode_seq is None:
                            continue
                        try:
                            edec = mon.real_decode_seq(value)
                        except Exception as e:
                            problems.append('decode_seq fails on the link of T%d: %s: %s'
                                            % (tok, type(e).__name__, e))
                            continue
                        if not U.same_ids(edec, full):
                            problems.append('decode_seq reads the link of T%d as %s, the node is %s'
                                            % (tok, short(edec, 100), short(full, 100)))
        cookies = [c for c in resp.cookies if c[0] == 'tree-s']
        if not cookies:
            problems.append('no tree-s cookie written')
        rootid = m.root.mid
        want = {(rootid,) + p for p in m.expanded} | {(rootid,)}
        cookie = self.cookie
        for name, value, kw in cookies:
            ctx.count('cookies:checked')
            cookie = value
            if not U.transport_safe(value):
                problems.append('cookie value %r is not transport safe' % (value,))
                continue
            if '=' in value:
                ctx.count('form:values with = padding')
            try:
                dec, n = U.indep_decode(value)
                got = U.paths_of(dec) | {(rootid,)}
            except U.FormError as e:
                problems.append('cookie: %s' % e)
                continue
            ctx.table('cookie compressed bytes', size_bucket(n))
            if n > 57:
                ctx.count('histories:cookie over 57 compressed bytes')
            if len(value) > 76:
                ctx.count('histories:cookie over 76 characters')
            if self.lone_paths and not self.lone_paths.isdisjoint(m.expanded):
                ctx.count('ids:cookies carrying an expanded unpaired-surrogate id')
            if self.ctrl_paths and not self.ctrl_paths.isdisjoint(m.expanded):
                ctx.count('ids:cookies carrying an expanded control-character id')
            if got != want:
                self.cookie_diff = (got - want, want - got)
                problems.append('cookie describes %s, expanded set is %s'
                                % (short(sorted(got - want, key=repr), 120) + ' extra / ' +
                                   short(sorted(want - got, key=repr), 120) + ' missing',
                                   short(sorted(map(list, m.expanded), key=repr), 160)))
            if mon.real_decode_seq is None:
                continue
            try:
                edec = mon.real_decode_seq(value)
            except Exception as e:
                problems.append('decode_seq fails on the cookie just written: %s: %s' % (type(e).__name__, e))
                continue
            if not U.same_ids(edec, dec):
                problems.append('decode_seq reads the cookie as %s, independent decoder %s'
                                % (short(edec, 100), short(dec, 100)))
        return cookie, page


def all_nodes(mnode):
    """Every node of the recipe below mnode, the inaccessible ones included."""
    for c in mnode.allchildren:
        yield c
        yield from all_nodes(c)


class Model(U.Model):
    def node_at(self, path):
        for t, p in self.path_of.items():
            if p == path:
                return self.by_tok[t]
        return None


# ---------------------------------------------------------------- workloads
def bfs(ctx, mon, templates, vname, spec, treekey, maxlen):
    b = Browser(ctx, mon, templates, vname, spec, treekey)
    ctx.count('bfs:explorations')
    if not b.step(['open']):
        return
    seen = {b.key()}
    frontier = [b.snapshot()]
    for depth in range(maxlen):
        nxt = []
        for snap in frontier:
            b.restore(snap)
            actions = [['click', tok] for tok, links in b.page if links]
            actions += [['expand_all'], ['collapse_all'], ['reload'], ['refresh']]
            for a in actions:
                b.restore(snap)
                if not b.step(a):
                    continue
                k = b.key()
                if k not in seen:
                    seen.add(k)
                    nxt.append(b.snapshot())
        frontier = nxt
        if not frontier:
            break
    ctx.count('bfs:distinct (cookie, model) states', len(seen))
    ctx.table('bfs states per exploration', min(len(seen), 64) if len(seen) < 64 else '64+')
    return b


def random_history(ctx, mon, templates, rng, vname, spec, treekey, steps):
    b = Browser(ctx, mon, templates, vname, spec, treekey)
    ctx.count('random:histories')
    if not b.step(['open']):
        return b
    done = 0
    for _ in range(steps):
        linked = [(tok, links) for tok, links in b.page if links]
        exp = [t for t, l in linked if l[0][0] == 'tree-e']
        col = [t for t, l in linked if l[0][0] == 'tree-c']
        r = rng.random()
        if linked and r < 0.80:
            if col and (not exp or rng.random() < 0.35):
                # prefer nodes whose collapse has something to forget
                deep = [t for t in col if b.model.has_expanded_descendants(b.model.path_of[t])]
                pool = deep if deep and rng.random() < 0.5 else col
            else:
                pool = exp or col
            a = ['click', rng.choice(pool)]
        elif r < 0.86:
            a = ['expand_all']
        elif r < 0.89:
            a = ['collapse_all']
        elif r < 0.95:
            a = ['reload']
        else:
            a = ['refresh']
        if not b.step(a):
            if a[0] == 'refresh' and b.last_form is None:
                continue
            break
        done += 1
    ctx.count('random:steps', done)
    ctx.table('random history length', '%02d-%02d' % (done // 10 * 10, done // 10 * 10 + 9))
    return b


# ---- codec
def codec_case(form, state):
    """Replayable description of a codec state.  A replay file is JSON: it could not hold an
    adjacent surrogate pair (json.load would hand back the astral character), so such states
    travel as an ASCII Python literal."""
    if any(U.has_pair(x) for x in U.ids_of(state)):
        return {'kind': 'codec', 'form': form, 'state_literal': ascii(state)}
    return {'kind': 'codec', 'form': form, 'state': state}


def codec_check(ctx, mon, state, form, pairs=False):
    """One state through the engine's encoder and decoder, and through the independent decoder.

    pairs: the state holds an id with an adjacent high+low surrogate pair (pair probe).  The
    demand is the same (the state comes back unchanged); a result that differs from the state
    ONLY by such pairs having become astral characters is filed under MECH_PAIR."""
    case = codec_case(form, state)
    try:
        if form == 'seq':
            enc = mon.real_encode_seq(state)
        else:
            enc = mon.real_encode_str(mon.compress(json.dumps(state, ensure_ascii=False))).decode('ascii')
    except Exception as e:
        ctx.case(('codec', form, repr(state)), bool(state))
        ctx.violation(safe('encoding raised %s: %s' % (type(e).__name__, str(e)[:120])), case,
                      key='codec_encode_raise_%s' % type(e).__name__,
                      detail={'state': ascii(state)[:600]})
        return None
    ctx.case(('codec', form, enc), bool(state))
    ctx.count('codec:%s states' % form)
    if pairs:
        ctx.count('codec:states with an adjacent surrogate pair')
    else:
        lone = ctrl = False
        for x in U.ids_of(state):
            if isinstance(x, str):
                lone = lone or U.has_lone(x)
                ctrl = ctrl or U.has_ctrl(x)
        if lone:
            ctx.count('codec:states with unpaired surrogates')
        if ctrl:
            ctx.count('codec:states with control characters')
    problems = []
    merged = []        # the results that differ from the state by merged pairs only
    want_merged = U.merge_pairs(state) if pairs else None
    n = None
    if not U.transport_safe(enc):
        problems.append('encoded value is not transport safe: %r' % enc[:80])
    if '=' in enc:
        ctx.count('form:values with = padding')
    try:
        dec, n = U.indep_decode(enc)
        if not U.same_ids(dec, state):
            problems.append('independent decoder reads %s' % short(dec, 160))
            merged.append(pairs and U.same_ids(dec, want_merged))
    except U.FormError as e:
        problems.append(str(e))
        merged.append(False)
    try:
        edec = mon.real_decode_seq(enc)
        if not U.same_ids(edec, state):
            problems.append('decode_seq(encode(state)) = %s' % short(edec, 160))
            merged.append(pairs and U.same_ids(edec, want_merged))
    except Exception as e:
        problems.append('decode_seq raised %s: %s' % (type(e).__name__, str(e)[:100]))
        merged.append(False)
    if pairs and not problems:
        ctx.count('codec:adjacent surrogate pairs that came back apart')
    if problems:
        mech = MECH_PAIR if pairs and len(merged) == len(problems) and all(merged) else None
        ctx.violation(safe('codec (%s form, %s compressed bytes, %d characters): %s'
                           % (form, n, len(enc), '; '.join(problems[:3]))), case, mech=mech,
                      key='codec_%s_%s' % (form, slug(problems[0])),
                      detail={'encoded': enc[:600], 'state': ascii(state)[:600]})
    return n


CODEC_ALPHABETS = {
    'ascii': U.ASCII_ALPHA + '<>"[]\n\t',
    'uni': ''.join(chr(c) for lo, hi in U.UNI_RANGES for c in range(lo, min(hi, lo + 40) + 1)),
    'hostile': '+-=/%&;, \\"\'\x00\x7f\ufffe\U0010ffff\u2028',
    # the rest of the str value space (no high surrogate is ever put directly before a low one)
    'surr': 'ab.\xe9\u65e5\U0001f600\U0010fffd\ud800\udbff\udb80\ud83d\udc00\udfff\udcff\ude00',
    'ctrl': ''.join(map(chr, range(0x20))) + '\x7f\x80\x85\x9f\xa0\xad\u2028\u2029\u200b\u202e\ufeff\ufffd'
            '\ufffe\uffff\U0001fffe\U0010ffff\\u"\'/b',
}
OLD_ALPHABETS = ['ascii', 'ascii', 'uni', 'hostile']
WILD_ALPHABETS = ['surr', 'surr', 'ctrl', 'ascii', 'uni']
SCALARS = [True, False, None, 0.0, -0.0, 0.5, -1.5, 1e308, 5e-324, 1e22, 0.1, 2.0 ** 53 + 2]


def glue(s, c):
    """s + c, unless that would put a high surrogate directly before a low one."""
    return s if U.has_pair(s[-1:] + c) else s + c


LARGE_TEXT_SIZES = (1000, 2040, 4090, 4096, 4097, 4200, 8191, 8192, 8200, 16384, 32768, 65536, 70000, 200000)


def codec_large(ctx, mon, rng, sizes):
    """States whose JSON text is large ("any state size"): wide and deep states of long ids, repetitive
    (compress well: a small cookie that inflates to many kilobytes) and random (compress badly); the text
    length straddles the powers of two a bounded inflate buffer would use."""
    targets = [t for i, t in enumerate(LARGE_TEXT_SIZES) if i % ctx.nshards == ctx.shard % len(LARGE_TEXT_SIZES)] \
        or [rng.choice(LARGE_TEXT_SIZES)]
    for target in targets:
        for style in ('repetitive', 'random', 'deep'):
            for form in ('seq', 'str'):
                alpha = CODEC_ALPHABETS[rng.choice(['ascii', 'uni'])]
                ids = []
                total = 0
                while total < target:
                    k = rng.choice([3, 12, 40, 200])
                    if style == 'repetitive':
                        x = 'node-%d-' % len(ids) + 'ab' * (k // 2)
                    else:
                        x = ''.join(rng.choice(alpha) for _ in range(k)) + str(len(ids))
                    ids.append(x)
                    total += len(json.dumps(x, ensure_ascii=False)) + 4
                if form == 'str':
                    state = ids
                elif style == 'deep':
                    # a spine 30 levels deep; the other ids hang off its last level
                    state = level = []
                    for i, x in enumerate(ids):
                        e = [x, []]
                        level.append(e)
                        if i < 30:
                            level = e[1]
                else:
                    state = [[x] if i % 3 else [x, [[y] for y in ids[i + 1:i + 3]]] for i, x in enumerate(ids)]
                ctx.count('codec:large states')
                ctx.table('codec large states (JSON text length)', '%s %s >= %d' % (form, style, target))
                n = codec_check(ctx, mon, state, form)
                if n is not None:
                    sizes[form].add(n)


def codec_paths(ctx, mon, rng, budget, sizes, alphabets=OLD_ALPHABETS, wild=False):
    """Growth paths: a nested state grows by one character or one entry per step; every
    intermediate state is checked, so the compressed size walks through the thresholds.

    wild: the second batch -- surrogate / control alphabets and, on some paths, ids that are
    float / bool / None (the statement says "any node ids"; JSON scalars are what a state holds)."""
    done = 0
    while done < budget:
        form = 'seq' if rng.random() < 0.75 else 'str'
        aname = rng.choice(alphabets)
        alpha = CODEC_ALPHABETS[aname]
        ints = rng.random() < 0.3
        scalars = wild and rng.random() < 0.25
        limit = rng.choice([70, 130, 130, 250, 420, 420, 700])
        ctx.count('codec:growth paths')
        if wild:
            ctx.table('codec wild alphabets', aname + ('+scalars' if scalars else ''))

        def fresh():
            if ints and rng.random() < 0.5:
                return rng.choice([rng.randint(-9, 99), rng.randint(-2 ** 70, 2 ** 70)])
            if scalars and rng.random() < 0.4:
                ctx.count('codec:float / bool / None ids')
                return rng.choice([rng.choice(SCALARS), rng.uniform(-1, 1) * 10 ** rng.randint(-9, 30)])
            out = ''
            for _ in range(rng.choice([0, 1, 1, 2, 8])):
                out = glue(out, rng.choice(alpha))
            return out

        if form == 'seq':
            state = [[fresh()]]
            holders = [state[0]]          # entries [id] / [id, children]
            levels = [state]
        else:
            state = [fresh()]
        pchar = rng.choice([0.3, 0.7, 0.95])
        steps = 0
        while done < budget and steps < 4000:
            steps += 1
            n = codec_check(ctx, mon, state, form)
            done += 1
            if n is None:
                break
            sizes[form].add(n)
            if n > limit:
                break
            if form == 'str':
                i = rng.randrange(len(state))
                if isinstance(state[i], str) and rng.random() < pchar:
                    state[i] = glue(state[i], rng.choice(alpha))
                else:
                    state.append(fresh())
                continue
            if rng.random() < pchar:
                h = rng.choice(holders)
                if isinstance(h[0], str):
                    h[0] = glue(h[0], rng.choice(alpha))
                    continue
            # a new entry: child of a random entry or sibling at a random level
            e = [fresh()] if rng.random() < 0.7 else [fresh(), []]
            if rng.random() < 0.5:
                h = rng.choice(holders)
                if len(h) == 1:
                    h.append([])
                lvl = h[1]
            else:
                lvl = rng.choice(levels)
            if any(U.same_ids(x[0], e[0]) for x in lvl):
                continue
            lvl.append(e)
            holders.append(e)
            if len(e) == 2:
                levels.append(e[1])
        # compress / decompress are inverse on text
        text = alpha * rng.randint(0, 3)
        if U.has_lone(text):
            # compress() takes the JSON text of a state; it is not asked to carry what UTF-8 cannot
            text = json.dumps(text)
        ctx.count('codec:compress/decompress round trips')
        try:
            back = mon.decompress(mon.compress(text))
            if back != text:
                ctx.violation('decompress(compress(text)) != text', {'kind': 'zip', 'text': text},
                              key='codec_zip')
        except Exception as e:
            ctx.violation('compress/decompress raised %s: %s' % (type(e).__name__, e),
                          {'kind': 'zip', 'text': text}, key='codec_zip_raise')


def pair_probe(ctx, mon, rng, budget):
    """States in which some id holds a high surrogate directly followed by a low one.  Same
    demand as everywhere (the state comes back unchanged); see codec_check(pairs=True)."""
    his = '\ud800\ud83d\udbff'
    los = '\udc00\ude00\udfff'
    fill = 'ab \xe9\u65e5\U0001f600\udc80\ud801'
    for _ in range(budget):
        def pid():
            out = ''
            for _ in range(rng.choice([0, 0, 1, 3])):
                out = glue(out, rng.choice(fill))
            out += rng.choice(his) + rng.choice(los)
            for _ in range(rng.choice([0, 0, 1, 3])):
                out += rng.choice(fill)
            return out

        def plain():
            out = ''
            for _ in range(rng.choice([1, 2, 6])):
                out = glue(out, rng.choice(fill))
            return out
        form = 'seq' if rng.random() < 0.75 else 'str'
        n = rng.randint(1, 6)
        ids = [pid() if i == 0 or rng.random() < 0.3 else plain() for i in range(n)]
        rng.shuffle(ids)
        if form == 'str':
            state = ids
        else:
            # a chain with side entries: [[id0, [[id1, [[id2]]], [id3]]]]
            state = []
            lvl = state
            for x in ids:
                e = [x, []]
                lvl.append(e)
                if rng.random() < 0.7:
                    lvl = e[1]
            def prune(entries):
                for e in entries:
                    if e[1]:
                        prune(e[1])
                    else:
                        del e[1]
            prune(state)
        codec_check(ctx, mon, state, form, pairs=True)


def critical_sizes(form):
    ms = range(1, 7) if form == 'seq' else range(1, 3)
    return sorted({m * 57 + d for m in ms for d in (-1, 0, 1)})


# ---------------------------------------------------------------- run
def bfs_jobs(tier):
    """Deterministic job list: every shape x every id scheme x every variant; the leaf style
    (no branches attribute / empty branches / alternating) rotates so that each (shape, variant)
    and each (scheme, variant) pair meets all three."""
    jobs = []
    i = 0
    names = list(U.VARIANTS)
    for n in range(1, MAXNODES[tier] + 1):
        for shape in U.shapes(n):
            for scheme in U.SCHEMES:
                i += 1
                for j, vname in enumerate(names):
                    jobs.append((shape, scheme, LEAFSTYLES[(i + j) % 3], vname))
    # the id schemes of the wider str space, appended (the list above is unchanged by them)
    i = 0
    for n in range(1, MAXNODES[tier] + 1):
        for shape in U.shapes(n):
            for scheme in U.SCHEMES_WILD:
                i += 1
                for j, vname in enumerate(names):
                    jobs.append((shape, scheme, LEAFSTYLES[(i + j) % 3], vname))
    return jobs


def guard_jobs(tier):
    """Deterministic job list of the guarded / option variants.

    Filter active (VARIANTS_GUARD): every shape x EVERY way to make nodes inaccessible (every set
    of non-root nodes none of which lies below another one; the empty set included), each with
    two of the variants and one id scheme, rotating (periods 7 / 6 / 3 are coprime).
    Nothing filtered (VARIANTS_OPT): every shape x every variant, every second node marked."""
    jobs = []
    gnames = list(U.VARIANTS_GUARD)
    i = 0
    for n in range(2, MAXNODES[tier] + 1):
        for shape in U.shapes(n):
            for secrets in U.secret_sets(shape):
                i += 1
                scheme = GUARD_SCHEMES[i % len(GUARD_SCHEMES)]
                for j in range(2):
                    vname = gnames[(2 * i + j) % len(gnames)]
                    jobs.append((shape, scheme, LEAFSTYLES[(i + j) % 3], vname, secrets))
    i = 0
    for n in range(1, MAXNODES[tier] + 1):
        for shape in U.shapes(n):
            for j, vname in enumerate(U.VARIANTS_OPT):
                i += 1
                jobs.append((shape, OPT_SCHEMES[i % len(OPT_SCHEMES)], LEAFSTYLES[(i + j) % 3], vname,
                             U.alternate_secrets(shape)))
    return jobs


def run(ctx, spec):
    from TreeDisplay import TreeTag
    from vlib.reach import Reach
    reach = Reach()
    for name in ANCHORS:
        f = getattr(TreeTag, name, None)
        if f is None:       # renamed / inlined: the anchor is diagnosis, see finish()
            ctx.count('reach:missing TreeTag.' + name)
            continue
        reach.watch('TreeTag.' + name, f)
    reach.start()
    mon = Monitors(ctx)
    mon.install()
    templates = {}
    rng = ctx.rng
    tier = ctx.tier

    # 1. exhaustive shapes x schemes x variants, breadth-first histories
    sampled = 0
    for i, (shape, scheme, leafstyle, vname) in enumerate(bfs_jobs(tier)):
        if i % ctx.nshards != ctx.shard:
            continue
        tspec = U.spec_from_shape(shape, scheme, leafstyle)
        treekey = '%s/%s/%s' % (U.shape_key(shape), scheme, leafstyle)
        ctx.table('shapes by node count', U.spec_size(tspec))
        ctx.table('shapes by depth', U.shape_depth(shape))
        ctx.table('id schemes', scheme)
        ctx.table('variants (bfs)', vname)
        b = bfs(ctx, mon, templates, vname, tspec, treekey, HISTLEN[tier])
        if (b is not None and sampled < 2 and len(b.history) >= 4 and b.page and len(b.page) >= 3
                and any(l for t, l in b.page) and scheme in ('uni', 'mixed', 'urlish')):
            sampled += 1
            ctx.sample({'template': b.src, 'tree': treekey, 'history': b.history,
                        'cookie': b.cookie, 'cookie_decoded': U.indep_decode(b.cookie)[0],
                        'rows': [t for t, _ in b.page],
                        'links': [[t, l[0][0], U.indep_decode(l[0][1])[0]] for t, l in b.page if l]})

    # 1b. guarded template classes x skip_unauthorized x inaccessible nodes; option variants
    for i, (shape, scheme, leafstyle, vname, secrets) in enumerate(guard_jobs(tier)):
        if i % ctx.nshards != ctx.shard:
            continue
        tspec = U.spec_from_shape(shape, scheme, leafstyle, secrets)
        treekey = '%s/%s/%s/sec%s' % (U.shape_key(shape), scheme, leafstyle, '.'.join(map(str, sorted(secrets))))
        filt = vname in U.VARIANTS_GUARD
        ctx.table('variants (guard bfs)' if filt else 'variants (option bfs)', vname)
        if filt:
            ctx.table('inaccessible nodes per tree (guard bfs)', len(secrets))
        bfs(ctx, mon, templates, vname, tspec, treekey, HISTLEN[tier])

    # 2. random larger trees x random histories
    ntrees = RANDOM_TREES[tier] // ctx.nshards
    vnames = list(U.VARIANTS)
    for j in range(ntrees):
        tspec = U.random_spec(rng, 60)
        vname = rng.choice(vnames)
        treekey = 'random/%d/%d/%d' % (ctx.seed, ctx.shard, j)
        ctx.table('random tree nodes', '%02d-%02d' % (U.spec_size(tspec) // 10 * 10, U.spec_size(tspec) // 10 * 10 + 9))
        ctx.table('variants (random)', vname)
        b = random_history(ctx, mon, templates, rng, vname, tspec, treekey, rng.randint(5, 40))
        if j == 0 and b.page and b.cookie:
            ctx.sample({'template': b.src, 'tree': treekey, 'nodes': U.spec_size(tspec),
                        'history': b.history[:12], 'cookie': short(b.cookie, 200),
                        'rows': [t for t, _ in b.page][:30]})

    # 2b. random trees whose ids come from all code points (unpaired surrogates, controls, ...)
    for j in range(WILD_TREES[tier] // ctx.nshards):
        tspec = U.random_spec(rng, 40, U.WILD_STYLES)
        vname = rng.choice(vnames)
        treekey = 'wild/%d/%d/%d' % (ctx.seed, ctx.shard, j)
        ctx.count('random:trees with ids from all code points')
        ctx.table('variants (random)', vname)
        random_history(ctx, mon, templates, rng, vname, tspec, treekey, rng.randint(5, 30))

    # 3. codec growth paths
    sizes = {'seq': set(), 'str': set()}
    if None in (mon.real_encode_seq, mon.real_decode_seq, mon.real_encode_str, mon.compress, mon.decompress):
        ctx.inconclusive('codec workload not run: encode_seq / decode_seq / encode_str / compress / '
                         'decompress are not all present in TreeDisplay.TreeTag')
    else:
        codec_paths(ctx, mon, rng, CODEC_STATES[tier] // ctx.nshards, sizes)
        codec_paths(ctx, mon, rng, CODEC_WILD_STATES[tier] // ctx.nshards, sizes, WILD_ALPHABETS, wild=True)
        pair_probe(ctx, mon, rng, PAIR_STATES[tier] // ctx.nshards)
        codec_large(ctx, mon, rng, sizes)
    # 4. random trees with inaccessible nodes under the guarded / option variants (after the codec part: the
    #    random streams of the older parts stay what they were)
    gnames = list(U.VARIANTS_GUARD) * 2 + list(U.VARIANTS_OPT)
    for j in range(GUARD_TREES[tier] // ctx.nshards):
        tspec = U.random_spec(rng, 40, U.WILD_STYLES if rng.random() < 0.25 else None)
        nsec = U.sprinkle_secrets(tspec, rng, rng.choice([0.1, 0.25, 0.25, 0.5]))
        vname = rng.choice(gnames)
        treekey = 'guard/%d/%d/%d' % (ctx.seed, ctx.shard, j)
        ctx.count('random:trees with inaccessible nodes')
        ctx.table('random trees, marked nodes', '%02d-%02d' % (nsec // 5 * 5, nsec // 5 * 5 + 4))
        ctx.table('variants (random, guard / option)', vname)
        random_history(ctx, mon, templates, rng, vname, tspec, treekey, rng.randint(5, 30))

    for form in sizes:
        for s in critical_sizes(form):
            if s in sizes[form]:
                ctx.table('codec %s critical compressed sizes hit' % form, '%03d' % s)
        for s in sizes[form]:
            ctx.table('codec %s compressed size' % form, '%03d-%03d' % (s // 57 * 57, s // 57 * 57 + 56))
    reach.stop()
    reach.report(ctx)


ANCHORS = ('encode_seq', 'decode_seq', 'encode_str', 'compress', 'decompress', 'apply_diff',
           'tpRender', 'tpRenderTABLE', 'tpStateLevel', 'tpValuesIds')
# The verdict rests on what the engine EMITS (rows, links, cookies, encoded strings) read by the
# independent decoder.  The anchors above and the contract wrappers on apply_diff / encode_seq /
# decode_seq look at private functions of TreeTag.py; when one of them is not entered (renamed,
# inlined) that is reported as a diagnostic, and it makes the run inconclusive only if the
# output-level comparison it backs up was not evaluated either.
OUTPUT_LEVEL = ('rows:compared', 'links:nodes with children checked', 'links:tree-e', 'links:tree-c',
                'cookies:checked')
INTERNAL = ('monitor:encode_seq postconditions', 'monitor:decode_seq postconditions',
            'monitor:apply_diff expand', 'monitor:apply_diff collapse',
            'monitor:apply_diff collapse with descendants in state')


def finish(agg):
    c = agg['counters']
    t = agg['tables']
    inc = []
    diagnostics = []
    output_ok = all(c.get(k) for k in OUTPUT_LEVEL)
    for r in ANCHORS:
        if not c.get('reach:TreeTag.' + r):
            (diagnostics if output_ok else inc).append('anchor never entered: TreeTag.' + r)
    for k in INTERNAL:
        if not c.get(k):
            (diagnostics if output_ok else inc).append('internal monitor never evaluated: ' + k)
    for k in OUTPUT_LEVEL:
        if not c.get(k):
            inc.append('deciding monitor never evaluated: ' + k)
    for k in ('histories:collapse of a node with expanded descendants',
              'histories:cookie over 57 compressed bytes', 'histories:cookie over 76 characters',
              'histories:link over 57 compressed bytes',
              'requests:click',
              'requests:expand_all', 'requests:collapse_all', 'requests:reload', 'requests:refresh',
              'codec:seq states', 'codec:str states',
              # the wider id space must have been IN the state the cookie / the link carried
              'ids:cookies carrying an expanded unpaired-surrogate id',
              'ids:cookies carrying an expanded control-character id',
              'ids:links of unpaired-surrogate ids', 'ids:links of control-character ids',
              'random:trees with ids from all code points',
              'codec:states with unpaired surrogates', 'codec:states with control characters',
              'codec:float / bool / None ids', 'codec:states with an adjacent surrogate pair',
              # the security filter must have had something to leave out, in the arrangements that
              # tell a correct filter from a sloppy one
              'guard:requests with the filter active', 'guard:rows compared under the filter',
              'guard:folders listed with 1 child inaccessible',
              'guard:folders listed with >= 2 children inaccessible',
              'guard:folders listed with >= 2 inaccessible children, the last child one of them',
              'guard:folders listed with >= 2 inaccessible children, accessible ones in between',
              'guard:folders listed with >= 2 inaccessible children, an accessible one after them',
              'guard:folders listed whose children are all inaccessible',
              'guard:folders listed with an inaccessible child that has children',
              'random:trees with inaccessible nodes'):
        if not c.get(k):
            inc.append('deciding monitor never evaluated: ' + k)
    for form in ('seq', 'str'):
        hit = t.get('codec %s critical compressed sizes hit' % form, {})
        miss = [s for s in critical_sizes(form) if not hit.get('%03d' % s)]
        if miss:
            inc.append('codec (%s form): no state with compressed size %s' % (form, miss))
    for table, names in (('variants (guard bfs)', U.VARIANTS_GUARD), ('variants (option bfs)', U.VARIANTS_OPT)):
        seen = t.get(table, {})
        for name in names:
            if not seen.get(name):
                inc.append('variant never explored: %s' % name)
    nshapes = {'quick': 23, 'thorough': 197}[agg['tier']]
    return {'inconclusive': inc,
            'coverage': {'exhaustive': True,
                         'internal_anchor_diagnostics': diagnostics,
                         'explanation': 'exhaustive: all %d ordered tree shapes with <= %d nodes x %d id schemes x '
                                        '%d tag-option variants, every action of every '
                                        'page up to history length %d deduplicated on (cookie, model state); likewise all '
                                        'shapes x all placements of refused nodes (antichains) under guarded '
                                        'skip_unauthorized variants (2 of 7 each, rotating) and all shapes x 11 option '
                                        'variants; the random '
                                        'trees/histories, the codec growth paths and the surrogate-pair probe are '
                                        'seeded samples'
                                        % (nshapes, MAXNODES[agg['tier']], len(U.SCHEMES) + len(U.SCHEMES_WILD),
                                           len(U.VARIANTS), HISTLEN[agg['tier']])}}


def replay(ctx, rep):
    mon = Monitors(ctx)
    mon.install()
    c = rep['case']
    if c['kind'] == 'codec':
        if 'state_literal' in c:
            import ast
            state = ast.literal_eval(c['state_literal'])
            codec_check(ctx, mon, state, c['form'], pairs=any(U.has_pair(x) for x in U.ids_of(state)))
        else:
            codec_check(ctx, mon, c['state'], c['form'])
        return
    if c['kind'] == 'zip':
        if mon.decompress(mon.compress(c['text'])) != c['text']:
            ctx.violation('decompress(compress(text)) != text', c, key='codec_zip')
        return
    b = Browser(ctx, mon, {}, c['variant'], c['spec'], c.get('treekey', 'replay'))
    for a in c['history']:
        if not b.step(a):
            return
