"""C06 — compiling any source terminates, polynomially, and fails only with a located ParseError.

Monitors: the outcome of the real ``cook()`` (exception type and message) under an in-process CPU
guard (ITIMER_VIRTUAL, CPU seconds), and CPU seconds per ``cook()`` measured in a sandbox child with
RLIMIT_CPU (vlib.c06_util.run_batch).  Oracles (vlib.c06_util), all independent of engine code:
  totality   only ParseError, or SyntaxError when the source carries an explicit expr=-family
             attribute whose value does not compile as a Python expression;            ALL inputs
  location   "..., for tag T, on line N of NAME": T (HTML-unquoted for HTML) is a tag of the source
             that starts on line N; T must be one of the printed tags where boundaries are known and
             THE mutated tag for attribute mutations;                                  ALL inputs
  iff        printed valid templates are accepted in all three syntaxes; one classified mutation is
             judged by a structural model of the documented grammar;       known-by-construction only
  growth     the three super-polynomial signatures of DESIGN C06 on CPU seconds of scaling families.
"""
import hashlib
import re
import signal
import time

from vlib import c06_util as U

ID = 'C06'
LEVEL = 'exploration'
RULE = ('seeded valid templates (token trees, nesting <= 3, every tag kind forced in turn) printed as '
        '<dtml-..>, <!--#..--> and %(..)x with random whitespace/quoting/end-tag styles; each with one '
        'classified mutation at up to 2 (quick) / 3 (thorough) sites per mutation kind (18 kinds); '
        'every classified case (valid and mutated) a second time in the two HTML syntaxes with entity look-alike '
        'text (&dtml- / &dtml. followed by a character no entity can contain) in front of some tags and a ";" '
        'after the last one - plain literal text that must change neither verdict nor location; the name-and-expr '
        'mutation gives the second giver as a value, an empty value, a blank value or no value; '
        'truncation of valid printings at EVERY offset; one character delete/duplicate/swap at EVERY '
        'position; fragment soup over tag openers, closers, quotes, names and blanks in both classes; '
        '(incl. non-ASCII letters/blanks and a lone surrogate); a grid of small valid templates using every '
        'documented attribute alone and every batch giver x batch-only pair; fixed corner witnesses; 52 '
        'scaling families in a CPU sandbox.  A case is distinct by '
        '(class, source text); non-trivial when the source contains a tag opener of its syntax')
ASSUMPTIONS = [
    '"valid Python" for an expr=-family value is decided by compile(value.strip(), mode eval), also '
    'tried with newlines replaced by blanks (DESIGN says ast.parse; compile also rejects e.g. a bare yield)',
    'accept/reject is demanded only where the classification is known by construction (DESIGN C06 Traps): '
    'duplicated valueless flags, try without handlers, else with a name other than that of its if and '
    'unknown/duplicate attributes of let/try/comment are left unclassified',
    'bounds: nesting <= 60, attributes per tag <= 200, expression length <= 200 (CPython recursion limits '
    'in a recursive-descent parser and in compile() are not what the property speaks about)',
    'an invalid expression in the "..." shorthand or in dtml-let must be a ParseError; an invalid explicit '
    'expr=/sort_expr=/reverse_expr=/branches_expr= value may be a ParseError or a SyntaxError',
    'for attribute mutations of a start or single tag the message must name that very tag (the statement '
    'says "names the offending tag"); for structural mutations only "a tag of the source on that line"',
    'polynomial = none of the three growth signatures up to 8192 (thorough 65536) repetitions and no '
    'RLIMIT_CPU=20 s exhaustion on an input of <= 8192 characters',
]
SHARD_TIMEOUT = {'quick': 900, 'thorough': 3400}
NSHARDS = {'quick': 16, 'thorough': 48}
# per shard
N_TEMPLATES = {'quick': 10, 'thorough': 80}
SITES = {'quick': 2, 'thorough': 3}
N_TRUNC = {'quick': 3, 'thorough': 5}        # templates truncated at every offset (x3 syntaxes)
N_CHARMUT = {'quick': 1, 'thorough': 3}      # templates with a char mutation at every position
N_SOUP = {'quick': 700, 'thorough': 8000}    # soup strings (each cooked by both classes)
MAX_CHARS = {'quick': 60000, 'thorough': 400000}
GUARD_CPU = 2.0                              # in-process CPU guard per cook (ITIMER_VIRTUAL seconds)
GUARD_MAX = 4                                # guard firings per shard before the in-process workload is cut
EVERY_OFFSET_CAP = 900                       # characters; longer printings are not truncated/mutated at every offset
BUDGET_CPU = {'quick': 300, 'thorough': 1800}    # CPU seconds of in-process cooking per shard (typical: 6 / 40)
STATE = {'slow': [], 'cut': False, 'n': 0, 'over': False}           # per worker process
ANCHORS = ('parse_error', 'parse_block', 'parse_close', 'parse_params', 'parse_let_params', 'name_param')

# fixed corner inputs: (class, source)
WITNESSES = [
    ('HTML', 'abc &dtml'), ('HTML', '&dtml'), ('HTML', 'x &dtml-'), ('HTML', 'x &dtml.'), ('HTML', '&dtml-x'),
    ('HTML', '<dtml-'), ('HTML', '<dtml-var'), ('HTML', '<dtml-var x'), ('HTML', '<!--#'), ('HTML', '<!--#var x--'),
    ('HTML', '</dtml-'), ('HTML', '<'), ('HTML', '&'), ('HTML', ''), ('String', ''), ('String', '%('), ('String', '%(a'),
    ('String', '%(a)'), ('String', '%(a b'), ('String', '%(a "'), ('String', '%(a ' + 'b' * 30),
    ('String', 'prefix- %(1 +1 +endexceptsortmappingelif'),
    ('HTML', '<dtml-let x="1 +">a</dtml-let>'), ('HTML', '<dtml-let x="">a</dtml-let>'),
    ('String', '%(let x="1 +")[a%(let)]'), ('HTML', '<!--#let x="(">a<!--#/let-->'),
    ('HTML', '\n\n<dtml-in x bogus=1>\n\n\n</dtml-in>'), ('HTML', '\n<dtml-if>\n\n</dtml-if>'),
    ('String', '\n\n%(in x bogus=1)[\n\n\n%(in)]'), ('HTML', '\n<dtml-with>\n<dtml-var x>\n</dtml-with>\n'),
    ('HTML', '<dtml-var expr="">'), ('HTML', '<dtml-var expr="1 +">'), ('HTML', '<dtml-var "1 +">'),
    ('HTML', '<dtml-in x sort_expr="1 +">a</dtml-in>'), ('HTML', '<dtml-in x reverse_expr=")">a</dtml-in>'),
    ('HTML', '<dtml-tree branches_expr="(">a</dtml-tree>'), ('HTML', '<dtml-var expr="a\x00b">'),
    ('HTML', '<dtml-in x start=^>a</dtml-in>'), ('HTML', '<dtml-in x start="[">a</dtml-in>'),
    ('HTML', '<dtml-in x start=a\\>a</dtml-in>'), ('HTML', '<dtml-in x start="a]">a</dtml-in>'),
    ('HTML', '<dtml-var x fmt=>'), ('HTML', '<dtml-var =x>'), ('HTML', '<dtml-var x=>'), ('HTML', '<dtml-var "">'),
    ('HTML', '<dtml-var ">'), ('HTML', '<dtml-var x">'), ('HTML', '<dtml-else>'), ('HTML', '<dtml-elif x>'),
    ('HTML', '<dtml-except>'), ('HTML', '</dtml-var>'), ('HTML', '<dtml-comment><dtml-foo></dtml-comment>'),
    ('HTML', '<dtml-if x><dtml-else y>a</dtml-if>'), ('HTML', '<dtml-if x><dtml-else y>a</dtml-else></dtml-if>'),
    ('String', '%(else x)[a%(else x)]'), ('String', '%(x)'), ('String', '%(x)]'), ('String', '%(/if)]'),
    ('HTML', '<dtml-var x>\r\n<dtml-foo>'), ('HTML', 'a\rb\r<dtml-foo>'), ('HTML', '\x0b\x0c\n<dtml-foo>'),
    ('HTML', ' <dtml-foo>'), ('HTML', '\x85\n\x1c<dtml-foo x>'), ('String', 'a \n%(foo x)['),
    ('HTML', '<dtml-var x\n\n\nbogus=1>'), ('HTML', '\n<dtml-var\nx\n"y">'), ('HTML', '&dtml.a.b-x;'),
    ('HTML', '\n\n&dtml.bogus-x;'), ('HTML', '<dtml-in x>\n<dtml-else>\n<dtml-else>\n</dtml-in>'),
    ('HTML', '<dtml-try>\n<dtml-finally>\n<dtml-except>\n</dtml-try>'),
    ('HTML', '<dtml-var "\'\udc80\'">'), ('HTML', '<dtml-var expr="\'\udc80\'">'), ('HTML', '<dtml-var \udc80>'),
    ('HTML', '<dtml-let x="\'\udc80\'">a</dtml-let>'), ('String', '%(var expr="\udc80")s'),
    ('HTML', '<dtml-in x sort_expr="\udc80">a</dtml-in>'), ('HTML', '\udc80<dtml-foo \udc80>'),
    ('HTML', '<dtml-var "\U0001f600">'), ('HTML', '<dtml-var "x\u2028y">'), ('HTML', '\u2028\u2029<dtml-foo>'),
    ('HTML', '<dtml-var\xa0x>'), ('String', '%(x)\u017f'), ('String', '%(x \u212a)\u212a'),
    ('HTML', '<dtml-var x fmt=\udc80 null="\udc80">'), ('HTML', '<dtml-\xe9>'), ('HTML', '<dtml-var\u212a x>'),
]


def plan(tier, seed):
    return [{} for _ in range(NSHARDS[tier])]


# ---------------------------------------------------------------- engine access under a CPU guard
class CpuBudget(BaseException):
    pass


def _on_alarm(signum, frame):
    raise CpuBudget()


def engine():
    from DocumentTemplate.DT_HTML import HTML
    from DocumentTemplate.DT_String import String
    from DocumentTemplate.DT_Util import ParseError
    import TreeDisplay.TreeTag  # noqa: F401  registers the tree tag
    signal.signal(signal.SIGVTALRM, _on_alarm)
    return {'HTML': HTML, 'String': String, 'ParseError': ParseError}


def cook(E, cls, src):
    """-> (outcome, message): 'ok' | 'ParseError' | 'SyntaxError' | other type name | 'cpu-guard'."""
    t = E[cls](src, __name__=U.TEMPLATE_NAME)
    try:
        signal.setitimer(signal.ITIMER_VIRTUAL, GUARD_CPU)
        try:
            t.cook()
        finally:
            signal.setitimer(signal.ITIMER_VIRTUAL, 0)
    except CpuBudget:
        return 'cpu-guard', None
    except BaseException as e:          # noqa: B902  the type is what is being checked
        if type(e) is E['ParseError']:
            return 'ParseError', e.args[0] if len(e.args) == 1 and isinstance(e.args[0], str) else repr(e.args)
        return type(e).__name__, str(e)
    return 'ok', None


# ---------------------------------------------------------------- mechanism classifiers
_SURROGATE = re.compile('[\ud800-\udfff]')
_EXPR_TEXT = re.compile(r'"[^"]*"|(?i:expr)=[^\000- "=]+')     # quoted values and unquoted expr= values


def classify(case, outcome, problem):
    """Mechanism key of a violation (known_findings.json keys), recognised from the case itself."""
    src, cls = case['src'], case['cls']
    if outcome == 'UnicodeEncodeError' and any(_SURROGATE.search(m.group(0)) for m in _EXPR_TEXT.finditer(src)):
        return 'expression-lone-surrogate-unicodeencodeerror'
    if outcome == 'IndexError' and cls == 'HTML' and src.endswith('&dtml'):
        return 'entity-scanner-index-error-at-eof'
    if outcome == 'TypeError' and ('let ' in src or 'let\n' in src or 'let\t' in src) and '="' in src:
        return 'let-bad-expression-typeerror'
    if problem in ('cpu', 'growth') and cls == 'String' and '%(' in src:
        return 'epfs-tagre-exponential-backtracking'
    if problem == 'location-line' and case.get('group', '').startswith('mut:') and case.get('must_name'):
        return 'block-tag-error-located-at-end-tag'
    return None


def _h(s):
    return hashlib.blake2b(s.encode('utf-8', 'backslashreplace'), digest_size=4).hexdigest()


# ---------------------------------------------------------------- one evaluated input
def evaluate(ctx, E, case):
    """case: {'group', 'cls', 'src', 'expect': None|'accept'|'reject', 'tags': None|[[off, text]],
    'must_name': None|text, 'why': model reason}.  Runs the real cook() and every applicable oracle."""
    cls, src = case['cls'], case['src']
    opener = ('%(' in src) if cls == 'String' else any(o in src for o in ('<dtml-', '</dtml-', '<!--#', '&dtml'))
    ctx.case((cls, src), opener)
    outcome, msg = cook(E, cls, src)
    STATE['n'] += 1
    if STATE['n'] % 256 == 0 and time.process_time() > BUDGET_CPU[ctx.tier] and not STATE['over']:
        STATE['over'] = STATE['cut'] = True     # slow cook()s below the guard: leave time for the sandbox
        ctx.inconclusive('shard %d: in-process workload cut after %d inputs, CPU budget of %d s exceeded'
                         % (ctx.shard, STATE['n'], BUDGET_CPU[ctx.tier]))
    grp = case['group']
    ctx.table('outcomes', '%s|%s' % (grp.split(':')[0], outcome))

    def bad(kind, what, problem=None):
        ctx.violation('%s [%s %s] %s' % (kind, cls, grp, what), case,
                      mech=classify(case, outcome, problem or kind),
                      key='%s_%s' % (kind.replace(' ', '-'), _h(cls + src)),
                      detail={'outcome': outcome, 'message': msg})

    # ---- totality
    ctx.count('oracle:totality evaluations')
    if outcome == 'cpu-guard':
        ctx.count('cpu-guard:fired')
        STATE['slow'].append(case)
        if len(STATE['slow']) >= GUARD_MAX:
            STATE['cut'] = True
        return outcome, msg
    if outcome == 'SyntaxError':
        badvals = U.invalid_expr_attribute(src)
        if badvals:
            ctx.count('oracle:SyntaxError justified by an invalid explicit expr= value')
        else:
            bad('totality', 'SyntaxError (%s) but no explicit expr=-family attribute of the source is '
                'invalid Python' % (msg or '')[:100])
    elif outcome not in ('ok', 'ParseError'):
        bad('totality', 'cook() raised %s: %s' % (outcome, (msg or '')[:160]))
    # ---- location
    if outcome == 'ParseError':
        tags = case.get('tags')
        ctx.count('oracle:location evaluations (%s)' % ('known tag boundaries' if tags is not None else 'generic'))
        prob, named, line = U.check_location(cls, src, msg, [(o, t) for o, t in tags] if tags is not None else None)
        if prob:
            bad('location', '%s; message %r' % (prob, msg[-200:]),
                problem='location-line' if 'reported line' in prob else 'location')
        elif case.get('must_name') is not None:
            ctx.count('oracle:offending-tag evaluations')
            if named != case['must_name']:
                bad('location', 'message names %r, the offending (mutated) tag is %r'
                    % (named[:80], case['must_name'][:80]), problem='location-tag')
        if line is not None and line > 1:
            ctx.count('location:reported line > 1')
        kind = msg.split(', for tag ')[0].strip().split('\n')[0][:48]
        ctx.table('parse error messages', ''.join(c if not c.isdigit() else 'N' for c in kind).split('"')[0])
    # ---- accept / reject where known by construction
    exp = case.get('expect')
    if exp == 'accept':
        ctx.count('oracle:accept evaluations')
        if outcome != 'ok':
            bad('iff', 'well-formed source rejected with %s: %s' % (outcome, (msg or '')[-200:]))
    elif exp == 'reject':
        ctx.count('oracle:reject evaluations')
        if outcome == 'ok':
            bad('iff', 'grammar-violating source accepted (%s)' % case.get('why'))
    return outcome, msg


def settle_guard(ctx):
    """Inputs that exceeded the in-process CPU guard are re-measured in the sandbox (RLIMIT_CPU):
    the longest and the shortest one; the verdict is rule (c) of DESIGN C06."""
    slow = sorted(STATE['slow'], key=lambda c: len(c['src']))
    if not slow:
        return
    chosen = []
    for c in (slow[-1], slow[0]):
        if c not in chosen:
            chosen.append(c)
    confirmed = 0
    for case in chosen:
        r = U.run_batch([(case['cls'], case['src'])])
        ctx.count('sandbox:batches')
        n = len(case['src'])
        if r['death'] == 'rlimit':
            if n <= 8192:
                confirmed += 1
                ctx.violation('complexity [%s %s] cook() of a %d-character input exhausted RLIMIT_CPU=%ds'
                              % (case['cls'], case['group'], n, U.CPU_LIMIT), case,
                              mech=classify(case, 'cpu-guard', 'cpu'), key='rlimit_' + _h(case['cls'] + case['src']))
            else:
                ctx.count('cpu-guard:slow input > 8192 chars')
        elif r['death']:
            ctx.inconclusive('sandbox child died: ' + r['death'][:300])
        else:
            ctx.count('cpu-guard:input completed in the sandbox')
            ctx.table('slow inputs', '%d chars %.1fs' % (n, r['results'][0][0]))
    if not confirmed:
        ctx.inconclusive('%d inputs exceeded the in-process CPU guard of %.0f s%s but none exhausted '
                         'RLIMIT_CPU in the sandbox' % (len(slow), GUARD_CPU,
                                                        ' (workload cut)' if STATE['cut'] else ''))


# ---------------------------------------------------------------- workloads
def classified(ctx, E, toks, kind, mutated=None, _plain=True):
    verdict, why = U.judge(toks)
    if _plain:
        ctx.table('model verdicts', '%s|%s' % (kind, verdict))
        # the same case with entity look-alike text in front of some tags and a ';' after the last one
        dtoks, dmut = U.decorate(toks, ctx.rng, mutated)
        if U.judge(dtoks)[0] == verdict:
            classified(ctx, E, dtoks, kind, dmut, _plain=False)
        else:
            ctx.count('generator:look-alike decoration changed the model verdict (skipped)')
    for syn in (U.SYNTAXES if _plain else [x for x in U.SYNTAXES if x != 'epfs']):
        pr = U.print_tokens(toks, syn, ctx.rng)
        if pr is None:
            ctx.count('generator:discarded (text would read as a tag / not spellable)')
            continue
        src, tags = pr
        if not _plain:
            ctx.count('classified cases with entity look-alike text')
        case = {'group': ('mut:%s:%s' % (kind, syn) if kind != 'valid' else 'valid:' + syn) + ('' if _plain else '+lookalike'),
                'cls': U.CLASS_OF[syn], 'src': src, 'tags': [[o, t] for o, t, _i in tags],
                'expect': {'valid': 'accept', 'invalid': 'reject'}.get(verdict), 'why': why}
        if (mutated is not None and kind in U.ATTR_KINDS and verdict == 'invalid' and
                not U.else_with_arguments(toks)):
            case['must_name'] = [t for o, t, i in tags if i == mutated][0]
        out, msg = evaluate(ctx, E, case)
        ctx.table('classified', '%s|%s|%s|%s' % (kind, syn, verdict, 'accepted' if out == 'ok' else 'rejected'))
        if kind != 'valid' and verdict == 'invalid':
            ctx.count('mutation evaluated:' + kind)
            if ctx.shard == 2 and STATE.setdefault('shown', 0) < 3 and len(src) < 400:
                STATE['shown'] += 1
                ctx.sample({'kind': 'classified mutation ' + kind, 'syntax': syn, 'source': src,
                            'model': 'invalid: ' + why, 'outcome': out, 'message': msg})
    return verdict


def run_grid(ctx, E):
    """Every documented attribute on its own, and the documented pairs, must be accepted."""
    for i, (label, toks) in enumerate(U.attribute_grid()):
        if i % ctx.nshards == ctx.shard:
            ctx.count('attribute grid templates')
            if classified(ctx, E, toks, 'valid') != 'valid':
                ctx.inconclusive('attribute grid template %r is not valid by the model' % label)
            for kind, mt, mi in U.mutations(toks, ctx.rng, per_kind=1):
                if kind in U.ATTR_KINDS and not STATE['cut']:
                    classified(ctx, E, mt, kind, mi)


def run_templates(ctx, E):
    rng = ctx.rng
    forced = U.BLOCK_TAGS[:-1] + U.SINGLE_TAGS + ('entity',)
    pool = []
    for n in range(N_TEMPLATES[ctx.tier]):
        toks = U.gen_template(rng, force=forced[(n + ctx.shard) % len(forced)])
        v = classified(ctx, E, toks, 'valid')
        if v != 'valid':
            ctx.count('generator:template not valid by the model')
            continue
        pool.append(toks)
        for kind, mt, mi in U.mutations(toks, rng, per_kind=SITES[ctx.tier]):
            if STATE['cut']:
                break
            classified(ctx, E, mt, kind, mi)
    if pool and ctx.shard == 0:
        for syn in U.SYNTAXES:
            pr = U.print_tokens(pool[0], syn, rng)
            if pr:
                o, m = cook(E, U.CLASS_OF[syn], pr[0])
                ctx.sample({'kind': 'valid template', 'syntax': syn, 'source': pr[0][:400], 'outcome': o})
    return pool


def run_unclassified(ctx, E, pool):
    rng = ctx.rng
    # truncation at every offset; templates whose printing is longer than EVERY_OFFSET_CAP characters are passed
    # over (work grows with the square of the length; the next template of the pool takes their place)
    done = 0
    rest = []
    for toks in pool:
        if done >= N_TRUNC[ctx.tier]:
            rest.append(toks)
            continue
        prs = [(syn, U.print_tokens(toks, syn, rng)) for syn in U.SYNTAXES]
        if any(pr is not None and len(pr[0]) > EVERY_OFFSET_CAP for syn, pr in prs):
            ctx.count('truncation:templates passed over (longer than %d characters)' % EVERY_OFFSET_CAP)
            continue
        done += 1
        for syn, pr in prs:
            if pr is None:
                continue
            src = pr[0]
            ctx.count('truncation:templates')
            for cut in range(len(src)):
                if STATE['cut']:
                    break
                evaluate(ctx, E, {'group': 'trunc:' + syn, 'cls': U.CLASS_OF[syn], 'src': src[:cut]})
    # one character mutation at every position
    done = 0
    for toks in rest or pool[:1]:
        if done >= N_CHARMUT[ctx.tier]:
            break
        prs = [(syn, U.print_tokens(toks, syn, rng)) for syn in U.SYNTAXES]
        if any(pr is not None and len(pr[0]) > EVERY_OFFSET_CAP for syn, pr in prs):
            ctx.count('charmut:templates passed over (longer than %d characters)' % EVERY_OFFSET_CAP)
            continue
        done += 1
        for syn, pr in prs:
            if pr is None:
                continue
            ctx.count('charmut:templates')
            for op, i, src in U.char_mutants(pr[0], rng):
                if STATE['cut']:
                    break
                evaluate(ctx, E, {'group': 'char-%s:%s' % (op, syn), 'cls': U.CLASS_OF[syn], 'src': src})
    # fragment soup, both classes
    shown = 0
    for _ in range(N_SOUP[ctx.tier]):
        src = U.gen_soup(rng)
        if STATE['cut']:
            break
        for cls in ('HTML', 'String'):
            case = {'group': 'soup', 'cls': cls, 'src': src}
            o, m = evaluate(ctx, E, case)
            if ctx.shard == 1 and shown < 3 and o == 'ParseError':
                shown += 1
                ctx.sample({'kind': 'soup', 'class': cls, 'source': src, 'outcome': o, 'message': m})


def run_witnesses(ctx, E):
    for i, (cls, src) in enumerate(WITNESSES):
        if i % ctx.nshards == ctx.shard:
            evaluate(ctx, E, {'group': 'witness', 'cls': cls, 'src': src})
            ctx.count('witnesses')


def run_families(ctx, spec=None):
    fams = U.families(ctx.tier)
    for fi, (label, cls, cap, make) in enumerate(fams):
        if fi % ctx.nshards != ctx.shard:
            continue
        measure_family(ctx, label, cls, cap, make)


def measure_family(ctx, label, cls, cap, make):
    sizes = U.ladder(ctx.tier, cap)
    items = []
    for n in sizes:
        src = make(n)
        if len(src) <= MAX_CHARS[ctx.tier]:
            items.append((n, src))
    points = []
    state = {'sig': None}

    def on_result(i, cpu, outcome):
        n, src = items[i]
        points.append((n, len(src), cpu))
        ctx.table('family outcomes', '%s|%s' % (label, outcome))
        state['sig'] = U.growth_verdict(points)
        return state['sig'] is not None

    r = U.run_batch([(cls, s) for n, s in items], on_result=on_result)
    ctx.count('sandbox:batches')
    ctx.count('sandbox:measurements', len(points))
    ctx.count('growth:families measured')
    big = [p for p in points if p[1] >= 4096]
    top = points[-1] if points else None
    ctx.table('family largest completed', '%s|n=%s chars=%s cpu=%.3fs'
              % (label, top[0] if top else '-', top[1] if top else '-', top[2] if top else 0))
    case = {'group': 'family', 'family': label, 'cls': cls, 'src': items[-1][1][:200],
            'points': [[n, c, round(t, 6)] for n, c, t in points]}
    if state['sig']:
        ctx.violation('complexity [%s] family %r: %s' % (cls, label, state['sig']), case,
                      mech=classify({'src': items[0][1], 'cls': cls}, None, 'growth'),
                      key='growth_' + _h(label), detail={'points': case['points']})
        return
    if r['death'] == 'rlimit':
        n, src = items[r['started']]
        if len(src) <= 8192:
            ctx.violation('complexity [%s] family %r: cook() of n=%d (%d characters) exhausted '
                          'RLIMIT_CPU=%ds' % (cls, label, n, len(src), U.CPU_LIMIT), case,
                          mech=classify({'src': src, 'cls': cls}, None, 'cpu'),
                          key='rlimit_' + _h(label), detail={'points': case['points']})
            return
        ctx.count('growth:ladder cut by RLIMIT_CPU above 8192 chars')
        ctx.table('family ladder cut by RLIMIT_CPU', '%s|n=%d chars=%d' % (label, n, len(src)))
    elif r['death']:
        ctx.inconclusive('sandbox child of family %r died: %s' % (label, r['death'][:300]))
        return
    if cap is None:
        if big:
            ctx.count('growth:families with an input >= 4096 chars completed')
        else:
            ctx.inconclusive('family %r: no input of >= 4096 characters completed' % label)
    else:
        if top and top[0] == cap:
            ctx.count('growth:bounded families measured up to their bound')
        else:
            ctx.inconclusive('bounded family %r: n=%d did not complete' % (label, cap))


def growth_selftest(ctx):
    """The growth tests themselves: a cubic must pass, 2**n (x4 per +2) and n**4.5 must be flagged."""
    sizes = U.ladder('thorough')
    cubic = [(n, n, 2e-9 * n ** 3 + 1e-5) for n in sizes]
    expo = [(n, n, 1e-7 * 2.0 ** n) for n in sizes if n <= 40]
    steep = [(n, n, 1e-9 * n ** 4.5) for n in sizes]
    ok = (U.growth_verdict(cubic) is None and U.growth_verdict(expo) is not None and
          U.growth_verdict(steep) is not None)
    ctx.count('growth:selftest passed' if ok else 'growth:selftest FAILED')
    if not ok:
        ctx.inconclusive('growth tests do not separate n^3 from 2^n / n^4.5')


def run(ctx, spec):
    from DocumentTemplate import DT_Let, DT_String, DT_Util
    from vlib.reach import Reach
    E = engine()
    reach = Reach()
    reach.watch('parse_error', DT_String.String.parse_error)
    reach.watch('parse_block', DT_String.String.parse_block)
    reach.watch('parse_close', DT_String.String.parse_close)
    reach.watch('parse_params', DT_Util.parse_params)
    reach.watch('parse_let_params', DT_Let.parse_let_params)
    reach.watch('name_param', DT_Util.name_param)
    reach.start()
    run_witnesses(ctx, E)
    run_grid(ctx, E)
    pool = run_templates(ctx, E)
    run_unclassified(ctx, E, pool)
    reach.stop()
    reach.report(ctx)
    if STATE['cut']:
        ctx.count('cpu-guard:in-process workload cut')
    settle_guard(ctx)
    if ctx.shard == 0:
        growth_selftest(ctx)
    run_families(ctx)


def finish(agg):
    c = agg['counters']
    inc = []
    for a in ANCHORS:
        if not c.get('reach:' + a):
            inc.append('anchor never entered: ' + a)
    for k in ('oracle:totality evaluations', 'oracle:location evaluations (generic)',
              'oracle:location evaluations (known tag boundaries)', 'oracle:offending-tag evaluations',
              'oracle:accept evaluations', 'oracle:reject evaluations',
              'oracle:SyntaxError justified by an invalid explicit expr= value',
              'location:reported line > 1', 'growth:selftest passed'):
        if not c.get(k):
            inc.append('deciding monitor never evaluated: ' + k)
    for kind in U.MUTATION_KINDS:
        if not c.get('mutation evaluated:' + kind):
            inc.append('classified mutation never evaluated: ' + kind)
    nfam = len(U.families(agg['tier']))
    if c.get('growth:families measured', 0) < nfam and not agg['violations']:
        inc.append('only %d of %d scaling families measured' % (c.get('growth:families measured', 0), nfam))
    t = agg['tables'].get('classified', {})
    for syn in U.SYNTAXES:
        if not any(k.startswith('valid|%s|valid|accepted' % syn) for k in t):
            inc.append('no valid template accepted in syntax ' + syn)
    return {'inconclusive': inc,
            'coverage': {'exhaustive': False,
                         'explanation': 'truncation and character mutation are exhaustive over the offsets of '
                                        'the sampled printings; everything else is seeded sampling',
                         'scaling_families': nfam, 'mutation_kinds': len(U.MUTATION_KINDS)}}


def replay(ctx, rep):
    case = rep['case']
    if case.get('group') == 'family':
        for label, cls, cap, make in U.families(ctx.tier):
            if label == case['family']:
                measure_family(ctx, label, cls, cap, make)
        return
    E = engine()
    evaluate(ctx, E, case)
    settle_guard(ctx)
