"""C19 — bytes in mixed output decode with the template encoding; str() is safe.

Part F (conversion histories): the statement holds for EVERY insertion, so sequences of insertions in
one process (equal-but-differently-printing values, mutated / recycled objects, whole families in one
rendering) are judged step by step against ``str(value)``.

Monitor: every case renders ONE compiled template twice, once with the text ``s`` and once
with ``s.encode(encoding)`` in its place (differential), and compares type and value of the
two results; non-string values are rendered and compared with ``str(value)``.  Wrappers on
the real ``join_unicode`` / ``render_blocks`` / ``html_quote`` / ``ustr`` count which join path
ran and check their documented postconditions; reach counters watch the anchor functions.
Oracle: bytes-vs-text equality + an independent model of the generated template (vlib.c19_util,
written from the tag docstrings) + ``str()`` for non-string values.
"""
import functools
import html
import os
import sys
import traceback

from vlib import c19_util as U

ID = 'C19'
LEVEL = 'exploration'
RULE = ('A: every single code point 0..255 + notable BMP/astral points x every insertion form of the three '
        'syntaxes x 5 encodings at top level; B: every insertion form x every depth-1 join path (in 1/n '
        'items, batch, else, if/elif/else, unless, with, let, try body/else/handler/finally, sub-template, '
        'raise message) x 4 body shapes x bare/wrapped x 5 encodings x sample texts; C: seeded nested '
        'templates (depth<=3) x seeded texts; D: non-string values (builtins, classes, exceptions with 0..3 '
        'args, custom __str__) x insertion sites; F: conversion HISTORIES in one process over shared compiled '
        'templates: families of values that compare equal but print differently (0.0/-0.0, 0/False/0j/Decimal '
        'spellings, 1/True/1.0/enum members, float/int subclasses with a unit, equal tuples/frozensets/ranges, '
        'aware datetimes, objects with __eq__ and own text, exceptions with equal arguments) x every value site '
        'x orders (forward, reverse, twice, there-and-back, every pair a b a) x same/fresh objects, whole '
        'families in ONE rendering (dtml-in over the list, variables side by side; 14 sequence sites), objects '
        'mutated between insertions, fresh objects after dropped ones, and seeded walks across families, sites '
        'and encodings; every step is judged against str(value) taken at that moment. A case = (part, syntax, '
        'form, encoding, template, text or value recipe) or one history (family, flavour, steps); it is '
        'non-trivial when the rendering has >= 2 pieces and the inserted value is non-empty (a history: when '
        'at least one step inserts a value that an earlier step could be confused with); distinct = distinct '
        'such tuples')
ASSUMPTIONS = [
    'bytes are always produced as s.encode(template encoding); encoding=None means the UTF-8 default',
    'a rendering with fewer than 2 (flattened, non-empty) pieces is only counted, never judged',
    'escaping details of html_quote belong to C03: the text rendering may escape the apostrophe or not; '
    'only bytes-vs-text equality is demanded here',
    'exception objects: accepted texts are str(exc) and the args-based message ("" / the one argument as '
    'text / str(args)); a bytes argument may appear decoded with the template encoding or as str(bytes)',
    'a __str__ returning bytes may raise or be inserted decoded; a __str__ returning a non-string or '
    'raising is only counted (result must still be text when it does not raise)',
    'histories (part F): the accepted text of a step is str(value) (exceptions: message forms as above) '
    'computed immediately before the rendering; values never have a __str__ that changes by itself, objects '
    'change only through the explicit mutation steps of the plan; a violation replays its own sequence only '
    '(state left by earlier sequences of the shard is not part of the case)',
    'one rendering of several values: the result must be head + one accepted item text per value, in list '
    'order (reverse order for the reverse option) + tail',
    'modifiers other than html_quote (upper, url_quote, sql_quote, size, ...) applied to bytes are '
    'recorded in an informational table and not judged (statement: "plainly, HTML-quoted")',
]
SHARD_TIMEOUT = {'quick': 900, 'thorough': 3000}
NSHARDS = {'quick': 16, 'thorough': 48}
B_TEXTS = {'quick': 4, 'thorough': 26}
C_TEMPLATES = {'quick': 12000, 'thorough': 240000}
C_TEXTS = {'quick': 3, 'thorough': 4}

MECH_TRY = 'try-else-finally-plus-concat'
MECH_LATIN1 = 'html-quote-full-path-latin1'
MECH_APOS = 'html-quote-fast-path-apostrophe'
MECH_CLASS = 'ustr-class-unbound-str'
MECH_FILE = 'file-template-no-encoding-latin1'


def plan(tier, seed):
    return [{} for _ in range(NSHARDS[tier])]


# ---------------------------------------------------------------- monitors on the real package
def _rebind(orig, wrapper):
    """Replace every module-level binding of `orig` inside the package by `wrapper`."""
    n = 0
    for name, mod in list(sys.modules.items()):
        if mod is None or not (name.startswith('DocumentTemplate') or name.startswith('TreeDisplay')):
            continue
        for attr, val in list(vars(mod).items()):
            if val is orig:
                setattr(mod, attr, wrapper)
                n += 1
    return n


class Monitors:
    def __init__(self, ctx):
        self.ctx = ctx
        self.bad = []            # postcondition failures of the current render
        self.hq_noenc = 0        # html_quote(bytes) calls without an encoding in the current render
        self.ustr_raised = []
        self.last_ustr = None

    def reset(self):
        del self.bad[:]
        del self.ustr_raised[:]
        self.hq_noenc = 0

    def install(self):
        import DocumentTemplate  # noqa: F401
        from DocumentTemplate import DT_In, DT_Let, DT_Raise, DT_Try, DT_Var, DT_With  # noqa: F401
        from DocumentTemplate import _DocumentTemplate as _DT
        from DocumentTemplate import html_quote as HQ
        from DocumentTemplate import ustr as US
        ctx = self.ctx
        mon = self

        real_join = _DT.join_unicode

        @functools.wraps(real_join)
        def join_unicode(rendered, encoding=None):
            rendered = list(rendered)
            hasb = any(isinstance(p, bytes) for p in rendered)
            r = real_join(rendered, encoding=encoding)
            if hasb:
                ctx.count('join_unicode:bytes present (decoding branch)')
                if encoding is None:
                    ctx.count('join_unicode:bytes present and encoding=None')
            else:
                ctx.count('join_unicode:all text')
            # documented: plain strings converted from the given encoding, Latin-1 as fallback
            try:
                want = ''.join(p if isinstance(p, str) else p.decode(encoding or 'latin-1')
                               for p in rendered)
            except Exception:
                want = None
            if not isinstance(r, str) or (want is not None and r != want):
                mon.bad.append('join_unicode(%r, encoding=%r) -> %r' % (rendered[:4], encoding, r))
            return r

        real_rb = _DT.render_blocks

        @functools.wraps(real_rb)
        def render_blocks(blocks, md, encoding=None):
            r = real_rb(blocks, md, encoding=encoding)
            if isinstance(r, bytes):
                ctx.count('render_blocks:single bytes piece returned as is')
            elif isinstance(r, str):
                ctx.count('render_blocks:text result')
            else:
                ctx.count('render_blocks:other result type')
            return r

        real_hq = HQ.html_quote

        @functools.wraps(real_hq)
        def html_quote(v, name='(Unknown name)', md={}, encoding=None):
            r = real_hq(v, name, md, encoding=encoding)
            # the value is converted first: a message / __str__ result may be bytes as well
            asb = v if isinstance(v, bytes) else (mon.last_ustr if not isinstance(v, str) and
                                                  isinstance(mon.last_ustr, bytes) else None)
            if asb is not None:
                if encoding is None:
                    ctx.count('html_quote:bytes without encoding (Latin-1 fallback)')
                    mon.hq_noenc += 1
                else:
                    ctx.count('html_quote:bytes with encoding')
                    try:
                        want = asb.decode(encoding)
                    except Exception:
                        want = None
                    if not isinstance(r, str) or (want is not None and html.unescape(r) != want):
                        mon.bad.append('html_quote(%r, encoding=%r) -> %r' % (asb[:40], encoding, r))
            elif isinstance(v, str):
                ctx.count('html_quote:text')
            else:
                ctx.count('html_quote:non-string')
            if not isinstance(r, str):
                mon.bad.append('html_quote returned %s' % type(r).__name__)
            return r

        real_ustr = US.ustr

        @functools.wraps(real_ustr)
        def ustr(v):
            if isinstance(v, (str, bytes)):
                cat = 'string'
            elif isinstance(v, type):
                cat = 'class'
            elif isinstance(v, BaseException):
                cat = 'exception'
            else:
                cat = 'other'
            try:
                r = real_ustr(v)
            except BaseException as e:
                ctx.count('ustr:%s raised' % cat)
                mon.ustr_raised.append((cat, type(e).__name__))
                raise
            ctx.count('ustr:%s' % cat)
            mon.last_ustr = r
            if not isinstance(r, (str, bytes)):
                mon.bad.append('ustr(%s) returned %s' % (type(v).__name__, type(r).__name__))
            return r

        self.bound = {
            'join_unicode': _rebind(real_join, join_unicode),
            'render_blocks': _rebind(real_rb, render_blocks),
            'html_quote': _rebind(real_hq, html_quote),
            'ustr': _rebind(real_ustr, ustr),
        }
        # html_quote is also held in the modifier table and the special-format table
        DT_Var.modifiers[:] = [(n, html_quote if f is real_hq else f) for n, f in DT_Var.modifiers]
        for k, f in list(DT_Var.special_formats.items()):
            if f is real_hq:
                DT_Var.special_formats[k] = html_quote
        for k, n in self.bound.items():
            ctx.count('wrapper bindings:' + k, n)
        self.real = dict(join_unicode=real_join, render_blocks=real_rb, html_quote=real_hq, ustr=real_ustr)


def make_reach():
    from DocumentTemplate import DT_In, DT_Let, DT_String, DT_Try, DT_With
    from DocumentTemplate import _DocumentTemplate as _DT
    from DocumentTemplate import html_quote as HQ
    from DocumentTemplate import ustr as US
    from vlib.reach import Reach
    r = Reach()
    r.watch('join_unicode', _DT.join_unicode)
    r.watch('render_blocks', _DT.render_blocks)
    # private helpers: a harmless refactoring may rename them -- diagnosis only when absent
    r.absent = []
    for label, mod in (('render_blocks_', _DT), ('_exception_str', US)):
        fn = getattr(mod, label, None)
        if fn is None or not hasattr(fn, '__code__'):
            r.absent.append(label)
        else:
            r.watch(label, fn)
    r.watch('html_quote', HQ.html_quote)
    r.watch('ustr', US.ustr)
    r.watch('String.parse_block', DT_String.String.parse_block)
    r.watch('InClass.renderwb', DT_In.InClass.renderwb)
    r.watch('InClass.renderwob', DT_In.InClass.renderwob)
    r.watch('Try.render_try_except', DT_Try.Try.render_try_except)
    r.watch('Try.render_try_finally', DT_Try.Try.render_try_finally)
    r.watch('With.render', DT_With.With.render)
    r.watch('Let.render', DT_Let.Let.render)
    return r


ANCHORS = ['join_unicode', 'render_blocks', 'render_blocks_', 'html_quote', 'ustr', '_exception_str',
           'String.parse_block', 'InClass.renderwb', 'InClass.renderwob', 'Try.render_try_except',
           'Try.render_try_finally', 'With.render', 'Let.render']


# ---------------------------------------------------------------- helpers
def tb_tail(e):
    fr = traceback.extract_tb(e.__traceback__)
    if not fr:
        return ('', '')
    return (os.path.basename(fr[-1].filename), fr[-1].name)


def outcome(fn):
    try:
        return ('ok', fn())
    except Exception as e:        # BaseException kinds are harness errors
        return ('raise', e)


def show(o):
    if o[0] == 'raise':
        return 'raised %s: %s' % (type(o[1]).__name__, str(o[1])[:100])
    return '%s %s' % (type(o[1]).__name__, ascii(o[1])[:160])


class Prep:
    """One compiled template (main + sub-templates) for (syntax, form, encoding, ast)."""

    def __init__(self, syntax, form, enc, ast, filedir=None):
        self.syntax, self.form, self.enc, self.ast = syntax, form, enc, ast
        self.file = filedir is not None
        _fmt, self.quoted, self.route = U.form_info(form)
        self.src, self.seqs, self.subs = U.print_template(ast, syntax, form)
        self.main, self.subt = U.make_templates(self.src, self.subs, syntax, enc, filedir)
        self.kinds = U.node_kinds(ast)

    def render(self, value):
        ns = {'x': value, 'yes': 1, 'no': 0, 'nsmap': {'w': 'W'}, 'obj': U.Obj(), 'boom': U.Boom()}
        for name, opts in self.seqs.items():
            n = opts['n']
            ns[name] = [value] * n if opts.get('items') else list(range(1, n + 1))
        ns.update(self.subt)
        return self.main(None, ns)

    def case(self, s, part):
        return {'kind': 'diff', 'part': part, 'syntax': self.syntax, 'form': self.form, 'enc': self.enc,
                'ast': self.ast, 'text': s, 'src': self.src, 'subs': self.subs, 'file': self.file}


def classify_diff(prep, s, b, T, B, strict, lenient):
    codec = U.codec_of(prep.enc)
    if T[0] != 'ok':
        return None
    if prep.kinds & {'try:else', 'try:finally'}:
        # does "correct everywhere, but try joins body and else/finally with +" explain the observation?
        try:
            pm = ('ok', U.plus_model(prep.ast, b, prep.quoted, codec))
        except U.PlusTypeError:
            pm = ('TypeError', None)
        if B[0] == 'raise':
            e = B[1]
            f, fn = tb_tail(e)
            if (pm[0] == 'TypeError' and isinstance(e, TypeError) and f == 'DT_Try.py'
                    and fn in ('render_try_except', 'render_try_finally') and 'concat' in str(e)):
                return MECH_TRY
        elif pm[0] == 'ok' and type(pm[1]) is type(B[1]) and pm[1] == B[1]:
            return MECH_TRY
    if B[0] == 'raise' or not isinstance(B[1], str):
        return None
    if prep.file and T[1] in (strict, lenient):
        # file-based template classes never get an encoding: is "everything decoded as Latin-1" what we see?
        mojibake = b.decode('latin-1')
        if mojibake != s and B[1] == ''.join(U.model_pieces(prep.ast, mojibake, prep.quoted, U.esc_strict)):
            return MECH_FILE
    if prep.quoted and prep.route in ('full', 'fmt') and T[1] == strict:
        mojibake = b.decode('latin-1')
        if mojibake != s and B[1] == ''.join(U.model_pieces(prep.ast, mojibake, True, U.esc_strict)):
            return MECH_LATIN1
    if (prep.quoted and prep.route == 'simple' and "'" in s and not any(c in s for c in '&<>"')
            and T[1] == lenient and B[1] == strict):
        return MECH_APOS
    return None


def diff_case(ctx, mon, prep, s, part, sample=False):
    codec = U.codec_of(prep.enc)
    b = s.encode(codec)
    pieces = U.model_pieces(prep.ast, s, prep.quoted, U.esc_strict)
    strict = ''.join(pieces)
    lenient = ''.join(U.model_pieces(prep.ast, s, prep.quoted, U.esc_lenient)) if prep.quoted else strict
    multi = len(pieces) >= 2
    ctx.case((part, prep.file, prep.syntax, prep.form, prep.enc, prep.src, sorted(prep.subs.items()),
              sorted((k, sorted(v.items(), key=str)) for k, v in prep.seqs.items()), s),
             multi and s != '')
    ctx.table('encoding x text class', '%s|%s' % (prep.enc, U.text_class(s)))
    mon.reset()
    T = outcome(lambda: prep.render(s))
    bad_t = list(mon.bad)
    mon.reset()
    B = outcome(lambda: prep.render(b))
    bad_b = list(mon.bad)
    hq_noenc = mon.hq_noenc
    case = None

    def viol(what, mech=None, tag='v'):
        nonlocal case
        if case is None:
            case = prep.case(s, part)
        ctx.violation(what, case, mech=mech,
                      key='%s%s_%s_%s_%s_%s' % (tag, '_file' if prep.file else '', prep.syntax, prep.form.replace(' ', '-'), prep.enc,
                                              '+'.join(sorted(prep.kinds))[:60].replace(':', '.').replace('=', '')),
                      detail={'text_render': show(T), 'bytes_render': show(B), 'model': ascii(strict)[:200],
                              'source': prep.src, 'html_quote_bytes_without_encoding': hq_noenc})

    for msg in bad_t + bad_b:
        viol('postcondition of a wrapped function failed: ' + msg[:200], tag='post')
    if T[0] == 'raise':
        viol('rendering with the TEXT value raised %s: %s' % (type(T[1]).__name__, str(T[1])[:120]), tag='traise')
        return
    if multi and not isinstance(T[1], str):
        viol('multi-piece rendering of a text value is %s, not text' % type(T[1]).__name__, tag='ttype')
        return
    if multi and T[1] not in (strict, lenient):
        viol('text insertion differs from the template model: %s, model %s' % (ascii(T[1])[:120], ascii(strict)[:120]),
             tag='tmodel')
        return
    if not multi:
        ctx.count('diff:single-piece renderings (counted only)')
        if B[0] == 'raise':
            k = 'bytes render raised ' + type(B[1]).__name__
        elif isinstance(B[1], bytes):
            k = 'bytes, the value itself' if B[1] == b else 'bytes, other'
        elif isinstance(B[1], str):
            k = 'text equal to the text render' if B[1] == T[1] else 'text different from the text render'
        else:
            k = type(B[1]).__name__
        ctx.table('single-piece result (not judged)', k)
        return
    ctx.count('diff:multi-piece evaluations')
    if b != s.encode('ascii', 'ignore') or codec == 'utf-16':
        ctx.count('diff:multi-piece evaluations with non-ASCII bytes')
    if B[0] == 'raise':
        mech = classify_diff(prep, s, b, T, B, strict, lenient)
        viol('inserting s.encode(%s) raised %s (%s in %s) where inserting s renders %s'
             % (codec, type(B[1]).__name__, str(B[1])[:80], '/'.join(tb_tail(B[1])), ascii(T[1])[:80]),
             mech=mech, tag='braise')
        return
    if not isinstance(B[1], str):
        viol('multi-piece rendering with a bytes value is %s, not text' % type(B[1]).__name__,
             mech=classify_diff(prep, s, b, T, B, strict, lenient), tag='btype')
        return
    if B[1] != T[1]:
        mech = classify_diff(prep, s, b, T, B, strict, lenient)
        viol('inserting s.encode(%s) gives %s, inserting s gives %s' % (codec, ascii(B[1])[:120], ascii(T[1])[:120]),
             mech=mech, tag='bdiff')
        return
    if sample:
        ctx.sample({'source': prep.src, 'encoding': prep.enc, 'text': s, 'bytes': repr(b),
                    'render(text)': T[1], 'render(bytes)': B[1]})


# ---------------------------------------------------------------- non-string values
def _site(key, syntax, src, fmt, via, quoted, by_name, only_exc=False, route='simple'):
    return {'key': key, 'syntax': syntax, 'src': src, 'fmt': fmt, 'via': via, 'quoted': quoted,
            'by_name': by_name, 'only_exc': only_exc, 'route': route}


VALUE_SITES = [
    _site('expr', 'dtml', 'A<dtml-var "x">B', 'A{0}B', 'x', False, False),
    _site('expr=', 'ssi', 'A<!--#var expr="x"-->B', 'A{0}B', 'x', False, False),
    _site('expr hq', 'dtml', 'A<dtml-var "x" html_quote>B', 'A{0}B', 'x', True, False),
    _site('expr missing (full path)', 'dtml', 'A<dtml-var "x" missing=M>B', 'A{0}B', 'x', False, False, route='full'),
    _site('expr hq missing (full path)', 'dtml', 'A<dtml-var "x" html_quote missing=M>B', 'A{0}B', 'x', True, False,
          route='full'),
    _site('expr fmt=html-quote', 'dtml', 'A<dtml-var "x" fmt=html-quote>B', 'A{0}B', 'x', True, False, route='fmt'),
    _site('name', 'dtml', 'A<dtml-var x>B', 'A{0}B', 'x', False, True),
    _site('name missing (full path)', 'dtml', 'A<dtml-var x missing=M>B', 'A{0}B', 'x', False, True, route='full'),
    _site('entity', 'dtml', 'A&dtml-x;B', 'A{0}B', 'x', True, True),
    _site('thunk', 'dtml', 'A<dtml-var f>B', 'A{0}B', 'thunk', False, False),
    _site('thunk entity', 'dtml', 'A&dtml-f;B', 'A{0}B', 'thunk', True, False),
    _site('in item', 'dtml', 'A<dtml-in seq><dtml-var sequence-item></dtml-in>B', 'A{0}B', 'item1', False, True),
    _site('in items multi', 'dtml', 'A<dtml-in seq>[&dtml-sequence-item;]</dtml-in>B', 'A[{0}][{0}]B', 'item2', True, True),
    _site('let expr', 'dtml', 'A<dtml-let y="x">(<dtml-var "y">)</dtml-let>B', 'A({0})B', 'x', False, False),
    _site('with body', 'dtml', 'A<dtml-with nsmap mapping><dtml-var "x"></dtml-with>B', 'A{0}B', 'x', False, False),
    _site('try body + else', 'dtml', '<dtml-try><dtml-var "x"><dtml-except ZeroDivisionError>U<dtml-else>E</dtml-try>',
          '{0}E', 'x', False, False),
    _site('try finally', 'dtml', '<dtml-try>[<dtml-var "x">]<dtml-finally>F</dtml-try>', '[{0}]F', 'x', False, False),
    _site('error_value', 'dtml', 'A<dtml-try><dtml-var boom><dtml-except>[<dtml-var error_value>]</dtml-try>B',
          'A[{0}]B', 'boom', False, True, only_exc=True),
    _site('error_value single hq', 'dtml', 'A<dtml-try><dtml-var boom><dtml-except>&dtml-error_value;</dtml-try>B',
          'A{0}B', 'boom', True, True, only_exc=True),
    _site('epfs name', 'epfs', 'A%(x)sB', 'A{0}B', 'x', False, True),
    _site('epfs expr', 'epfs', 'A%(var expr="x")sB', 'A{0}B', 'x', False, False),
    _site('epfs in item', 'epfs', 'A%(in seq)[<%(sequence-item)s>%(in seq)]B', 'A<{0}>B', 'item1', False, True),
]
VALUE_SITE = {s['key']: s for s in VALUE_SITES}
_site_cache = {}


def site_template(site, enc):
    k = (site['key'], enc)
    t = _site_cache.get(k)
    if t is None:
        t = _site_cache[k] = U.make_templates(site['src'], {}, site['syntax'], enc)[0]
    return t


def site_namespace(site, v):
    ns = {'nsmap': {'w': 'W'}}
    via = site['via']
    if via == 'x':
        ns['x'] = v
    elif via == 'thunk':
        ns['f'] = lambda v=v: v
    elif via == 'item1':
        ns['seq'] = [v]
    elif via == 'item2':
        ns['seq'] = [v, v]
    elif via == 'boom':
        ns['boom'] = U.Boom(v)
    return ns


def expected_renderings(site, accept):
    out = set()
    for a in accept:
        if site['quoted']:
            out.add(site['fmt'].format(U.esc_strict(a)))
            out.add(site['fmt'].format(U.esc_lenient(a)))
        else:
            out.add(site['fmt'].format(a))
    return out


def classify_value(site, recipe, enc, o, mon):
    if o[0] == 'raise' and isinstance(o[1], TypeError):
        f, fn = tb_tail(o[1])
        # mechanism: ustr() was handed a class object and its getattr(v, '__str__')() call failed
        if (('class', 'TypeError') in mon.ustr_raised and f == 'ustr.py' and fn == 'ustr'
                and '__str__' in str(o[1])):
            return MECH_CLASS
        # mechanism: the value's message is bytes (one piece) and try adds its else/finally block with +
        if (f == 'DT_Try.py' and fn in ('render_try_except', 'render_try_finally') and 'concat' in str(o[1])
                and site['key'].startswith('try ')):
            return MECH_TRY
        return None
    if (o[0] == 'ok' and isinstance(o[1], str) and site['quoted'] and site['route'] in ('full', 'fmt')
            and mon.hq_noenc and U.codec_of(enc) != 'latin-1'):
        # mechanism: html_quote got bytes without the template encoding; does Latin-1 explain the text?
        alt = U.make_value(recipe, enc, bytes_codec='latin-1')[1]['accept']
        if alt is not None and o[1] in expected_renderings(site, alt):
            return MECH_LATIN1
    return None


def value_case(ctx, mon, site, enc, recipe, sample=False):
    v, spec = U.make_value(recipe, enc)
    if site['by_name'] and spec['callable']:
        return
    if site['only_exc'] and not isinstance(v, Exception):
        return
    if site['via'] == 'boom' and not isinstance(v, Exception):
        return
    ns = site_namespace(site, v)
    tmpl = site_template(site, enc)
    ctx.case(('value', site['key'], enc, recipe), spec['accept'] is not None)
    ctx.table('value kind x site', '%s|%s' % (spec['kind'] if spec['kind'] != 'exc' else
                                              'exc/%d args' % len(recipe[2]), site['key']))
    accept = spec['accept']
    expected = expected_renderings(site, accept) if accept is not None else None
    mon.reset()
    o = outcome(lambda: tmpl(None, ns))
    case = {'kind': 'value', 'site': site['key'], 'enc': enc, 'value': recipe}
    key = 'val_%s_%s_%s' % (site['key'].replace(' ', '-'), enc, '-'.join(str(x) for x in recipe[:2])[:40])
    key = ''.join(c if c.isalnum() or c in '-_.' else '_' for c in key)
    detail = {'source': site['src'], 'value': ascii(v)[:120], 'observed': show(o),
              'accepted': sorted(ascii(e) for e in (expected or []))[:6]}
    for msg in mon.bad:
        ctx.violation('postcondition of a wrapped function failed: ' + msg[:200], case, key='post_' + key, detail=detail)
    ctx.count('value:evaluations')
    if o[0] == 'raise':
        if spec['may_raise']:
            ctx.table('misbehaving __str__ (not judged beyond text-ness)', '%s: raised %s' % (spec['kind'], type(o[1]).__name__))
            return
        ctx.violation('inserting %s raised %s: %s (in %s) although str(value) works'
                      % (ascii(v)[:60], type(o[1]).__name__, str(o[1])[:100], '/'.join(tb_tail(o[1]))),
                      case, mech=classify_value(site, recipe, enc, o, mon), key=key, detail=detail)
        return
    r = o[1]
    if not isinstance(r, str):
        ctx.violation('multi-piece rendering is %s, not text' % type(r).__name__, case, key='type_' + key, detail=detail)
        return
    if spec['may_raise'] and expected is None:
        ctx.table('misbehaving __str__ (not judged beyond text-ness)', '%s: rendered text' % spec['kind'])
        return
    if expected is not None and r not in expected:
        ctx.violation('value %s inserted as %s; str() form gives %s'
                      % (ascii(v)[:60], ascii(r)[:100], sorted(ascii(e) for e in expected)[:3]),
                      case, mech=classify_value(site, recipe, enc, o, mon), key='str_' + key, detail=detail)
        return
    if spec['may_raise']:
        ctx.table('misbehaving __str__ (not judged beyond text-ness)', '%s: inserted decoded' % spec['kind'])
    if sample:
        ctx.sample({'source': site['src'], 'value': ascii(v)[:80], 'encoding': enc, 'render': r})


# ---------------------------------------------------------------- conversion histories (part F)
def _seq_site(key, syntax, head, open_, item_src, item, close, tail):
    """One rendering that inserts a whole list of values.  `item` = pieces of one item's output:
    literal text, 0 = the value's text, 1 = the value's text HTML-quoted."""
    return {'key': key, 'syntax': syntax, 'head': head, 'src': head + open_ + item_src + close + tail,
            'item': item, 'tail': tail, 'vars': False}


SEQ_SITES = [
    _seq_site('in items', 'dtml', 'A', '<dtml-in seq>', '[<dtml-var sequence-item>]', ('[', 0, ']'), '</dtml-in>', 'B'),
    _seq_site('in items adjacent', 'dtml', '', '<dtml-in seq>', '<dtml-var sequence-item>', (0,), '</dtml-in>', ''),
    _seq_site('in items entity', 'dtml', 'A', '<dtml-in seq>', '&dtml-sequence-item;,', (1, ','), '</dtml-in>', 'B'),
    _seq_site('in items expr + hq', 'dtml', 'A', '<dtml-in seq>',
              '(<dtml-var "_[\'sequence-item\']">=<dtml-var sequence-item html_quote>)', ('(', 0, '=', 1, ')'),
              '</dtml-in>', 'B'),
    _seq_site('in items full path', 'dtml', '', '<dtml-in seq>', '<dtml-var sequence-item missing=M>;', (0, ';'),
              '</dtml-in>', ''),
    _seq_site('in items fmt=html-quote', 'dtml', 'A', '<dtml-in seq>', '<dtml-var sequence-item fmt=html-quote>|',
              (1, '|'), '</dtml-in>', 'B'),
    _seq_site('in items reversed twice', 'dtml', 'A', '<dtml-in seq reverse>',
              '<dtml-var sequence-item>/<dtml-var sequence-item>;', (0, '/', 0, ';'), '</dtml-in>', 'B'),
    _seq_site('in items let', 'dtml', 'A', '<dtml-in seq>',
              '<dtml-let y=sequence-item>{<dtml-var y>}</dtml-let>', ('{', 0, '}'), '</dtml-in>', 'B'),
    _seq_site('ssi in items', 'ssi', 'A', '<!--#in seq-->', '[<!--#var sequence-item-->]', ('[', 0, ']'),
              '<!--#/in-->', 'B'),
    _seq_site('epfs in items', 'epfs', 'A', '%(in seq)[', '<%(sequence-item)s>', ('<', 0, '>'), '%(in seq)]', 'B'),
    {'key': 'vars side by side', 'syntax': 'dtml', 'head': 'A', 'tail': 'B', 'item': (0, '|'), 'vars': '<dtml-var v%d>|'},
    {'key': 'entities side by side', 'syntax': 'dtml', 'head': '', 'tail': '', 'item': (1, ' '), 'vars': '&dtml-v%d; '},
    {'key': 'exprs adjacent', 'syntax': 'dtml', 'head': '', 'tail': '', 'item': (0,), 'vars': '<dtml-var "v%d">'},
    {'key': 'epfs vars side by side', 'syntax': 'epfs', 'head': 'A', 'tail': 'B', 'item': (0, '|'), 'vars': '%%(v%d)s|'},
]
SEQ_SITE = {s['key']: s for s in SEQ_SITES}


def seq_template(site, enc, n):
    k = ('seq', site['key'], enc, n if site['vars'] else 0)
    t = _site_cache.get(k)
    if t is None:
        if site['vars']:
            src = site['head'] + ''.join(site['vars'] % i for i in range(n)) + site['tail']
        else:
            src = site['src']
        t = _site_cache[k] = U.make_templates(src, {}, site['syntax'], enc)[0]
    return t


def seq_alternatives(site, accepts, reverse=False):
    alts = []
    for accept in (reversed(accepts) if reverse else accepts):
        one = set()
        for a in accept:
            for esc in (U.esc_strict, U.esc_lenient):
                one.add(''.join(p if isinstance(p, str) else (a if p == 0 else esc(a)) for p in site['item']))
        alts.append(sorted(one))
    return alts


def history_plans(tier, rng, shard, nshards):
    """Plans of this shard.  The grid part is enumerated and dealt out by index; the seeded part is
    drawn from the shard's own generator."""
    vsites = [s for s in VALUE_SITES]
    encs = [None, 'latin-1', 'utf-16', 'utf-8', 'cp1252']
    plans = []
    idx = [0]

    def add(family, setup, steps, flavour):
        idx[0] += 1
        if idx[0] % nshards == shard:
            plans.append({'kind': 'history', 'family': family, 'flavour': flavour, 'setup': setup, 'steps': steps})

    for fam, members in U.HISTORY_FAMILIES.items():
        k = len(members)
        is_exc = fam in U.EXCEPTION_FAMILIES
        sites = [s['key'] for s in vsites if is_exc or not s['only_exc']]
        persist_modes = (False,) if fam in U.DROP_FAMILIES else (True, False)
        setup = [['m%d' % i, e] for i, e in enumerate(members)]
        fwd = list(range(k))
        orders = {'forward': fwd, 'reverse': fwd[::-1], 'twice': fwd + fwd, 'there and back': fwd + fwd[::-1]}
        n = 0
        for oname, order in orders.items():
            for sk in sites:
                for persist in persist_modes:
                    n += 1
                    enc = encs[n % len(encs)]
                    ref = (lambda i: 'm%d' % i) if persist else (lambda i: members[i])
                    add(fam, setup if persist else [], [['ins', ref(i), sk, enc] for i in order],
                        '%s/%s' % (oname, 'same objects' if persist else 'fresh objects'))
        # every ordered pair a, b, a
        for i in range(k):
            for j in range(k):
                if i == j:
                    continue
                for sk in (sites if tier == 'thorough' else [sites[(n + i * k + j) % len(sites)]]):
                    n += 1
                    enc = encs[n % len(encs)]
                    add(fam, [], [['ins', members[x], sk, enc] for x in (i, j, i)], 'pair a b a/fresh objects')
        # one rendering with all of them
        for ss in SEQ_SITES:
            for oname in ('forward', 'reverse', 'there and back'):
                n += 1
                enc = encs[n % len(encs)]
                add(fam, [], [['seq', [members[i] for i in orders[oname]], ss['key'], enc]], 'one rendering/' + oname)
    for name, (setup, obj, muts) in U.HISTORY_MUTATIONS.items():
        is_exc = obj == 'E'
        n = 0
        for s in vsites:
            if s['only_exc'] and not is_exc:
                continue
            n += 1
            enc = encs[n % len(encs)]
            steps = [['ins', obj, s['key'], enc]]
            for m in muts:
                steps += [['do', m], ['ins', obj, s['key'], enc]]
            add('mutated: ' + name, setup, steps, 'mutation between insertions')
        for ss in SEQ_SITES:
            # the same object several times in one rendering is one text; mutate between renderings
            n += 1
            enc = encs[n % len(encs)]
            steps = [['seq', [obj, obj], ss['key'], enc]]
            for m in muts:
                steps += [['do', m], ['seq', [obj, obj], ss['key'], enc]]
            add('mutated: ' + name, setup, steps, 'mutation between renderings')
    # seeded: members of one or two families, sites and encodings changing from step to step
    fams = list(U.HISTORY_FAMILIES)
    for _ in range({'quick': 24, 'thorough': 400}[tier]):
        chosen = rng.sample(fams, rng.choice([1, 1, 2]))
        pool = [(f, e) for f in chosen for e in U.HISTORY_FAMILIES[f]]
        steps = []
        for _s in range(rng.randint(4, 24)):
            f, e = rng.choice(pool)
            if rng.random() < 0.15:
                ss = rng.choice(SEQ_SITES)
                steps.append(['seq', [rng.choice(pool)[1] for _i in range(rng.randint(2, 6))], ss['key'], rng.choice(encs)])
                continue
            cand = [s['key'] for s in vsites if not s['only_exc'] or f in U.EXCEPTION_FAMILIES]
            steps.append(['ins', e, rng.choice(cand), rng.choice(encs)])
        plans.append({'kind': 'history', 'family': '+'.join(sorted(chosen)), 'flavour': 'seeded walk',
                      'setup': [], 'steps': steps})
    return plans


def history_case(ctx, mon, plan):
    """Run one history; every insertion is judged against str(value) taken at that moment."""
    env = U.history_env()
    for name, expr in plan['setup']:
        env[name] = eval(expr, env)
    drop = plan['family'] in U.DROP_FAMILIES
    earlier = []          # (value or None when dropped, class name, text at insertion time, id)
    mutated = False
    nontrivial = False
    ctx.count('F:history sequences')
    ctx.table('history family x flavour', '%s|%s' % (plan['family'] if plan['flavour'] != 'seeded walk' else 'seeded',
                                                     plan['flavour']))

    def note(v):
        """Classify what this insertion has to tell apart from the sequence so far."""
        nonlocal nontrivial
        text = str(v) if not isinstance(v, BaseException) else repr(v)
        kinds = set()
        for (w, cname, wtext, wid) in earlier:
            if w is None:
                if cname == type(v).__name__ and wtext != text:
                    kinds.add('fresh object after a dropped one of its class with another text')
                    if wid == id(v):
                        kinds.add('object at the address of a dropped one with another text (informational)')
            elif w is v:
                if wtext != text:
                    kinds.add('same object, text changed since its earlier insertion')
            elif type(w) is type(v) and U.confusable(w, v):
                kinds.add('equal to an earlier value of its class that prints differently')
            elif U.confusable(w, v):
                kinds.add('equal to an earlier value of another class that prints differently')
            elif isinstance(v, BaseException) and isinstance(w, BaseException) and w.args == v.args and wtext != text:
                kinds.add('exception with arguments equal to an earlier one that reads differently')
        for kd in kinds:
            ctx.count('F:insertions ' + kd)
            nontrivial = True
        earlier.append((None if drop else v, type(v).__name__, text, id(v)))

    def fail(i, what, detail, tag):
        case = dict(plan)
        case['fail_step'] = i
        key = 'hist_%s_%s_%s' % (tag, plan['family'], plan['steps'][i][2] if plan['steps'][i][0] != 'do' else '')
        key = ''.join(c if c.isalnum() or c in '-_.' else '_' for c in key)[:120]
        ctx.violation(what, case, key=key, detail=detail)

    for i, step in enumerate(plan['steps']):
        if step[0] == 'do':
            eval(step[1], env)
            mutated = True
            continue
        if step[0] == 'ins':
            _k, expr, sk, enc = step
            site = VALUE_SITE[sk]
            v = eval(expr, env)
            if (site['by_name'] and callable(v)) or (site['only_exc'] and not isinstance(v, Exception)):
                ctx.count('F:steps skipped (site does not take the value)')
                continue
            accept = U.value_texts_of(v, U.codec_of(enc))
            expected = expected_renderings(site, accept)
            note(v)
            tmpl = site_template(site, enc)
            ns = site_namespace(site, v)
            mon.reset()
            o = outcome(lambda: tmpl(None, ns))
            ns = None
            ctx.count('F:history insertions judged')
            ctx.table('history site', sk)
            detail = {'source': site['src'], 'value': expr, 'step': i, 'observed': show(o),
                      'accepted': sorted(ascii(e) for e in expected)[:6],
                      'steps so far': [ascii(st[1])[:60] for st in plan['steps'][:i + 1]][-12:]}
            for msg in mon.bad:
                fail(i, 'postcondition of a wrapped function failed: ' + msg[:200], detail, 'post')
            if o[0] == 'raise':
                fail(i, 'step %d of a history: inserting %s raised %s: %s (in %s) although str(value) works'
                     % (i, expr[:60], type(o[1]).__name__, str(o[1])[:100], '/'.join(tb_tail(o[1]))), detail, 'raise')
            elif not isinstance(o[1], str):
                fail(i, 'step %d of a history: multi-piece rendering is %s, not text' % (i, type(o[1]).__name__),
                     detail, 'type')
            elif o[1] not in expected:
                fail(i, 'step %d of a history: value %s inserted as %s; its str() form gives %s (earlier steps inserted '
                     'other values in this process)' % (i, expr[:60], ascii(o[1])[:100],
                                                        sorted(ascii(e) for e in expected)[:3]), detail, 'str')
            o = None
            v = None
            continue
        # one rendering of several values
        _k, exprs, sk, enc = step
        site = SEQ_SITE[sk]
        vals = [eval(e, env) for e in exprs]
        accepts = [U.value_texts_of(v, U.codec_of(enc)) for v in vals]
        for v in vals:
            note(v)
        if site['vars']:
            ns = {'v%d' % j: v for j, v in enumerate(vals)}
        else:
            ns = {'seq': list(vals)}
        tmpl = seq_template(site, enc, len(vals))
        alts = seq_alternatives(site, accepts, reverse='reverse>' in site.get('src', ''))
        mon.reset()
        o = outcome(lambda: tmpl(None, ns))
        ns = None
        vals = None
        ctx.count('F:one-rendering sequences judged')
        ctx.table('history site', 'seq: ' + sk)
        detail = {'site': sk, 'values': [e[:60] for e in exprs], 'step': i, 'observed': show(o),
                  'expected items': [a[:3] for a in alts][:12]}
        for msg in mon.bad:
            fail(i, 'postcondition of a wrapped function failed: ' + msg[:200], detail, 'post')
        if o[0] == 'raise':
            fail(i, 'step %d of a history: one rendering of %d values raised %s: %s (in %s)'
                 % (i, len(exprs), type(o[1]).__name__, str(o[1])[:100], '/'.join(tb_tail(o[1]))), detail, 'seqraise')
        elif not isinstance(o[1], str):
            fail(i, 'step %d of a history: multi-piece rendering is %s, not text' % (i, type(o[1]).__name__),
                 detail, 'seqtype')
        elif not U.match_concat(o[1], site['head'], alts, site['tail']):
            fail(i, 'step %d of a history: one rendering of %s gives %s, not the str() form of each value in turn'
                 % (i, [e[:30] for e in exprs][:8], ascii(o[1])[:160]), detail, 'seqstr')
        o = None
    ctx.case(('history', plan['family'], plan['flavour'], repr(plan['steps'])), nontrivial)
    if mutated:
        ctx.count('F:histories with mutation between insertions')


# ---------------------------------------------------------------- informational
OTHER_MODS = ['upper', 'lower', 'capitalize', 'spacify', 'url_quote', 'url_quote_plus', 'url_unquote',
              'sql_quote', 'newline_to_br', 'thousands_commas', 'size=3', 'fmt=url-quote', 'fmt=sql-quote']


def other_modifiers(ctx):
    from DocumentTemplate.DT_HTML import HTML
    for mod in OTHER_MODS:
        for enc in U.ENCODINGS:
            t = HTML('A<dtml-var x %s>B' % mod, **({} if enc is None else {'encoding': enc}))
            for s in ('plain_text', 'caf\xe9_x', '\u20ac_1'):
                if not U.encodable(s, enc):
                    continue
                T = outcome(lambda: t(x=s))
                B = outcome(lambda: t(x=s.encode(U.codec_of(enc))))
                if T[0] == 'raise':
                    k = 'both raised' if B[0] == 'raise' else 'text raised'
                elif B[0] == 'raise':
                    k = 'bytes raised ' + type(B[1]).__name__
                else:
                    k = 'equal' if B[1] == T[1] else 'different'
                ctx.table('not judged: other modifiers, bytes vs text', '%s|%s|%s' % (mod, U.text_class(s), k))


# ---------------------------------------------------------------- workload
def form_variants():
    return [(sy, f) for sy in U.SYNTAXES for f in U.forms_for(sy)]


def part_b_templates():
    """Deterministic list of (syntax, form, ctxlabel, shape, wrap, enc, ast)."""
    out = []
    shapes = U.body_shapes()
    for sy, f in form_variants():
        for shape, body in shapes.items():
            for label, node in U.contexts(body).items():
                for wrap, ast in U.wraps(node).items():
                    for enc in U.ENCODINGS:
                        out.append((sy, f, label, shape, wrap, enc, ast))
    return out


def value_texts(enc, tier):
    base = ['plain', 'caf\xe9 <b>', "it's"]
    if enc != 'latin-1':
        base.append('\u20ac \U0001F600 \u4e2d')
    if tier == 'thorough':
        base += [t for t in U.sample_texts(enc) if t not in base and len(t) < 40]
    return base


def run(ctx, spec):
    mon = Monitors(ctx)
    reach = make_reach()
    reach.start()
    mon.install()
    rng = ctx.rng
    tier = ctx.tier

    # ---- A: single code points, every form, top level
    i = 0
    top = [['lit', 'A'], ['ins'], ['lit', 'B']]
    for sy, f in form_variants():
        for enc in U.ENCODINGS:
            i += 1
            if i % ctx.nshards != ctx.shard:
                continue
            prep = Prep(sy, f, enc, top)
            for ch in U.single_chars(enc):
                ctx.count('A:single code point cases')
                diff_case(ctx, mon, prep, ch, 'A')
                ctx.table('form x context', '%s|top level' % f)
                ctx.table('syntax x context', '%s|top level' % sy)

    # ---- B: every form x every join path
    nb = B_TEXTS[tier]
    for j, (sy, f, label, shape, wrap, enc, ast) in enumerate(part_b_templates()):
        if j % ctx.nshards != ctx.shard:
            continue
        prep = Prep(sy, f, enc, ast)
        texts = U.sample_texts(enc)
        # a hard text always, the rest rotating through the pool
        chosen = []
        for k in range(nb):
            t = texts[(j // ctx.nshards + k * 5) % len(texts)] if k else \
                ("caf\xe9 <\xfc>&'" if enc in ('latin-1', 'cp1252') else "\xe9\u20ac<\U0001F600>&'")
            if t not in chosen:
                chosen.append(t)
        for s in chosen:
            ctx.count('B:form x join path cases')
            diff_case(ctx, mon, prep, s, 'B', sample=(j % 9973 == 11 and s != chosen[0]))
        ctx.table('form x context', '%s|%s' % (f, label), len(chosen))
        ctx.table('syntax x context', '%s|%s' % (sy, label), len(chosen))
        ctx.table('body shape x wrap', '%s|%s' % (shape, wrap), len(chosen))

    # ---- C: seeded nested templates
    variants = form_variants()
    for _ in range(C_TEMPLATES[tier] // ctx.nshards):
        sy, f = rng.choice(variants)
        enc = rng.choice(U.ENCODINGS)
        ast = U.gen_random(rng, rng.choice([1, 2, 2, 3]))
        prep = Prep(sy, f, enc, ast)
        ctx.count('C:seeded nested templates')
        ctx.table('nested depth', U.depth_of(ast))
        for kk in prep.kinds:
            ctx.table('form x context', '%s|nested %s' % (f, kk.split(':')[0]))
        for _k in range(C_TEXTS[tier]):
            diff_case(ctx, mon, prep, U.random_text(rng, enc), 'C')

    # ---- D: non-string values
    n = 0
    for enc in (None, 'latin-1', 'utf-16'):
        recipes = U.value_recipes(value_texts(enc, tier))
        for site in VALUE_SITES:
            for recipe in recipes:
                n += 1
                if n % ctx.nshards != ctx.shard:
                    continue
                value_case(ctx, mon, site, enc, recipe, sample=(n % 1511 == 7))

    # ---- F: conversion histories (equal-but-differently-printing values, mutated and recycled objects)
    for plan in history_plans(tier, rng, ctx.shard, ctx.nshards):
        history_case(ctx, mon, plan)

    # ---- E: file-based template classes (created without any encoding: "UTF-8 by default")
    import shutil
    import tempfile
    tmpdir = tempfile.mkdtemp(prefix='c19-files-')
    try:
        n = 0
        body = [['lit', '['], ['ins'], ['lit', ']']]
        shapes = {'top level': [['lit', 'A'], ['ins'], ['lit', 'B']],
                  'in ints n=3': [['in', {'n': 3, 'items': False, 'batch': None}, body, None]],
                  'in items n=3': [['in', {'n': 3, 'items': True, 'batch': None}, [['ins']], None]],
                  'with mapping': [['lit', 'A'], ['with', 'mapping', body]],
                  'try plain': [['try', 'plain', body, []], ['lit', 'B']]}
        for sy, f in form_variants():
            for label, ast in shapes.items():
                n += 1
                if n % ctx.nshards != ctx.shard:
                    continue
                prep = Prep(sy, f, None, ast, filedir=tmpdir)
                for s in U.sample_texts(None):
                    ctx.count('E:file-based template cases')
                    diff_case(ctx, mon, prep, s, 'E')
                ctx.table('file-based classes: syntax x context', '%s|%s' % (sy, label))
    finally:
        shutil.rmtree(tmpdir, ignore_errors=True)

    if ctx.shard == 0:
        other_modifiers(ctx)
    reach.stop()
    reach.report(ctx)
    for label in reach.absent:
        ctx.count('reach: private anchor not present in this tree (diagnosis only):' + label)


# ---------------------------------------------------------------- finish / replay
def finish(agg):
    c = agg['counters']
    t = agg.get('tables', {})
    inc = []
    for k in ('diff:multi-piece evaluations', 'diff:multi-piece evaluations with non-ASCII bytes',
              'value:evaluations', 'E:file-based template cases', 'join_unicode:bytes present (decoding branch)', 'join_unicode:all text',
              'render_blocks:single bytes piece returned as is', 'render_blocks:text result',
              'html_quote:bytes with encoding', 'html_quote:text'):
        if not c.get(k):
            inc.append('deciding counter is zero: ' + k)
    for k in ('F:history insertions judged', 'F:one-rendering sequences judged',
              'F:histories with mutation between insertions',
              'F:insertions equal to an earlier value of its class that prints differently',
              'F:insertions equal to an earlier value of another class that prints differently',
              'F:insertions same object, text changed since its earlier insertion',
              'F:insertions fresh object after a dropped one of its class with another text',
              'F:insertions exception with arguments equal to an earlier one that reads differently'):
        if not c.get(k):
            inc.append('deciding counter is zero: ' + k)
    hs = t.get('history site', {})
    for sk in [v['key'] for v in VALUE_SITES] + ['seq: ' + v['key'] for v in SEQ_SITES]:
        if not hs.get(sk):
            inc.append('no history step through site ' + sk)
    if not (c.get('ustr:class', 0) + c.get('ustr:class raised', 0)):
        inc.append('ustr never saw a class')
    if not (c.get('ustr:exception', 0) + c.get('ustr:exception raised', 0)):
        inc.append('ustr never saw an exception object')
    if not c.get('ustr:other'):
        inc.append('ustr never saw a non-string value')
    for a in ANCHORS:
        if not c.get('reach:' + a):
            if c.get('reach: private anchor not present in this tree (diagnosis only):' + a):
                continue      # renamed private helper: the output comparisons above decide
            inc.append('anchor never entered: ' + a)
    for k in ('join_unicode', 'render_blocks', 'html_quote', 'ustr'):
        if not c.get('wrapper bindings:' + k):
            inc.append('wrapper not bound anywhere: ' + k)
    fc = t.get('form x context', {})
    missing = []
    forms = sorted({f for _sy, f in form_variants()})
    labels = list(U.contexts([['ins']]).keys()) + ['top level']
    for f in forms:
        for lab in labels:
            if not fc.get('%s|%s' % (f, lab)):
                missing.append('%s|%s' % (f, lab))
    if missing:
        inc.append('form x join-path cells never exercised: %d (e.g. %s)' % (len(missing), missing[:3]))
    et = t.get('encoding x text class', {})
    for enc in U.ENCODINGS:
        want = ['ascii', 'latin-1'] if enc == 'latin-1' else ['ascii', 'latin-1', 'bmp'] if enc == 'cp1252' \
            else ['ascii', 'latin-1', 'bmp', 'astral']
        for cl in want:
            if not et.get('%s|%s' % (enc, cl)):
                inc.append('no %s text under encoding %s' % (cl, enc))
    return {'inconclusive': inc,
            'coverage': {'exhaustive': False,
                         'forms': len(forms), 'form_variants_with_syntax': len(form_variants()),
                         'join_paths_depth1': len(labels), 'encodings': [str(e) for e in U.ENCODINGS],
                         'part_b_templates': len(part_b_templates()),
                         'explanation': 'parts A (single code points) and B (form x join path grid) are '
                                        'complete enumerations of their stated grids; C and D(texts) are seeded'}}


def replay(ctx, rep):
    mon = Monitors(ctx)
    mon.install()
    c = rep['case']
    if c.get('kind') == 'value':
        value_case(ctx, mon, VALUE_SITE[c['site']], c['enc'], c['value'])
        return
    if c.get('kind') == 'history':
        history_case(ctx, mon, {k: v for k, v in c.items() if k != 'fail_step'})
        return
    tmpdir = None
    if c.get('file'):
        import tempfile
        tmpdir = tempfile.mkdtemp(prefix='c19-files-')
    try:
        prep = Prep(c['syntax'], c['form'], c['enc'], c['ast'], filedir=tmpdir)
        diff_case(ctx, mon, prep, c['text'], c.get('part', 'R'))
    finally:
        if tmpdir:
            import shutil
            shutil.rmtree(tmpdir, ignore_errors=True)
