"""C18 — concurrent renders of one shared template give sequential results.

Monitor: the step-controlled scheduler of vlib/sched.py (sys.monitoring LINE events in
package files; exactly one worker thread runs at a time; schedules are lists of
(thread, package-line steps)).  COOKLOCK is replaced by a scheduler-aware lock.
Oracle: each thread's result under the schedule (value or exception) must equal the
result the same thunk gives alone on a fresh template object.
Workload: templates over every block tag with per-thread distinct inputs, pre-cooked and
uncooked; 2 threads: every 1-preemption schedule (each step of either thread), 2-preemption
schedules over de-duplicated (file,line) sites; 3 threads: seeded random priority schedules.
"""
import itertools
import os

ID = 'C18'
LEVEL = 'exploration'
RULE = ('one case = (template, cooked/uncooked, schedule); schedules: all single preemptions of '
        'either of 2 threads at every package-line step, 2-preemption schedules over sites '
        'de-duplicated by (file,line) first/last occurrence, seeded random multi-preemption schedules '
        'of 3 threads; a case is non-trivial when at least one preemption was actually taken '
        '(both threads had started and neither had finished); distinct = distinct '
        '(template, variant, schedule) tuples')
ASSUMPTIONS = ['statement-line granularity inside src/DocumentTemplate and src/TreeDisplay; '
               'C extension calls and third-party code are atomic (GIL model of CPython 3.12)',
               'per-thread namespaces share no mutable objects except the template itself and the '
               'objects in the template defaults (shared sub-templates)']
SHARD_TIMEOUT = {'quick': 900, 'thorough': 3400}
NSHARDS = {'quick': 16, 'thorough': 64}


def plan(tier, seed):
    return [{} for _ in range(NSHARDS[tier])]


# ---------------------------------------------------------------- workload
class Ob:
    __allow_access_to_unprotected_subobjects__ = 1

    def __init__(self, **kw):
        self.__dict__.update(kw)


class Node:
    def __init__(self, id, kids=()):
        self.id = id
        self.kids = list(kids)

    def tpId(self):
        return self.id

    def tpValues(self):
        return self.kids

    def tpURL(self):
        return self.id


class Resp:
    def __init__(self):
        self.cookies = []

    def setCookie(self, name, value, **kw):
        self.cookies.append((name, value))


def rows(i, n=5):
    # per-thread distinct data; orders under a and b differ, and differ per thread
    return [{'a': (j * 3 + i) % n, 'b': (j * 2 + 2 * i + 1) % n, 'c': 't%d-%d' % (i, j),
             's': 'Xy'[(j + i) % 2] + str(j)} for j in range(n)]


def objs(i, n=5):
    return [Ob(**r) for r in rows(i, n)]


def tree(i):
    return Node('r%d' % i, [Node('a%d' % i, [Node('aa%d' % i), Node('ab%d' % i)]),
                            Node('b%d' % i, [Node('ba%d' % i)]), Node('c%d' % i)])


def tree_click(i):
    from TreeDisplay.TreeTag import encode_seq
    return encode_seq([['ab'[i % 2] + str(i)]])


def gen(i):
    for r in objs(i):
        yield r


class Boom(Exception):
    pass


def boom(i):
    def f():
        if i % 2:
            raise Boom('boom%d' % i)
        return 'fine%d' % i
    return f


ITEM = '<dtml-var a>/<dtml-var b>/<dtml-var c>;'
# name -> (syntax class, source, namespace factory(i) -> kwargs, defaults factory() or None, guarded)
TEMPLATES = [
    ('var', 'HTML', 'A<dtml-var x> B<dtml-var y upper> C&dtml-z; D<dtml-var "x+y" html_quote>',
     lambda i: dict(x='x%d<' % i, y='y%d' % i, z='z&%d' % i)),
    ('sort_expr', 'HTML', '<dtml-in seq mapping sort_expr="k">' + ITEM + '</dtml-in>',
     lambda i: dict(seq=rows(i), k='ab'[i % 2])),
    ('sort_expr_obj', 'HTML', '<dtml-in seq sort_expr="k">' + ITEM + '</dtml-in>',
     lambda i: dict(seq=objs(i), k='ba'[i % 2])),
    ('sort_expr_batch', 'HTML', '<dtml-in seq mapping sort_expr="k" size=3 start=st>' + ITEM + '</dtml-in>',
     lambda i: dict(seq=rows(i, 7), k='ab'[i % 2], st=1 + i)),
    ('reverse_expr', 'HTML', '<dtml-in seq mapping reverse_expr="r">' + ITEM + '</dtml-in>',
     lambda i: dict(seq=rows(i), r=i % 2)),
    ('sort_static', 'HTML', '<dtml-in seq mapping sort=a reverse>' + ITEM + '</dtml-in>|'
                            '<dtml-in seq mapping sort="s/nocase,b/cmp/desc">' + ITEM + '</dtml-in>',
     lambda i: dict(seq=rows(i))),
    ('batch', 'HTML', '<dtml-in seq mapping start=st size=2 orphan=1 overlap=1>[<dtml-var sequence-number>:'
                      '<dtml-var c>:<dtml-var previous-sequence>:<dtml-var next-sequence>:'
                      '<dtml-var next-sequence-start-number missing=->]</dtml-in>',
     lambda i: dict(seq=rows(i, 7), st=1 + 2 * i)),
    ('prevnext', 'HTML', '<dtml-in seq mapping start=st size=2 previous>P<dtml-var previous-sequence-start-number></dtml-in>'
                         '<dtml-in seq mapping start=st size=2 next>N<dtml-var next-sequence-start-number></dtml-in>',
     lambda i: dict(seq=rows(i, 7), st=3 + i)),
    ('in_vars', 'HTML', '<dtml-in seq prefix=p><dtml-var sequence-index>.<dtml-var p_number>.<dtml-var sequence-letter>.'
                        '<dtml-var sequence-roman>.<dtml-var a>.<dtml-if sequence-end>E</dtml-if>;</dtml-in>'
                        '<dtml-in none>x<dtml-else>EMPTY<dtml-var x></dtml-in>',
     lambda i: dict(seq=objs(i), none=[], x='x%d' % i)),
    ('stats', 'HTML', '<dtml-in seq mapping><dtml-if sequence-end><dtml-var total-a>,<dtml-var mean-b>,'
                      '<dtml-var max-c>,<dtml-var count-a>,<dtml-var median-a></dtml-if></dtml-in>',
     lambda i: dict(seq=rows(i, 4 + i))),
    ('firstlast', 'HTML', '<dtml-in seq mapping sort=a><dtml-if first-a>[</dtml-if><dtml-var c><dtml-if last-a>]</dtml-if></dtml-in>',
     lambda i: dict(seq=rows(i, 6) + rows(i, 3))),
    ('generator', 'HTML', '<dtml-in seq size=3 start=st>' + ITEM + '</dtml-in>|<dtml-in seq2>' + ITEM + '</dtml-in>',
     lambda i: dict(seq=gen(i), seq2=gen(i + 5), st=1 + i)),
    ('nested_in', 'HTML', '<dtml-in outer mapping sort_expr="k"><dtml-var c>(<dtml-in inner mapping sort_expr="k2">'
                          '<dtml-var c>,</dtml-in>)</dtml-in>',
     lambda i: dict(outer=[dict(r, inner=rows(i + j, 3)) for j, r in enumerate(rows(i, 3))],
                    k='ab'[i % 2], k2='ba'[i % 2])),
    ('let_with', 'HTML', '<dtml-let p=x q="p+p" r="q+x"><dtml-var r><dtml-with ob><dtml-var attr>'
                         '<dtml-with m mapping><dtml-var key></dtml-with></dtml-with>'
                         '<dtml-with ob only><dtml-var attr><dtml-var x missing=GONE></dtml-with></dtml-let><dtml-var p missing=NOP>',
     lambda i: dict(x='x%d' % i, ob=Ob(attr='attr%d' % i), m={'key': 'key%d' % i})),
    ('if_chain', 'HTML', '<dtml-if a>A<dtml-var a><dtml-elif "b > 1">B<dtml-var b><dtml-elif c>C<dtml-var c>'
                         '<dtml-else>E</dtml-if><dtml-unless a>U</dtml-unless><dtml-call "r.append(b)"><dtml-var "r[-1]">',
     lambda i: dict(a=[0, 7, 0][i % 3], b=i, c=['', 'cc', 'ccc'][i % 3], r=[])),
    ('try', 'HTML', '<dtml-try>T<dtml-var f>-<dtml-var x><dtml-except Boom>H<dtml-var error_value><dtml-var x>'
                    '<dtml-else>L<dtml-var x></dtml-try><dtml-try><dtml-var f><dtml-finally>F<dtml-var x></dtml-try>',
     lambda i: dict(f=boom(i), x='x%d' % i, Boom=Boom)),
    ('raise', 'HTML', '<dtml-try><dtml-if flag><dtml-raise KeyError>msg<dtml-var x></dtml-raise></dtml-if>ok<dtml-var x>'
                      '<dtml-except KeyError>caught:<dtml-var error_value></dtml-try>',
     lambda i: dict(flag=i % 2, x='x%d' % i)),
    ('return', 'HTML', 'before<dtml-in seq><dtml-if "a == stop"><dtml-return c></dtml-if><dtml-var c></dtml-in>after',
     lambda i: dict(seq=objs(i), stop=1 + i)),
    ('fmt', 'HTML', '<dtml-var n fmt="%05d">|<dtml-var t fmt=collection-length>|<dtml-var s size=4 etc="..">|'
                    '<dtml-var nul null=NUL>|<dtml-var miss missing=MISS>|<dtml-var s url_quote_plus>|'
                    '<dtml-var big thousands_commas>|&dtml.url_quote-s;',
     lambda i: dict(n=7 + i, t=list(range(i)), s='some text %d' % i, nul=None, big=1234567 + i)),
    ('comment', 'HTML', 'a<dtml-comment>hidden <dtml-var nothere></dtml-comment>b<dtml-var x>',
     lambda i: dict(x='x%d' % i)),
    ('epfs', 'String', '%(x)s %(in seq mapping sort_expr="k")[%(c)s,%(in seq)]%(if x)[yes%(else)[no%(if x)]%(n)05d',
     lambda i: dict(x='x%d' % i, seq=rows(i), k='ab'[i % 2], n=i)),
    ('tree', 'HTML', '<dtml-tree root sort=id><dtml-var id></dtml-tree>',
     lambda i: dict(root=tree(i), URL='/u%d' % i, RESPONSE=Resp(), expand_all=1)),
    ('tree_state', 'HTML', '<dtml-tree root reverse><dtml-var id>.</dtml-tree>',
     lambda i: dict(root=tree(i), URL='/u%d' % i, RESPONSE=Resp(), **{'tree-e': tree_click(i)})),
]
# templates whose namespace also carries a *shared* uncooked sub-template (in the defaults)
SUBS = [
    ('subtemplate', 'HTML', 'M<dtml-var x>[<dtml-var sub>]<dtml-in seq mapping>{<dtml-var sub>}</dtml-in>',
     lambda i: dict(x='x%d' % i, seq=rows(i, 2)),
     lambda cls: dict(sub=cls('S<dtml-var x>:<dtml-var c missing=nc>:<dtml-var d>', d='default'))),
    ('subtemplate_sort', 'HTML', '<dtml-var sub>',
     lambda i: dict(seq=rows(i), k='ab'[i % 2]),
     lambda cls: dict(sub=cls('<dtml-in seq mapping sort_expr="k">' + ITEM + '</dtml-in>'))),
]
GUARDED = [
    ('guarded_expr', 'HTML', '<dtml-var "ob.attr"><dtml-in seq sort_expr="k"><dtml-var "_[\'sequence-item\'].c">,</dtml-in>'
                             '<dtml-with ob><dtml-var attr></dtml-with><dtml-var "_.getattr(ob, \'attr\')">',
     lambda i: dict(ob=Ob(attr='attr%d' % i), seq=objs(i), k='ab'[i % 2])),
]


def all_templates():
    out = []
    for t in TEMPLATES:
        out.append(dict(name=t[0], cls=t[1], src=t[2], ns=t[3], defaults=None, guarded=False))
    for t in SUBS:
        out.append(dict(name=t[0], cls=t[1], src=t[2], ns=t[3], defaults=t[4], guarded=False))
    for t in GUARDED:
        out.append(dict(name=t[0], cls=t[1], src=t[2], ns=t[3], defaults=None, guarded=True))
    return out


_CLS = {}


def classes():
    if _CLS:
        return _CLS
    from DocumentTemplate.DT_HTML import HTML
    from DocumentTemplate.DT_String import String

    def ggetattr(self, ob, name):
        if name.startswith('_'):
            from zExceptions import Unauthorized
            raise Unauthorized(name)
        return getattr(ob, name)

    def ggetitem(self, ob, i):
        return ob[i]

    class GHTML(HTML):
        guarded_getattr = ggetattr
        guarded_getitem = ggetitem

    _CLS.update(HTML=HTML, String=String, GHTML=GHTML)
    return _CLS


def make_template(spec, cooked):
    cl = classes()
    cls = cl['GHTML'] if spec['guarded'] else cl[spec['cls']]
    d = spec['defaults'](cls) if spec['defaults'] else {}
    t = cls(spec['src'], **d)
    if cooked:
        t.cook()
        for v in d.values():
            if hasattr(v, 'cook'):
                v.cook()
    return t


def norm(v):
    if isinstance(v, (str, bytes, int, float, type(None))):
        return v
    return repr(v)


def thunk(t, spec, i):
    def run():
        return norm(t(**spec['ns'](i)))
    return run


def sequential(spec, i):
    t = make_template(spec, False)
    try:
        return ('ok', norm(t(**spec['ns'](i))))
    except BaseException as e:
        return ('exc', type(e).__name__, str(e)[:300])


# ---------------------------------------------------------------- executing schedules
class Runner:
    def __init__(self, ctx, sched):
        self.ctx = ctx
        self.sched = sched
        self.expected = {}

    def expect(self, spec, i):
        k = (spec['name'], i)
        if k not in self.expected:
            self.expected[k] = sequential(spec, i)
        return self.expected[k]

    def execute(self, spec, cooked, nthreads, segments, trace=False, kind='1p'):
        from vlib.sched import HarnessStuck
        ctx = self.ctx
        t = make_template(spec, cooked)
        thunks = [thunk(t, spec, i) for i in range(nthreads)]
        try:
            ws = self.sched.execute(thunks, segments, trace=trace)
        except HarnessStuck as e:
            ctx.inconclusive('scheduler watchdog: %s (template %s)' % (e, spec['name']))
            raise
        taken = sum(len(w.preempted_at) for w in ws)
        overlapped = False
        # a preemption is "taken" when the parked worker had started and another had not finished
        for w in ws:
            for (step, f, line) in w.preempted_at:
                overlapped = True
                ctx.table('preemption_sites', '%s:%d' % (f, line))
        desc = (spec['name'], cooked, nthreads, tuple(map(tuple, segments)))
        ctx.case(desc, nontrivial=overlapped)
        ctx.count('executions:' + kind)
        ctx.count('preemptions taken', taken)
        if self.sched.lock.contended:
            ctx.count('cooklock: blocked acquisitions', self.sched.lock.contended)
            self.sched.lock.contended = 0
        for w in ws:
            want = self.expect(spec, w.idx)
            if w.result != want:
                sites = [list(p) for x in ws for p in x.preempted_at]
                mech = None
                ctx.violation(
                    'thread %d of template %r (%s) got %r under schedule %r, alone it gets %r'
                    % (w.idx, spec['name'], 'cooked' if cooked else 'uncooked',
                       short(w.result), segments, short(want)),
                    {'template': spec['name'], 'cooked': cooked, 'threads': nthreads,
                     'segments': [list(s) for s in segments]},
                    mech=mech,
                    key='%s_%s_%s' % (spec['name'], 'c' if cooked else 'u',
                                      '_'.join('%d.%s' % (a, b) for a, b in segments)[:60]),
                    detail={'preempted_at': sites, 'source': spec['src']})
                break
        return ws


def short(r, n=160):
    s = repr(r)
    return s if len(s) <= n else s[:n] + '...'


def one_preemption(runner, spec, cooked, ctx, idx_filter):
    """Schedules with a single preemption: thread p runs k steps, the other runs to completion,
    p finishes.  thorough: every k; quick: for each (file,line) site its first and last
    occurrence plus every 16th step (loop iterations in between repeat the same sites)."""
    ws = runner.execute(spec, cooked, 2, [(0, None), (1, None)], trace=True, kind='baseline')
    steps = [w.steps for w in ws]
    traces = [w.trace for w in ws]
    ctx.count('baseline steps', sum(steps))
    for p in (0, 1):
        q = 1 - p
        if ctx.tier == 'thorough':
            ks = range(steps[p] + 1)
        else:
            ks = sorted(set(edge_occurrences(traces[p], 1)) | set(range(0, steps[p] + 1, 16)) | {steps[p]})
        for k in ks:
            if not idx_filter(0):
                continue
            runner.execute(spec, cooked, 2, [(p, k), (q, None)], kind='1p')
    return steps, traces


def edge_occurrences(trace, n):
    occ = {}
    for i, s in enumerate(trace):
        occ.setdefault(s, []).append(i)
    out = []
    for lst in occ.values():
        out.extend(lst[:n])
        out.extend(lst[-n:])
    return out


def dedup_sites(trace, both_ends=True):
    """Indices of the first (and last) occurrence of each (file,line) in a step trace."""
    first, last = {}, {}
    for i, s in enumerate(trace):
        first.setdefault(s, i)
        last[s] = i
    idx = set(first.values())
    if both_ends:
        idx.update(last.values())
    return sorted(idx)


def two_preemptions(runner, spec, cooked, ctx, traces, idx_filter, cap, rng):
    """A runs k1 steps, B runs k2 steps, A finishes, B finishes (and symmetric)."""
    n = 0
    for p in (0, 1):
        q = 1 - p
        sp = dedup_sites(traces[p], both_ends=ctx.tier == 'thorough')
        sq = dedup_sites(traces[q], both_ends=ctx.tier == 'thorough')
        pairs = [(a, b) for a in sp for b in sq if b > 0]
        if len(pairs) > cap:
            pairs = rng.sample(pairs, cap)
            ctx.count('2p: pair lists capped')
        for (k1, k2) in pairs:
            n += 1
            if not idx_filter(n):
                continue
            runner.execute(spec, cooked, 2, [(p, k1), (q, k2), (p, None), (q, None)], kind='2p')


def random_schedules(runner, spec, cooked, ctx, steps, count, rng, nthreads=3):
    """Seeded random multi-preemption schedules of 3 threads (priority-change-point style:
    d change points at random step positions; at each one the running thread yields to another)."""
    total = max(steps) if steps else 300
    for _ in range(count):
        d = rng.randint(2, 6)
        segs = []
        cur = rng.randrange(nthreads)
        for _j in range(d):
            segs.append((cur, rng.randint(0, total)))
            cur = rng.choice([x for x in range(nthreads) if x != cur])
        segs.append((cur, None))
        runner.execute(spec, cooked, nthreads, segs, kind='pct')


def install(ctx):
    import DocumentTemplate
    import TreeDisplay
    from DocumentTemplate import DT_String
    from vlib.sched import Scheduler
    roots = [os.path.dirname(DocumentTemplate.__file__), os.path.dirname(TreeDisplay.__file__)]
    sched = Scheduler(roots)
    if not hasattr(DT_String, 'COOKLOCK'):
        ctx.inconclusive('DT_String.COOKLOCK not found: cannot make the cook lock cooperative')
    DT_String.COOKLOCK = sched.lock
    sched.install()
    return sched


def warm(specs):
    # first use of each tag imports its module and fills String.commands: do it outside schedules
    for spec in specs:
        for i in range(3):
            sequential(spec, i)


def run(ctx, spec_):
    from vlib.sched import HarnessStuck
    specs = all_templates()
    warm(specs)
    sched = install(ctx)
    runner = Runner(ctx, sched)
    rng = ctx.rng
    quick = ctx.tier == 'quick'
    counter = itertools.count()

    def mine(_n):
        return next(counter) % ctx.nshards == ctx.shard

    try:
        for spec in specs:
            for cooked in (True, False):
                steps, traces = one_preemption(runner, spec, cooked, ctx, mine)
                if ctx.shard == 0:
                    ctx.table('steps_per_template', '%s/%s' % (spec['name'], 'cooked' if cooked else 'uncooked'),
                              sum(steps))
                cap = 150 if quick else 12000
                two_preemptions(runner, spec, cooked, ctx, traces, mine, cap,
                                __import__('random').Random(ctx.seed * 7919 + len(spec['name'])))
                nrand = (2000 if quick else 100000) // (len(specs) * 2 * ctx.nshards) + 1
                random_schedules(runner, spec, cooked, ctx, steps, nrand, rng)
    except HarnessStuck:
        pass
    ctx.count('line events seen in package files', sched.line_events)
    ctx.count('cooklock: acquisitions by scheduled threads', sched.lock.acquisitions)
    if ctx.shard == 0:
        sp = specs[1]
        ws = runner.sched.execute([thunk(make_template(sp, True), sp, i) for i in range(2)],
                                  [(0, 40), (1, None)], trace=False)
        ctx.sample({'template': sp['src'], 'schedule': [[0, 40], [1, None]],
                    'preempted_at': [list(p) for w in ws for p in w.preempted_at],
                    'results': [short(w.result) for w in ws]})
    sched.uninstall()


def finish(agg):
    c = agg['counters']
    inc = []
    if not c.get('line events seen in package files'):
        inc.append('LINE callback saw no package line in any worker')
    if not c.get('preemptions taken'):
        inc.append('no preemption was ever taken (threads never overlapped)')
    for k in ('executions:1p', 'executions:2p', 'executions:pct'):
        if not c.get(k):
            inc.append('no schedule of kind %s ran' % k)
    if not c.get('cooklock: blocked acquisitions'):
        inc.append('no schedule made a thread wait for the cook lock (compile race not exercised)')
    sites = agg['tables'].get('preemption_sites', {})
    return {'inconclusive': inc,
            'coverage': {'distinct_preemption_sites': len(sites),
                         'templates': len(all_templates()) * 2,
                         'exhaustive': False,
                         'single_preemption_all_steps': agg['tier'] == 'thorough',
                         'explanation': 'all single-preemption schedules of 2 threads at package-line '
                                        'granularity; 2-preemption schedules over de-duplicated sites '
                                        '(capped per template, cap counted); random 3-thread schedules'}}


def replay(ctx, rep):
    c = rep['case']
    specs = {s['name']: s for s in all_templates()}
    spec = specs[c['template']]
    warm([spec])
    sched = install(ctx)
    runner = Runner(ctx, sched)
    runner.execute(spec, c['cooked'], c['threads'], [tuple(s) for s in c['segments']], kind='replay')
    sched.uninstall()
