"""C18 — concurrent renders of one shared template give sequential results.

Monitor: the step-controlled scheduler of vlib/sched.py (sys.monitoring LINE events in
package files; exactly one worker thread runs at a time; schedules are lists of
(thread, package-line steps)).  COOKLOCK is replaced by a scheduler-aware lock.
Oracle: each thread's result under the schedule (value or exception) must equal the
result the same thunk gives alone on a fresh template object.
Workload: templates over every block tag with per-thread distinct inputs, pre-cooked and
uncooked; 2 threads: every 1-preemption schedule (each step of either thread), 2-preemption
schedules over de-duplicated (file,line) sites; 3 threads: seeded random priority schedules.

Per-thread inputs include *callables and classes looked up by name in the namespace*:
comparison functions of sort="key/func" (static and through sort_expr, single and multi key),
functions called from expressions, by dtml-var/in/with/if name lookup, fmt=method, exception
classes raised through dtml-raise "expr" / by a called name (handled or not by dtml-except), and
per-thread (unshared) sub-templates.
Template kinds: string based HTML / String, file based HTMLFile / File (source read at the first
render), a shared file based sub-template, HTMLDefault.
Template histories (variants): cooked by cook(); uncooked (first renders race to compile);
"rendered" (compiled by an earlier render with other values); "restored" (deep copy through
__getstate__, i.e. what unpickling gives: compiled state dropped, all sub-templates too).
Deep compile-race schedules (vlib/c18_util.py): preemption points right before/after every line
on which a thread alone touches an instance attribute of the shared template objects that is
written during the render (log taken by a harness subclass, attribute names not assumed);
over these points: 3 threads with 2 preemptions of one thread (another thread runs to the end in
each gap), 2 threads with 3 preemptions, thorough also 4.  Plus the 6 preemption-free orders of
3 threads on every variant.
"Same place" schedules: both threads stopped at matching steps of their traces (same line, same
occurrence number), then A finishes, then B -- two threads inside the same region at once, the
diagonal that the sampled 2-preemption pairs only touch by luck.
"""
import atexit
import copy
import itertools
import os
import shutil
import tempfile

from vlib import c18_util as U

ID = 'C18'
LEVEL = 'exploration'
RULE = ('one case = (template, cooked/uncooked, schedule); schedules: all single preemptions of '
        'either of 2 threads at every package-line step, 2-preemption schedules over sites '
        'de-duplicated by (file,line) first/last occurrence, seeded random multi-preemption schedules '
        'of 3 threads; a case is non-trivial when at least one preemption was actually taken '
        '(both threads had started and neither had finished); distinct = distinct '
        '(template, variant, schedule) tuples.  Added: templates whose per-thread values are functions / '
        'classes found by name in the namespace (sort="key/func" comparison functions, called names, '
        'raised exception classes, own sub-templates); file based templates (HTMLFile, File, shared HTMLFile '
        'sub-template) and HTMLDefault; variants rendered (compiled by an earlier render with other '
        'values) and restored (deep copy via __getstate__); deep compile-race schedules over the steps '
        'at which a thread touches a written instance attribute of the shared template objects: '
        '3 threads / 2 preemptions (all point pairs; uncooked, and restored for file based / '
        'shared-sub-template / smallest templates, thorough: all), 2 threads / 3 preemptions '
        '(quick: uncooked only, all triples up to 330 per role for file based templates and the smallest '
        'template, seeded sample of 12 per role otherwise; thorough: all, both variants), 2 threads / 4 '
        'preemptions (thorough, capped, caps counted); the 6 preemption-free orders of 3 threads on '
        'each of the 4 variants; in the generic loop the callables templates run cooked only (their tags '
        'are compiled in other uncooked units) and the file based one uncooked only (once cooked it runs '
        'the code of a string based one); "same place" '
        'schedules: A stops at every 16th (thorough 4th) step of its baseline trace, B at the matching '
        'occurrence of the same (file,line) in its own, A finishes, B finishes (roles alternate; quick: '
        'cooked variants and the single-variant templates)')
ASSUMPTIONS = ['statement-line granularity inside src/DocumentTemplate and src/TreeDisplay; '
               'C extension calls and third-party code are atomic (GIL model of CPython 3.12)',
               'per-thread namespaces share no mutable objects except the template itself and the '
               'objects in the template defaults (shared sub-templates)',
               'deep compile-race schedules preempt only around accesses of instance attributes of the '
               'shared template objects that are written during a render (found by a logging subclass in '
               'a solo discovery run; fallback: 8 evenly spaced sites of the compile window); races on '
               'other shared objects at depth > 2 are only sampled by the random schedules',
               'per-thread comparison functions and other callables are harness code: atomic for the '
               'scheduler, they share nothing between threads']
SHARD_TIMEOUT = {'quick': 900, 'thorough': 3400}
NSHARDS = {'quick': 16, 'thorough': 64}
PIN_CPU = True      # one CPU per shard: thread hand-offs across CPUs are 30x dearer in this sandbox (vlib/run.py)


def plan(tier, seed):
    return [{} for _ in range(NSHARDS[tier])]


# ---------------------------------------------------------------- workload
class Ob:
    __allow_access_to_unprotected_subobjects__ = 1

    def __init__(self, **kw):
        self.__dict__.update(kw)


class Node:
    def __init__(self, id, kids=()):
        self.id = id
        self.kids = list(kids)

    def tpId(self):
        return self.id

    def tpValues(self):
        return self.kids

    def tpURL(self):
        return self.id


class Resp:
    def __init__(self):
        self.cookies = []

    def setCookie(self, name, value, **kw):
        self.cookies.append((name, value))


def rows(i, n=5):
    # per-thread distinct data; orders under a and b differ, and differ per thread
    return [{'a': (j * 3 + i) % n, 'b': (j * 2 + 2 * i + 1) % n, 'c': 't%d-%d' % (i, j),
             's': 'Xy'[(j + i) % 2] + str(j)} for j in range(n)]


def objs(i, n=5):
    return [Ob(**r) for r in rows(i, n)]


def tree(i):
    return Node('r%d' % i, [Node('a%d' % i, [Node('aa%d' % i), Node('ab%d' % i)]),
                            Node('b%d' % i, [Node('ba%d' % i)]), Node('c%d' % i)])


def tree_click(i):
    from TreeDisplay.TreeTag import encode_seq
    return encode_seq([['ab'[i % 2] + str(i)]])


def gen(i):
    for r in objs(i):
        yield r


class Boom(Exception):
    pass


def boom(i):
    def f():
        if i % 2:
            raise Boom('boom%d' % i)
        return 'fine%d' % i
    return f


def always_boom(i):
    def g():
        raise Boom('boom%d in thread %d' % (i * 7, i))
    return g


# ---- per-thread callables / classes that the engine finds by NAME in the namespace
CALLS = {'cmp': 0, 'fn': 0}        # reach evidence: how often the engine called them


def _c3(a, b):
    return (a > b) - (a < b)


def cmp_text(a, b):
    CALLS['cmp'] += 1
    return _c3(a, b)


def cmp_digits(a, b):              # 'X3' / 'y12' -> by the number behind the letter
    CALLS['cmp'] += 1
    return _c3(int(a[1:]), int(b[1:]))


def cmp_text_desc(a, b):
    CALLS['cmp'] += 1
    return _c3(b, a)


def cmp_int(a, b):
    CALLS['cmp'] += 1
    return _c3(a, b)


def cmp_int_desc(a, b):
    CALLS['cmp'] += 1
    return _c3(b, a)


def cmp_mod3(a, b):
    CALLS['cmp'] += 1
    return _c3((a % 3, a), (b % 3, b))


CMP_S = [cmp_text, cmp_digits, cmp_text_desc]      # for the string key 's'
CMP_I = [cmp_int_desc, cmp_mod3, cmp_int]          # for the integer keys 'a', 'b'


class ErrA(Exception):
    pass


class ErrB(Exception):
    pass


def thrower(i):
    def f():
        CALLS['fn'] += 1
        raise [ErrA, ErrA, ErrB][i % 3]('thrown%d' % i)
    return f


def named(i, label, value=None):
    def f(*a):
        CALLS['fn'] += 1
        if value is not None:
            return value
        return '%s%d(%s)' % (label, i, ','.join(map(str, a)))
    return f


def own_template(i):
    return classes()['HTML']('T%d<dtml-var x>:<dtml-var c missing=nc>;' % i)


ITEM = '<dtml-var a>/<dtml-var b>/<dtml-var c>;'
SITEM = '<dtml-var s>/<dtml-var a>;'
# name -> (syntax class, source, namespace factory(i) -> kwargs, defaults factory() or None, guarded)
TEMPLATES = [
    ('var', 'HTML', 'A<dtml-var x> B<dtml-var y upper> C&dtml-z; D<dtml-var "x+y" html_quote>',
     lambda i: dict(x='x%d<' % i, y='y%d' % i, z='z&%d' % i)),
    ('sort_expr', 'HTML', '<dtml-in seq mapping sort_expr="k">' + ITEM + '</dtml-in>',
     lambda i: dict(seq=rows(i), k='ab'[i % 2])),
    ('sort_expr_obj', 'HTML', '<dtml-in seq sort_expr="k">' + ITEM + '</dtml-in>',
     lambda i: dict(seq=objs(i), k='ba'[i % 2])),
    ('sort_expr_batch', 'HTML', '<dtml-in seq mapping sort_expr="k" size=3 start=st>' + ITEM + '</dtml-in>',
     lambda i: dict(seq=rows(i, 7), k='ab'[i % 2], st=1 + i)),
    ('reverse_expr', 'HTML', '<dtml-in seq mapping reverse_expr="r">' + ITEM + '</dtml-in>',
     lambda i: dict(seq=rows(i), r=i % 2)),
    ('sort_static', 'HTML', '<dtml-in seq mapping sort=a reverse>' + ITEM + '</dtml-in>|'
                            '<dtml-in seq mapping sort="s/nocase,b/cmp/desc">' + ITEM + '</dtml-in>',
     lambda i: dict(seq=rows(i))),
    ('batch', 'HTML', '<dtml-in seq mapping start=st size=2 orphan=1 overlap=1>[<dtml-var sequence-number>:'
                      '<dtml-var c>:<dtml-var previous-sequence>:<dtml-var next-sequence>:'
                      '<dtml-var next-sequence-start-number missing=->]</dtml-in>',
     lambda i: dict(seq=rows(i, 7), st=1 + 2 * i)),
    ('prevnext', 'HTML', '<dtml-in seq mapping start=st size=2 previous>P<dtml-var previous-sequence-start-number></dtml-in>'
                         '<dtml-in seq mapping start=st size=2 next>N<dtml-var next-sequence-start-number></dtml-in>',
     lambda i: dict(seq=rows(i, 7), st=3 + i)),
    ('in_vars', 'HTML', '<dtml-in seq prefix=p><dtml-var sequence-index>.<dtml-var p_number>.<dtml-var sequence-letter>.'
                        '<dtml-var sequence-roman>.<dtml-var a>.<dtml-if sequence-end>E</dtml-if>;</dtml-in>'
                        '<dtml-in none>x<dtml-else>EMPTY<dtml-var x></dtml-in>',
     lambda i: dict(seq=objs(i), none=[], x='x%d' % i)),
    ('stats', 'HTML', '<dtml-in seq mapping><dtml-if sequence-end><dtml-var total-a>,<dtml-var mean-b>,'
                      '<dtml-var max-c>,<dtml-var count-a>,<dtml-var median-a></dtml-if></dtml-in>',
     lambda i: dict(seq=rows(i, 4 + i))),
    ('firstlast', 'HTML', '<dtml-in seq mapping sort=a><dtml-if first-a>[</dtml-if><dtml-var c><dtml-if last-a>]</dtml-if></dtml-in>',
     lambda i: dict(seq=rows(i, 6) + rows(i, 3))),
    ('generator', 'HTML', '<dtml-in seq size=3 start=st>' + ITEM + '</dtml-in>|<dtml-in seq2>' + ITEM + '</dtml-in>',
     lambda i: dict(seq=gen(i), seq2=gen(i + 5), st=1 + i)),
    ('nested_in', 'HTML', '<dtml-in outer mapping sort_expr="k"><dtml-var c>(<dtml-in inner mapping sort_expr="k2">'
                          '<dtml-var c>,</dtml-in>)</dtml-in>',
     lambda i: dict(outer=[dict(r, inner=rows(i + j, 3)) for j, r in enumerate(rows(i, 3))],
                    k='ab'[i % 2], k2='ba'[i % 2])),
    ('let_with', 'HTML', '<dtml-let p=x q="p+p" r="q+x"><dtml-var r><dtml-with ob><dtml-var attr>'
                         '<dtml-with m mapping><dtml-var key></dtml-with></dtml-with>'
                         '<dtml-with ob only><dtml-var attr><dtml-var x missing=GONE></dtml-with></dtml-let><dtml-var p missing=NOP>',
     lambda i: dict(x='x%d' % i, ob=Ob(attr='attr%d' % i), m={'key': 'key%d' % i})),
    ('if_chain', 'HTML', '<dtml-if a>A<dtml-var a><dtml-elif "b > 1">B<dtml-var b><dtml-elif c>C<dtml-var c>'
                         '<dtml-else>E</dtml-if><dtml-unless a>U</dtml-unless><dtml-call "r.append(b)"><dtml-var "r[-1]">',
     lambda i: dict(a=[0, 7, 0][i % 3], b=i, c=['', 'cc', 'ccc'][i % 3], r=[])),
    ('try', 'HTML', '<dtml-try>T<dtml-var f>-<dtml-var x><dtml-except Boom>H<dtml-var error_value><dtml-var x>'
                    '<dtml-else>L<dtml-var x></dtml-try><dtml-try><dtml-var f><dtml-finally>F<dtml-var x></dtml-try>',
     lambda i: dict(f=boom(i), x='x%d' % i, Boom=Boom)),
    # every thread is inside the except-handling path with its own error; the handler shows all three error_* names
    ('try_tb', 'HTML', '<dtml-try>T<dtml-var g><dtml-except Boom>H<dtml-var error_type>|<dtml-var error_value>|'
                       '<dtml-var error_tb>|<dtml-var x><dtml-except>other</dtml-try>'
                       '<dtml-try><dtml-var "1 / z"><dtml-except ZeroDivisionError ValueError>Z<dtml-var error_value>:<dtml-var error_tb></dtml-try>',
     lambda i: dict(g=always_boom(i), x='x%d' % i, Boom=Boom, z=0)),
    ('raise', 'HTML', '<dtml-try><dtml-if flag><dtml-raise KeyError>msg<dtml-var x></dtml-raise></dtml-if>ok<dtml-var x>'
                      '<dtml-except KeyError>caught:<dtml-var error_value></dtml-try>',
     lambda i: dict(flag=i % 2, x='x%d' % i)),
    ('return', 'HTML', 'before<dtml-in seq><dtml-if "a == stop"><dtml-return c></dtml-if><dtml-var c></dtml-in>after',
     lambda i: dict(seq=objs(i), stop=1 + i)),
    ('fmt', 'HTML', '<dtml-var n fmt="%05d">|<dtml-var t fmt=collection-length>|<dtml-var s size=4 etc="..">|'
                    '<dtml-var nul null=NUL>|<dtml-var miss missing=MISS>|<dtml-var s url_quote_plus>|'
                    '<dtml-var big thousands_commas>|&dtml.url_quote-s;',
     lambda i: dict(n=7 + i, t=list(range(i)), s='some text %d' % i, nul=None, big=1234567 + i)),
    ('comment', 'HTML', 'a<dtml-comment>hidden <dtml-var nothere></dtml-comment>b<dtml-var x>',
     lambda i: dict(x='x%d' % i)),
    ('epfs', 'String', '%(x)s %(in seq mapping sort_expr="k")[%(c)s,%(in seq)]%(if x)[yes%(else)[no%(if x)]%(n)05d',
     lambda i: dict(x='x%d' % i, seq=rows(i), k='ab'[i % 2], n=i)),
    ('tree', 'HTML', '<dtml-tree root sort=id><dtml-var id></dtml-tree>',
     lambda i: dict(root=tree(i), URL='/u%d' % i, RESPONSE=Resp(), expand_all=1)),
    ('tree_state', 'HTML', '<dtml-tree root reverse><dtml-var id>.</dtml-tree>',
     lambda i: dict(root=tree(i), URL='/u%d' % i, RESPONSE=Resp(), **{'tree-e': tree_click(i)})),
]
# templates whose namespace also carries a *shared* uncooked sub-template (in the defaults)
SUBS = [
    ('subtemplate', 'HTML', 'M<dtml-var x>[<dtml-var sub>]<dtml-in seq mapping>{<dtml-var sub>}</dtml-in>',
     lambda i: dict(x='x%d' % i, seq=rows(i, 2)),
     lambda cls: dict(sub=cls('S<dtml-var x>:<dtml-var c missing=nc>:<dtml-var d>', d='default'))),
    ('subtemplate_sort', 'HTML', '<dtml-var sub>',
     lambda i: dict(seq=rows(i), k='ab'[i % 2]),
     lambda cls: dict(sub=cls('<dtml-in seq mapping sort_expr="k">' + ITEM + '</dtml-in>'))),
]
GUARDED = [
    ('guarded_expr', 'HTML', '<dtml-var "ob.attr"><dtml-in seq sort_expr="k"><dtml-var "_[\'sequence-item\'].c">,</dtml-in>'
                             '<dtml-with ob><dtml-var attr></dtml-with><dtml-var "_.getattr(ob, \'attr\')">',
     lambda i: dict(ob=Ob(attr='attr%d' % i), seq=objs(i), k='ab'[i % 2])),
]
# per-thread functions / classes found by name in the namespace.  What is new here is in the
# render phase (the tags themselves are compiled in the uncooked units of the templates above),
# so these go through the generic loop in the cooked variant only (all four variants in the
# order schedules, uncooked and restored in the deep schedules)
CALLABLES = [
    ('sort_func', 'HTML', '<dtml-in seq mapping sort="s/cf">' + SITEM + '</dtml-in>|'
                          '<dtml-in seq mapping sort="b/ci,s/cf/desc">' + SITEM + '</dtml-in>|'
                          '<dtml-in seq mapping sort_expr="k">' + SITEM + '</dtml-in>',
     lambda i: dict(seq=rows(i, 4), cf=CMP_S[i % 3], ci=CMP_I[i % 3], k=['a/ci/desc', 's/cf', 'b/ci,a/ci'][i % 3])),
    ('ns_callables', 'HTML', '<dtml-call "note(x)"><dtml-var "fn(x, 1)">|<dtml-var lazy>|'
                             '<dtml-in rowsf mapping><dtml-var c>,</dtml-in>|'
                             '<dtml-with obf><dtml-var attr></dtml-with>|'
                             '<dtml-if pred>P<dtml-else>Q</dtml-if>|<dtml-var ob fmt=show>|'
                             '<dtml-try><dtml-raise "etype">m<dtml-var x></dtml-raise><dtml-except ErrA>A<dtml-var error_value>'
                             '<dtml-except ErrB>B<dtml-var error_value></dtml-try>|'
                             '<dtml-try><dtml-var thrower><dtml-except ErrA>caught <dtml-var error_value></dtml-try>',
     lambda i: dict(x='x%d' % i, note=named(i, 'note'), fn=named(i, 'fn'), lazy=named(i, 'lazy'),
                    rowsf=named(i, 'rowsf', rows(i, 3)), obf=named(i, 'obf', Ob(attr='attr%d' % i)),
                    pred=named(i, 'pred', i % 2), ob=Ob(show=named(i, 'show')),
                    thrower=thrower(i), etype=[ErrB, ErrA, ErrB][i % 3])),
]
# file based templates: (name, class, source, namespace factory); the source is written to a
# file of the shard's scratch directory; the engine reads it at the first render
FILES = [
    ('file_var', 'HTMLFile', 'A<dtml-var x> B<dtml-var y upper> <dtml-in seq>[<dtml-var sequence-item>]</dtml-in>',
     lambda i: dict(x='x%d<' % i, y='y%d' % i, seq=['s%d-%d' % (i, j) for j in range(2 + i)])),
]
# templates that only take part in the cheap deep / order schedules (not in the generic 1p/2p loop)
DEEP_ONLY = [
    ('file_epfs', 'File', '%(x)s %(in seq mapping)[%(c)s,%(in seq)]%(if y)[yes%(else)[no%(if y)]',
     lambda i: dict(x='x%d' % i, seq=rows(i, 3), y=i % 2)),
    ('sort_expr_func', 'HTML', '<dtml-in seq sort_expr="k">' + SITEM + '</dtml-in>|'
                               '<dtml-in seq sort_expr="k2" reverse_expr="r">' + SITEM + '</dtml-in>',
     lambda i: dict(seq=objs(i, 4), k=['s/cf', 'a/ci/desc', 'b/ci,s/cf'][i % 3],
                    k2=['a/ci', 's/cf/desc', 's/cf'][i % 3], r=i % 2,
                    cf=CMP_S[i % 3], ci=CMP_I[i % 3])),
    ('file_in', 'HTMLFile', '<dtml-in seq mapping sort_expr="k">' + ITEM + '</dtml-in>',
     lambda i: dict(seq=rows(i, 4), k='ab'[i % 2])),
    ('default_var', 'HTMLDefault', 'A<dtml-var x> <dtml-if y>Y<dtml-var y></dtml-if>',
     lambda i: dict(x='x%d' % i, y=i % 2)),
    ('own_subtemplate', 'HTML', '<dtml-var sub>|<dtml-in seq mapping><dtml-var sub></dtml-in>',
     lambda i: dict(x='x%d' % i, seq=rows(i, 2), sub=own_template(i))),
]


def all_templates():
    """'variants': the histories in which the template goes through the generic 1p / 2p / random
    loops; every template takes part in the deep compile-race and order schedules."""
    out = []
    both = ('cooked', 'uncooked')
    for t in TEMPLATES:
        out.append(dict(name=t[0], cls=t[1], src=t[2], ns=t[3], defaults=None, guarded=False,
                        variants=both, file=False))
    for t in SUBS:
        out.append(dict(name=t[0], cls=t[1], src=t[2], ns=t[3], defaults=t[4], guarded=False,
                        variants=both, file=False))
    for t in GUARDED:
        out.append(dict(name=t[0], cls=t[1], src=t[2], ns=t[3], defaults=None, guarded=True,
                        variants=both, file=False))
    # a file based template that was cooked explicitly runs the very same code as a string
    # based one: only its first renders (uncooked) go through the generic loop
    for t in FILES:
        out.append(dict(name=t[0], cls=t[1], src=t[2], ns=t[3], defaults=None, guarded=False,
                        variants=('uncooked',), file=True))
    # string based main template, *shared file based* sub-template in its defaults
    out.append(dict(name='file_sub', cls='HTML', src='M<dtml-var x>[<dtml-var sub>]<dtml-in seq mapping>{<dtml-var sub>}</dtml-in>',
                    ns=lambda i: dict(x='x%d' % i, seq=rows(i, 2)),
                    defaults=lambda cls, resolve: dict(
                        sub=resolve('HTMLFile')(source_file('file_sub.sub', 'S<dtml-var x>:<dtml-var c missing=nc>;'))),
                    defaults_resolve=True, guarded=False, variants=(), file=True))
    for t in CALLABLES:
        out.append(dict(name=t[0], cls=t[1], src=t[2], ns=t[3], defaults=None, guarded=False,
                        variants=('cooked',), file=False))
    for t in DEEP_ONLY:
        out.append(dict(name=t[0], cls=t[1], src=t[2], ns=t[3], defaults=None, guarded=False,
                        variants=(), file=t[1] in ('HTMLFile', 'File')))
    return out


VARIANTS = ('cooked', 'uncooked', 'rendered', 'restored')
VKEY = {'cooked': 'c', 'uncooked': 'u', 'rendered': 'r', 'restored': 's'}


def variant_of(v):
    if v is True:
        return 'cooked'
    if v is False:
        return 'uncooked'
    return v


_CLS = {}


def classes():
    if _CLS:
        return _CLS
    from DocumentTemplate.DT_HTML import HTML
    from DocumentTemplate.DT_HTML import HTMLDefault
    from DocumentTemplate.DT_HTML import HTMLFile
    from DocumentTemplate.DT_String import File
    from DocumentTemplate.DT_String import String

    def ggetattr(self, ob, name):
        if name.startswith('_'):
            from zExceptions import Unauthorized
            raise Unauthorized(name)
        return getattr(ob, name)

    def ggetitem(self, ob, i):
        return ob[i]

    class GHTML(HTML):
        guarded_getattr = ggetattr
        guarded_getitem = ggetitem

    _CLS.update(HTML=HTML, String=String, GHTML=GHTML, HTMLFile=HTMLFile, File=File,
                HTMLDefault=HTMLDefault)
    return _CLS


_SCRATCH = []
_PATHS = {}


def source_file(name, src):
    if name not in _PATHS:
        if not _SCRATCH:
            _w = os.path.join(os.environ.get('VERIF_HOME') or tempfile.gettempdir(), '.work')
            d = tempfile.mkdtemp(prefix='c18-files-', dir=_w if os.path.isdir(_w) else None)
            _SCRATCH.append(d)
            atexit.register(shutil.rmtree, d, True)
        path = os.path.join(_SCRATCH[0], name + '.dtml')
        with open(path, 'w') as f:
            f.write(src)
        _PATHS[name] = path
    return _PATHS[name]


def make_template(spec, variant, logged=False):
    """A fresh template object in one of the histories VARIANTS (True/False = cooked/uncooked)."""
    variant = variant_of(variant)
    cl = classes()
    cls = cl['GHTML'] if spec['guarded'] else cl[spec['cls']]
    if logged:
        cls = U.logged(cls)
    if not spec['defaults']:
        d = {}
    elif spec.get('defaults_resolve'):
        d = spec['defaults'](cls, lambda n: U.logged(cl[n]) if logged else cl[n])
    else:
        d = spec['defaults'](cls)
    if spec['cls'] in ('HTMLFile', 'File'):
        t = cls(source_file(spec['name'], spec['src']), **d)
    else:
        t = cls(spec['src'], **d)
    if variant in ('cooked', 'restored'):
        t.cook()
        for v in d.values():
            if hasattr(v, 'cook'):
                v.cook()
    if variant == 'restored':
        # what pickling + unpickling gives (__getstate__ drops the compiled state), without
        # needing importable classes; deep: the sub-templates of the defaults lose theirs too
        t = copy.deepcopy(t)
    elif variant == 'rendered':
        # compiled by an earlier render with values no scheduled thread uses
        try:
            t(**spec['ns'](7))
        except Exception:
            pass
    return t


def norm(v):
    if isinstance(v, (str, bytes, int, float, type(None))):
        return v
    return repr(v)


def thunk(t, spec, i):
    def run():
        return norm(t(**spec['ns'](i)))
    return run


def sequential(spec, i):
    t = make_template(spec, False)
    try:
        return ('ok', norm(t(**spec['ns'](i))))
    except BaseException as e:
        return ('exc', type(e).__name__, str(e)[:300])


# ---------------------------------------------------------------- executing schedules
class Runner:
    def __init__(self, ctx, sched):
        self.ctx = ctx
        self.sched = sched
        self.expected = {}

    def expect(self, spec, i):
        k = (spec['name'], i)
        if k not in self.expected:
            self.expected[k] = sequential(spec, i)
        return self.expected[k]

    def execute(self, spec, cooked, nthreads, segments, trace=False, kind='1p'):
        from vlib.sched import HarnessStuck
        ctx = self.ctx
        variant = variant_of(cooked)
        t = make_template(spec, variant)
        thunks = [thunk(t, spec, i) for i in range(nthreads)]
        c0, f0, e0 = CALLS['cmp'], CALLS['fn'], self.sched.line_events
        try:
            ws = self.sched.execute(thunks, segments, trace=trace)
        except HarnessStuck as e:
            ctx.inconclusive('scheduler watchdog: %s (template %s)' % (e, spec['name']))
            raise
        if CALLS['cmp'] != c0:
            ctx.count('per-thread comparison function calls under schedules', CALLS['cmp'] - c0)
        if CALLS['fn'] != f0:
            ctx.count('per-thread namespace callables called under schedules', CALLS['fn'] - f0)
        taken = sum(len(w.preempted_at) for w in ws)
        overlapped = False
        # a preemption is "taken" when the parked worker had started and another had not finished
        for w in ws:
            for (step, f, line) in w.preempted_at:
                overlapped = True
                ctx.table('preemption_sites', '%s:%d' % (f, line))
        desc = (spec['name'], variant, nthreads, tuple(map(tuple, segments)))
        ctx.case(desc, nontrivial=overlapped)
        ctx.count('executions:' + kind)
        ctx.count('line events:' + kind, self.sched.line_events - e0)
        ctx.count('preemptions taken', taken)
        if kind in DEEP_KINDS:
            ctx.count('preemptions taken:' + kind, taken)
            ctx.table('deep_executions', '%s/%s' % (kind, variant))
        if spec['file']:
            ctx.count('executions on file based templates')
            if overlapped:
                ctx.count('executions on file based templates with a preemption taken')
        if self.sched.lock.contended:
            ctx.count('cooklock: blocked acquisitions', self.sched.lock.contended)
            if kind in DEEP_KINDS:
                ctx.count('cooklock: blocked acquisitions in deep schedules', self.sched.lock.contended)
            self.sched.lock.contended = 0
        for w in ws:
            want = self.expect(spec, w.idx)
            if w.result != want:
                sites = [list(p) for x in ws for p in x.preempted_at]
                mech = None
                ctx.violation(
                    'thread %d of template %r (%s) got %r under schedule %r, alone it gets %r'
                    % (w.idx, spec['name'], variant,
                       short(w.result), segments, short(want)),
                    {'template': spec['name'], 'cooked': variant == 'cooked', 'variant': variant,
                     'threads': nthreads, 'segments': [list(s) for s in segments]},
                    mech=mech,
                    key='%s_%s_%s' % (spec['name'], VKEY[variant],
                                      '_'.join('%d.%s' % (a, b) for a, b in segments)[:60]),
                    detail={'preempted_at': sites, 'source': spec['src'], 'kind': kind})
                break
        return ws


DEEP_KINDS = ('3t2p', '2t3p', '2t4p')


def short(r, n=160):
    s = repr(r)
    return s if len(s) <= n else s[:n] + '...'


def one_preemption(runner, spec, cooked, ctx, idx_filter):
    """Schedules with a single preemption: thread p runs k steps, the other runs to completion,
    p finishes.  thorough: every k; quick: for each (file,line) site its first and last
    occurrence plus every 16th step (loop iterations in between repeat the same sites)."""
    ws = runner.execute(spec, cooked, 2, [(0, None), (1, None)], trace=True, kind='baseline')
    steps = [w.steps for w in ws]
    traces = [w.trace for w in ws]
    ctx.count('baseline steps', sum(steps))
    for p in (0, 1):
        q = 1 - p
        if ctx.tier == 'thorough':
            ks = range(steps[p] + 1)
        else:
            ks = sorted(set(edge_occurrences(traces[p], 1)) | set(range(0, steps[p] + 1, 16)) | {steps[p]})
        for k in ks:
            if not idx_filter(0):
                continue
            runner.execute(spec, cooked, 2, [(p, k), (q, None)], kind='1p')
    return steps, traces


def edge_occurrences(trace, n):
    occ = {}
    for i, s in enumerate(trace):
        occ.setdefault(s, []).append(i)
    out = []
    for lst in occ.values():
        out.extend(lst[:n])
        out.extend(lst[-n:])
    return out


def dedup_sites(trace, both_ends=True):
    """Indices of the first (and last) occurrence of each (file,line) in a step trace."""
    first, last = {}, {}
    for i, s in enumerate(trace):
        first.setdefault(s, i)
        last[s] = i
    idx = set(first.values())
    if both_ends:
        idx.update(last.values())
    return sorted(idx)


def two_preemptions(runner, spec, cooked, ctx, traces, idx_filter, cap, rng):
    """A runs k1 steps, B runs k2 steps, A finishes, B finishes (and symmetric)."""
    n = 0
    for p in (0, 1):
        q = 1 - p
        sp = dedup_sites(traces[p], both_ends=ctx.tier == 'thorough')
        sq = dedup_sites(traces[q], both_ends=ctx.tier == 'thorough')
        pairs = [(a, b) for a in sp for b in sq if b > 0]
        if len(pairs) > cap:
            pairs = rng.sample(pairs, cap)
            ctx.count('2p: pair lists capped')
        for (k1, k2) in pairs:
            n += 1
            if not idx_filter(n):
                continue
            runner.execute(spec, cooked, 2, [(p, k1), (q, k2), (p, None), (q, None)], kind='2p')


def late_compile(runner, spec, variant, ctx, traces, idx_filter, n_early, n_late):
    """Uncooked templates that compile another uncooked template while rendering (a shared sub-template in the
    defaults): B stops at one of its first sites (it has seen the template uncompiled), A runs to one of the LAST
    occurrences of its sites (inside the last compilation its render performs), B finishes, A finishes - the only
    2-preemption shape in which two compilations of different templates overlap."""
    n = 0
    for p in (0, 1):
        q = 1 - p
        early = dedup_sites(traces[p], both_ends=False)[:n_early]
        last = {}
        for i, s_ in enumerate(traces[q]):
            last[s_] = i
        late = sorted(set(last.values()))
        if len(late) > n_late:
            step = len(late) / float(n_late)
            late = sorted({late[int(i * step)] for i in range(n_late)})
        for k1 in early:
            for k2 in late:
                if k2 <= 0:
                    continue
                n += 1
                if not idx_filter(n):
                    continue
                runner.execute(spec, variant, 2, [(p, k1), (q, k2), (p, None), (q, None)], kind='late')


def same_place(runner, spec, cooked, ctx, traces, idx_filter, stride):
    """Both threads stopped at the same place: A runs k steps, B runs up to the matching step of
    its own trace (the same (file,line), same occurrence number: the same tag instance when both
    follow the same path), then A finishes, then B.  A single preemption never has two threads
    inside one region, and the 2-preemption pairs over de-duplicated sites are a sparse sample of
    that diagonal; here every `stride`-th step of the baseline trace is taken, roles alternating."""
    t0, t1 = traces
    occ1 = {}
    for i, site in enumerate(t1):
        occ1.setdefault(site, []).append(i)
    seen = {}
    n = 0
    for k0, site in enumerate(t0):
        nth = seen.get(site, 0)
        seen[site] = nth + 1
        if k0 % stride:
            continue
        lst = occ1.get(site)
        if not lst:
            continue
        k1 = lst[min(nth, len(lst) - 1)]
        n += 1
        if not idx_filter(n):
            continue
        if n % 2:
            segs = [(0, k0), (1, k1), (0, None), (1, None)]
        else:
            segs = [(1, k1), (0, k0), (1, None), (0, None)]
        runner.execute(spec, cooked, 2, segs, kind='same')


def random_schedules(runner, spec, cooked, ctx, steps, count, rng, nthreads=3):
    """Seeded random multi-preemption schedules of 3 threads (priority-change-point style:
    d change points at random step positions; at each one the running thread yields to another)."""
    total = max(steps) if steps else 300
    for _ in range(count):
        d = rng.randint(2, 6)
        segs = []
        cur = rng.randrange(nthreads)
        for _j in range(d):
            segs.append((cur, rng.randint(0, total)))
            cur = rng.choice([x for x in range(nthreads) if x != cur])
        segs.append((cur, None))
        runner.execute(spec, cooked, nthreads, segs, kind='pct')


def discover(runner, spec, variant, ctx):
    """Preemption points of threads 0..2 for the deep compile-race schedules: every thread
    renders alone, under the scheduler, a fresh template of the *logging* subclass; the points
    are the step budgets right before / after each line that touches a conflicting instance
    attribute of the shared template objects (see vlib/c18_util.py).  Diagnosis only: when the
    log gives nothing, evenly spaced sites of the compile window are used instead."""
    sched = runner.sched
    U.LOG.sched = sched
    pts = []
    for i in range(3):
        t = make_template(spec, variant, logged=True)
        U.LOG.events = ev = []
        try:
            w = sched.execute([thunk(t, spec, i)], [(0, None)], trace=True)[0]
        finally:
            U.LOG.events = None
        ctx.count('discovery: solo runs with the logging subclass')
        p = []
        if w.result != runner.expect(spec, i):
            ctx.count('discovery: logging subclass changed a result (its points not used)')
        else:
            p, written = U.access_points(ev, w.steps, w.trace, both_ends=ctx.tier == 'thorough')
            for n in written:
                ctx.table('conflicting_attributes', n)
        if p:
            ctx.count('discovery: point lists from the access log')
        else:
            w2 = sched.execute([thunk(make_template(spec, 'cooked'), spec, i)], [(0, None)])[0]
            w3 = sched.execute([thunk(make_template(spec, variant), spec, i)], [(0, None)], trace=True)[0]
            p = U.fallback_points(w3.trace, w2.steps)
            ctx.count('discovery: point lists from the compile-window fallback')
        pts.append(p)
    return pts


def deep_unit(runner, spec, variant, ctx, mine):
    """Deep schedules of one (template, uncompiled variant)."""
    import random
    thorough = ctx.tier == 'thorough'
    pts = discover(runner, spec, variant, ctx)
    if mine(0):
        ctx.table('deep_points', '%s/%s' % (spec['name'], variant), sum(len(p) for p in pts))
    rnd = random.Random(ctx.seed * 104729 + sum(map(ord, spec['name'] + variant)))
    n = 0
    for segs in U.sched_3t2p(pts, all_roles=thorough):
        n += 1
        if mine(n):
            runner.execute(spec, variant, 3, segs, kind='3t2p')
    full = thorough or spec['file'] or spec['name'] == 'var'
    if thorough or variant == 'uncooked':
        for (p, q) in ((0, 1), (1, 0)):
            lst = list(U.sched_2t3p(pts, p, q))
            cap = 12 if not full else (330 if not thorough else 20000)
            if len(lst) > cap:
                lst = rnd.sample(lst, cap)
                ctx.count('2t3p: schedule lists capped')
            for segs in lst:
                n += 1
                if mine(n):
                    runner.execute(spec, variant, 2, segs, kind='2t3p')
    if thorough:
        for (p, q) in ((0, 1), (1, 0)):
            lst = list(U.sched_2t4p(pts, p, q))
            cap = 2000 if spec['file'] else 500
            if len(lst) > cap:
                lst = rnd.sample(lst, cap)
                ctx.count('2t4p: schedule lists capped')
            for segs in lst:
                n += 1
                if mine(n):
                    runner.execute(spec, variant, 2, segs, kind='2t4p')


def order_unit(runner, spec, ctx, mine):
    n = 0
    for variant in VARIANTS:
        for segs in U.sched_orders(3):
            n += 1
            if mine(n):
                runner.execute(spec, variant, 3, segs, kind='orders')


GROUP = 4          # shards sharing one deep unit (they split its executions)


def deep_schedules(runner, specs, ctx):
    ngroups = max(1, ctx.nshards // GROUP)
    group, member = ctx.shard % ngroups, ctx.shard // ngroups
    members = len([x for x in range(ctx.nshards) if x % ngroups == group])
    units = [(spec, 'uncooked') for spec in specs]
    # restored (deep copy through __getstate__): in quick only where the copy differs in kind from
    # a fresh object -- file based, shared sub-templates in the defaults, and the smallest template
    units += [(spec, 'restored') for spec in specs
              if ctx.tier == 'thorough' or spec['file'] or spec['defaults'] or spec['name'] == 'var']
    units += [(spec, None) for spec in specs]
    for u, (spec, variant) in enumerate(units):
        if u % ngroups != group:
            continue

        def mine(n):
            return n % members == member
        if variant is None:
            order_unit(runner, spec, ctx, mine)
        else:
            deep_unit(runner, spec, variant, ctx, mine)


def install(ctx):
    import DocumentTemplate
    import TreeDisplay
    from DocumentTemplate import DT_String
    from vlib.sched import Scheduler
    roots = [os.path.dirname(DocumentTemplate.__file__), os.path.dirname(TreeDisplay.__file__)]
    sched = Scheduler(roots)
    if not hasattr(DT_String, 'COOKLOCK'):
        ctx.count('note:DT_String.COOKLOCK not found (diagnosis only)')
    DT_String.COOKLOCK = sched.lock
    # every lock the package itself creates later (a lock per template, per tag, ...) must be cooperative too, or
    # a parked holder would block a running thread in the kernel: the lock factories the package modules imported
    # by name are replaced by a factory of scheduler-aware locks
    import sys
    import threading
    from vlib.sched import CoopLock
    real = {threading.Lock, threading.RLock, getattr(threading, '_allocate_lock', None),
            getattr(threading, '_CRLock', None), getattr(threading, '_PyRLock', None)}
    real.discard(None)

    def coop_factory(*a, **k):
        ctx.count('locks:cooperative locks created by the package')
        return CoopLock(sched)
    replaced = 0
    for name, mod in list(sys.modules.items()):
        if mod is None or not (name == 'DocumentTemplate' or name.startswith('DocumentTemplate.') or
                               name == 'TreeDisplay' or name.startswith('TreeDisplay.')):
            continue
        for attr, val in list(vars(mod).items()):
            try:
                if val in real:
                    setattr(mod, attr, coop_factory)
                    replaced += 1
                elif val is threading:
                    pass        # `threading.Lock()` through the module object: not redirected (counted below)
            except TypeError:
                pass
    ctx.count('locks:lock factories of package modules made cooperative', replaced)
    sched.install()
    return sched


def warm(specs):
    # first use of each tag imports its module and fills String.commands: do it outside schedules
    for spec in specs:
        for i in range(3):
            sequential(spec, i)


OLD_UNITS = 52     # (template, variant) units of the generic loop before the workload grew:
#                    the number of random schedules per unit is kept at what it was then


def run(ctx, spec_):
    from vlib.sched import HarnessStuck
    specs = all_templates()
    warm(specs)
    sched = install(ctx)
    runner = Runner(ctx, sched)
    rng = ctx.rng
    quick = ctx.tier == 'quick'
    counter = itertools.count()

    def mine(_n):
        return next(counter) % ctx.nshards == ctx.shard

    try:
        for spec in specs:
            for variant in spec['variants']:
                cooked = variant == 'cooked'
                steps, traces = one_preemption(runner, spec, cooked, ctx, mine)
                if ctx.shard == 0:
                    ctx.table('steps_per_template', '%s/%s' % (spec['name'], variant), sum(steps))
                cap = 150 if quick else 12000
                two_preemptions(runner, spec, cooked, ctx, traces, mine, cap,
                                __import__('random').Random(ctx.seed * 7919 + len(spec['name'])))
                if spec['defaults'] and not cooked:
                    late_compile(runner, spec, cooked, ctx, traces, mine, 12 if quick else 40, 60 if quick else 400)
                if not quick or cooked or len(spec['variants']) == 1:
                    # quick: the render phase is the same in both variants, once is enough
                    same_place(runner, spec, cooked, ctx, traces, mine, 16 if quick else 4)
                nrand = (2000 if quick else 100000) // (OLD_UNITS * ctx.nshards) + 1
                random_schedules(runner, spec, cooked, ctx, steps, nrand, rng)
        deep_schedules(runner, specs, ctx)
    except HarnessStuck:
        pass
    ctx.count('line events seen in package files', sched.line_events)
    ctx.count('cooklock: acquisitions by scheduled threads', sched.lock.acquisitions)
    if ctx.shard == 0:
        sp = specs[1]
        ws = runner.sched.execute([thunk(make_template(sp, True), sp, i) for i in range(2)],
                                  [(0, 40), (1, None)], trace=False)
        ctx.sample({'template': sp['src'], 'schedule': [[0, 40], [1, None]],
                    'preempted_at': [list(p) for w in ws for p in w.preempted_at],
                    'results': [short(w.result) for w in ws]})
    sched.uninstall()


def finish(agg):
    c = agg['counters']
    inc = []
    if not c.get('line events seen in package files'):
        inc.append('LINE callback saw no package line in any worker')
    if not c.get('preemptions taken'):
        inc.append('no preemption was ever taken (threads never overlapped)')
    kinds = ['executions:1p', 'executions:2p', 'executions:late', 'executions:pct', 'executions:same', 'executions:3t2p',
             'executions:2t3p', 'executions:orders']
    if agg['tier'] == 'thorough':
        kinds.append('executions:2t4p')
    for k in kinds:
        if not c.get(k):
            inc.append('no schedule of kind %s ran' % k)
    for k in ('3t2p', '2t3p'):
        if c.get('executions:' + k) and not c.get('preemptions taken:' + k):
            inc.append('the deep schedules of kind %s never took a preemption' % k)
    if not c.get('cooklock: blocked acquisitions'):
        inc.append('no schedule made a thread wait for the cook lock (compile race not exercised)')
    if not c.get('executions on file based templates with a preemption taken'):
        inc.append('no overlapping execution on a file based template')
    if not c.get('per-thread comparison function calls under schedules'):
        inc.append('the per-thread comparison functions of sort="key/func" were never called under a schedule')
    if not c.get('per-thread namespace callables called under schedules'):
        inc.append('the per-thread namespace callables were never called under a schedule')
    sites = agg['tables'].get('preemption_sites', {})
    specs = all_templates()
    return {'inconclusive': inc,
            'coverage': {'distinct_preemption_sites': len(sites),
                         'templates': sum(len(s['variants']) for s in specs),
                         'deep_units': len(agg['tables'].get('deep_points', {})),
                         'exhaustive': False,
                         'single_preemption_all_steps': agg['tier'] == 'thorough',
                         'explanation': 'all single-preemption schedules of 2 threads at package-line '
                                        'granularity; 2-preemption schedules over de-duplicated sites '
                                        '(capped per template, cap counted); random 3-thread schedules; '
                                        'deep compile-race schedules (3 threads/2 preemptions, 2 threads/3, '
                                        'thorough 2 threads/4) over the access points of conflicting '
                                        'template attributes, on uncooked and restored templates (caps '
                                        'counted); the 6 preemption-free orders of 3 threads on 4 variants; '
                                        'same-place schedules (both threads stopped at matching steps)'}}


def replay(ctx, rep):
    c = rep['case']
    specs = {s['name']: s for s in all_templates()}
    spec = specs[c['template']]
    warm([spec])
    sched = install(ctx)
    runner = Runner(ctx, sched)
    runner.execute(spec, c.get('variant') or c['cooked'], c['threads'], [tuple(s) for s in c['segments']],
                   kind='replay')
    sched.uninstall()
