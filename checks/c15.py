"""C15 — dtml-var options apply a fixed, documented value pipeline.

Deciding oracles work on the rendered OUTPUT alone: the tag is rendered between sentinels by the real
engine and compared with vlib/c15_util.predict (missing -> null -> fmt= -> C format -> the modifiers,
each once, in ONE order -> size/etc; written from the DT_Var docstring and the statement; the same
pipeline whatever the number of options, the spelling of the tag, the C format and the type of the value:
part_optcount, part_nulltower; the same pipeline whatever block encloses the tag and whatever the compiled
template rendered before: part_blocks, judged against the model and against the tag rendered alone), and every
written order of a modifier set must print what the canonical order prints (all ordered pairs on values
where the two stages do not commute, all orders of subsets <= 4, seeded larger ones); url round trips,
the sql_quote postcondition and the truncation clauses besides.
The statement says there is one fixed order, not which: the reference order is the order in which the
stage functions are seen running for an all-modifiers tag, and, when that observation is incomplete, the
order observable from outputs (which composition each non-commuting pair prints; ties in docstring order).
Extra monitor (never deciding alone that something is missing): a stage trace taken through the CODE
OBJECTS of the modifier / format functions (sys.monitoring PY_START/PY_RETURN), independent of how the
engine binds or tables them: stray stages, repeated stages, order of the observed stages, text-only
stages receiving bytes, sql_quote stage postcondition.  No observation => counters + inconclusive, and
only if the output oracles found nothing.
"""
import itertools

from vlib import c15_util as U

ID = 'C15'
LEVEL = 'exploration'
RULE = ('one dtml-var tag per case, rendered by the engine and predicted by an independent pipeline '
        'model: all 4096 modifier subsets in canonical order x a value pool (str with _, blanks, %41, '
        '+, quotes, digits; ASCII bytes; int; float; None; empty containers; objects with methods), all '
        'written orders of every subset of size <= 4 (sampled at size 4 in the quick tier), fmt= '
        '(methods, named formats, %-formats) and EPFS C formats, size 0..len+2 x etc over all strings '
        'of {a,blank} up to a length bound, null=/missing= grids, url round trips, seeded random '
        'combinations; OPTION COUNT: every option set of size 0, 1, 2 over the 12 modifiers + fmt (method, '
        'named format, %-format) / null / missing / size / etc / url, both written orders, under every one '
        'of 26 EPFS C formats in the spellings %(x ..)F, %(var x ..)F, %(var expr=".." ..)F, %(var name=x ..)F '
        'and in 8 HTML spellings (dtml, ssi, entity; name, name=, expr=, bare "expr"), plus the two documented '
        'fast forms (bare tag, html_quote alone) on every pool value in every spelling; NULL TOWER: null= '
        '(first / last / between the other options; valueless; all spellings and C formats) on zeros of every '
        'numeric type (int, float, -0.0, Decimal 0 / 0.00 / -0 / 0E+3, Fraction, complex, int / float '
        'subclasses, a user-defined quantity equal to 0), on every kind of empty / false non-number (str and '
        'str subclass, bytes, bytearray, list, tuple, dict, set, frozenset, range, objects false by __len__ '
        'or __bool__) and on non-zero neighbours, each followed by fmt= / C format / modifiers / size; '
        'missing= on defined but false / null / zero values; the value pool includes that tower; '
        'ENCLOSING BLOCKS: 19 tags (missing= / null= / both in both orders / valueless / with modifiers, fmt=, size, '
        'url; the two fast forms) written inside each of 65 block wrappers (if / elif / else / unless on the SAME '
        'name as a plain name, name=, on other names defined / false / undefined, on expressions; two and three '
        'nesting levels; the tag before, after and in two blocks; in over one / two / no items, over mapping items, '
        'over the name itself; with on a mapping / an empty mapping / an instance / only / the name itself; let binding '
        'another name, the name from another name or expression, the name from itself; try body / handler / named '
        'handler / else / finally body / a handler after a failed lookup of the name; a template called by name from '
        'the block), each in the dtml, ssi and %(if x)[ syntaxes, namespace given as mapping / keywords / client '
        'object; every compiled wrapper rendered over a seeded order of all states of the name: undefined (at the '
        'start, in the middle, at the end), None, every false / null / zero kind, values, callables returning them; '
        'each render compared with the model AND with the same tag rendered alone on the same value (thorough: plus '
        'the missing= / null= text x option grid and 120000 seeded random tags in random wrappers); '
        'distinct = distinct (syntax, name form, written option list, value, C format) and, for the block part, '
        '(wrapper, syntax, namespace form, source, state); '
        'non-trivial = the demanded text differs from the plain str() of the value (an option is '
        'effective) or a missing=/null= replacement happens')
ASSUMPTIONS = [
    'the statement fixes THAT the modifiers apply in one order, not WHICH: the reference order is read '
    'from the observed stage calls of one all-modifiers render per shard (fallback: from the outputs of '
    'the non-commuting pairs, ties in docstring order); a different but consistent order is not a violation',
    'url_quote/url_unquote are RFC 3986 percent-coding of UTF-8 with "/" kept (self-checked against '
    'urllib at start-up); newline_to_br writes "<br />\\n" (pinned by test_DT_Var)',
    'a blank lies "in the second half" of the size-character prefix iff its 0-based index is > size/2 '
    '(docstring example; DESIGN C15 break list); the midpoint index itself is not cut at',
    'not judged (statement silent): html_quote on a single quote (C03), thousands_commas on '
    'non-numeric text, newline_to_br on a lone CR, dollar formats of non-numbers, bool null-ness, '
    'undefined names without missing=, negative / non-integer size, formats that raise for the value, '
    'non-ASCII bytes (C19), TaintedString (C04), restructured-text',
    'structured-text: only its position in the pipeline is judged (stage result taken from the '
    'engine function itself)',
    'the text of a tag is a function of the tag and of the value bound to its name: it must not depend on the '
    'block the tag stands in nor on earlier renders of the compiled template; which branch of a conditional is '
    'rendered is NOT judged here (wrappers carry the tag in every alternative, or the alternative text is accepted); '
    'the number of renders of an in body is taken as the number of items (else section for no items)',
    'a callable bound to the name is called without arguments when the tag reads the name (TemplateDict.getitem '
    'docstring) and its result is the value; what expr= sees of a callable is not judged',
    '"false but not 0" is read with Python truth and equality: v is null iff v is None or (not v and '
    'v != 0); so every numeric zero (Decimal, Fraction, complex, subclasses, an object whose __eq__ says '
    'it equals 0) is a value, every empty container / false object not equal to 0 is null; bool null-ness '
    'stays unjudged',
    'valueless spellings of valued options (<dtml-var x null>, &dtml.null-x;): the replacement / '
    'truncation text is not stated, so only renders where no replacement / truncation is due are judged',
    'the C format of the EPFS syntax is a pipeline stage whatever options are written (docstring: "a '
    'C-style format is specified after the closing parenthesis"); a C format that raises for the value '
    '(model: the same % operation) is not judged; Decimal / Fraction dollar formats are not judged '
    '(rounding of a non-float is not stated)',
]
SHARD_TIMEOUT = {'quick': 600, 'thorough': 3000}
NSHARDS = {'quick': 16, 'thorough': 32}

MECH_TWICE = 'url-unquote-applied-twice'
MECH_BYTES = 'bytes-value-reaches-text-only-stage'
TEXT_ONLY = ('spacify', 'newline_to_br', 'thousands_commas')

RICH1 = ['str', 'ab_Cd %2541+%2527 <&> 1234567']
RICH2 = ['str', "it's %41_x+y\r\nZ 7654321.25"]
STRS = [
    'Hello_World', '%41', '%2541', 'a+b c', 'x%2Bb+c%20d', 'say "hi" & <go>', '1234567',
    '1234567.891', '-9876543.21', '$1234', '12000 widgets', 'line1\nline2\r\nline3',
    "O'Re\rilly\x00\x1a''", '\xc4\xd6\xfc \xdf_\xe9', '%C3%A9t%C3%A9+%E2%82%AC',
    'MiXeD cAsE_text', ' ', 'a', '', 'hello world foo bar baz', 'ǆemal_İstanbul',
    '100%', 'a/b?c=d&e=f g', '0', '007', 'tab\there', '~user/_x.y-z', '%252541 %25252B',
    '1234567.1234567', '-$7654321.00', 'a_b_c__d e_f', 'stra\xdfe IS_na\xefve',
]
VALUES = ([RICH1, RICH2] + [['str', s] for s in STRS] +
          [['bytes', 'abc_DEF 1234567'], ['bytes', '%41+b_c'], ['bytes', '1234567']] +
          [['int', n] for n in (0, 7, 1234567, -1234567, 10 ** 12)] +
          [['float', f] for f in (0.0, 3.14159, 1234567.891, -0.5, 1e20, 2.5e-07, 1234.56789)] +
          [['none'], ['list', []], ['dict', {}], ['list', [1, 2, 3]], ['dict', {'a_b': 1}],
           ['obj'], ['falsy']])
# the rest of the numeric tower, subclasses of the basic types, more empty containers, objects that
# are false without being empty: zeros are VALUES (never null), empties / false objects are null
TOWER = [['decimal', '0'], ['decimal', '0.00'], ['decimal', '-0'], ['decimal', '1.50'],
         ['decimal', '1234567.25'], ['fraction', [0, 3]], ['fraction', [1, 3]], ['fraction', [7654321, 2]],
         ['complex', [0, 0]], ['complex', [1, 2]], ['bool', False], ['bool', True],
         ['intsub', 0], ['intsub', 1234567], ['floatsub', 0.0], ['floatsub', 2.5], ['float', -0.0],
         ['float', 'nan'], ['float', 'inf'], ['strsub', ''], ['strsub', 'sub_Text %41'],
         ['tuple', []], ['tuple', [1, 2]], ['set', []], ['frozenset', []], ['set', [7]],
         ['range', 0], ['range', 3], ['bytearray', ''], ['zero'], ['unset']]
VALUES = VALUES + TOWER
PAIR_POOL = [RICH1[1], RICH2[1]] + STRS + [
    'A<b>&"c" D', 'x_Y z', 'AB\ncd', '%4a_%4A', 'a%5Fb', 'a%0Ab c', 'a%27b', 'a%26b%3C', '%31%32%33%34',
    '1234567%2E5', "a'b C", 'a_b\nc', '12_34', 'a b\r\nc', 'A+B', 'a%2Bb', '%', 'a&b_c', '1234 A',
    '%31_234', '%7E%5f', 'a\n1234567', "1234567'", '1_234', '$1234567 x', '1234567\n', '-1234567 &',
]
ORDER_VALUES = [RICH1, RICH2, ['str', '%252541 %25252B'], ['str', '\xc4\xd6\xfc \xdf_\xe9'],
                ['str', 'line1\nline2\r\nline3'], ['int', 1234567], ['float', 1234567.891],
                ['str', 'x%2Bb+c%20d'], ['obj'], ['bytes', '%41+b_c']]
SYNTAXES = ('dtml', 'ssi', 'ent', 'epfs')
SAMPLE_PARTS = (('subset',), ('order',), ('fmt', 'fmt+cformat'), ('size+modifiers', 'size'), ('null', 'missing'), ('random',))


def plan(tier, seed):
    return [{} for _ in range(NSHARDS[tier])]


def kind_of(recipe):
    return recipe[0]


def dedupe(names):
    out = []
    for n in names:
        if n not in out:
            out.append(n)
    return out


def mkcase(value, opts, syntax='dtml', form='name', cfmt='s', **extra):
    if syntax == 'ent' and not (opts and all(v is None for n, v in opts) and form == 'name'):
        syntax = 'dtml'
    var_prefix = syntax == 'epfs' and bool(extra.get('var_prefix'))
    if syntax == 'epfs' and not var_prefix:
        form = 'name'
    if syntax == 'ent':
        form = 'name'
    if syntax != 'epfs':
        cfmt = 's'
        extra.pop('var_prefix', None)
    if syntax == 'ent' or (syntax == 'epfs' and not var_prefix):
        extra['name_attr'] = False
    c = {'syntax': syntax, 'form': form, 'value': value,
         'opts': [[n, v] for n, v in opts], 'cfmt': cfmt}
    c.update(extra)
    return c


# ---------------------------------------------------------------- stage observation
class StageWatch:
    """Stage trace through the CODE OBJECTS of the modifier / format functions.

    sys.monitoring local PY_START / PY_RETURN events on ``func.__code__``: works however the engine
    binds, copies or re-tables the functions.  Only outermost watched calls are recorded (a format that
    calls thousands_commas itself is one stage).  A call that never returns (exception) is recorded by
    flush().  Entry: (function name, depth marker, first argument, result, exception name).
    """
    TOOLS = (5, 2, 1, 0)     # 3 and 4 are used by other instruments of this framework

    def __init__(self, trace):
        self.trace = trace
        self.codes = {}
        self.stack = []
        self.tool = None
        self.unwatchable = []

    def watch(self, func):
        f = getattr(func, '__func__', func)
        f = getattr(f, '__wrapped__', f)
        code = getattr(f, '__code__', None)
        if code is None or not code.co_varnames:
            self.unwatchable.append(getattr(func, '__name__', repr(func)))
            return
        self.codes[code] = code.co_name

    def start(self):
        import sys
        mon = sys.monitoring
        for t in self.TOOLS:
            if mon.get_tool(t) is None:
                mon.use_tool_id(t, 'verif-c15-stages')
                self.tool = t
                break
        if self.tool is None:
            return False
        E = mon.events
        mon.register_callback(self.tool, E.PY_START, self._start)
        mon.register_callback(self.tool, E.PY_RETURN, self._return)
        for code in self.codes:
            mon.set_local_events(self.tool, code, E.PY_START | E.PY_RETURN)
        return True

    def stop(self):
        import sys
        if self.tool is None:
            return
        mon = sys.monitoring
        for code in self.codes:
            mon.set_local_events(self.tool, code, 0)
        mon.register_callback(self.tool, mon.events.PY_START, None)
        mon.register_callback(self.tool, mon.events.PY_RETURN, None)
        mon.free_tool_id(self.tool)
        self.tool = None

    def _start(self, code, offset):
        import sys
        label = self.codes.get(code)
        if label is None:
            return
        try:
            arg = sys._getframe(1).f_locals.get(code.co_varnames[0])
        except Exception:
            arg = None
        self.stack.append((label, arg))

    def _return(self, code, offset, retval):
        label = self.codes.get(code)
        if label is None or not self.stack:
            return
        lab, arg = self.stack.pop()
        if not self.stack:
            self.trace.append((lab, 0, arg, retval, None))

    def reset(self):
        del self.trace[:]
        del self.stack[:]

    def flush(self, exc):
        """After a render: watched calls that never returned raised (or let through) an exception."""
        if self.stack:
            lab, arg = self.stack[0]
            self.trace.append((lab, 0, arg, None, type(exc).__name__ if exc is not None else 'unwound'))
            del self.stack[:]


def compositions(a, b, s):
    """(b after a, a after b) of the model stages on text s; None where the statement is silent."""
    try:
        return U.STAGE[b](U.STAGE[a](s)), U.STAGE[a](U.STAGE[b](s))
    except U.NotJudged:
        return None


_DISC = {}


def discriminators(a, b):
    """Pool values on which the two modifiers do not commute (both compositions judged)."""
    key = (a, b) if a < b else (b, a)
    if key not in _DISC:
        out = []
        for s in PAIR_POOL:
            c = compositions(key[0], key[1], s)
            if c is not None and c[0] != c[1]:
                out.append(s)
        _DISC[key] = out
    return _DISC[key]


# ---------------------------------------------------------------- monitor + oracle
class Env:
    def __init__(self, ctx):
        self.ctx = ctx
        self.trace = []
        self.cache = {}
        self.order = None
        self.order_source = None
        self.nsamples = 0
        self.bsamples = 0
        self.alone = {}
        self.watch = StageWatch(self.trace)
        self.install()
        self.selfcheck_model()
        self.learn_order()

    def close(self):
        self.watch.stop()

    # -- observation of the real stage functions ---------------------------
    def install(self):
        from DocumentTemplate import DT_Var
        funcs = []
        for n in U.MODS:
            f = getattr(DT_Var, n, None)
            if callable(f):
                funcs.append(f)
        table = getattr(DT_Var, 'modifiers', None)
        try:
            for t in table or ():
                if isinstance(t, tuple) and len(t) == 2 and callable(t[1]):
                    funcs.append(t[1])
        except TypeError:
            pass
        sf = getattr(DT_Var, 'special_formats', None)
        if isinstance(sf, dict):
            funcs.extend(f for f in sf.values() if callable(f))
        for f in funcs:
            self.watch.watch(f)
        if not self.watch.start():
            self.ctx.count('trace:no free sys.monitoring tool id')

    def special(self, fmt):
        from DocumentTemplate import DT_Var
        sf = getattr(DT_Var, 'special_formats', None)
        return sf.get(fmt) if isinstance(sf, dict) else None

    def selfcheck_model(self):
        """The model's percent-coding must agree with the stdlib (harness sanity, not a verdict)."""
        import urllib.parse as up
        rng = self.ctx.rng
        alpha = 'aZ09 _.-~/+%&=?\xe9€\'"<\n'
        pool = STRS + [''.join(rng.choice(alpha) for _ in range(rng.randint(0, 12))) for _ in range(200)]
        for s in pool:
            q, qp = U.m_url_quote(s), U.m_url_quote_plus(s)
            ok = (q == up.quote(s) and qp == up.quote_plus(s) and
                  U.m_url_unquote(s) == up.unquote(s) and U.m_url_unquote_plus(s) == up.unquote_plus(s) and
                  U.m_url_unquote(q) == s and U.m_url_unquote_plus(qp) == s)
            self.ctx.count('model:self-check evaluations')
            if not ok:
                self.ctx.inconclusive('model self-check failed on %r' % s)

    def render_raw(self, src, ns):
        from DocumentTemplate.DT_HTML import HTML
        self.watch.reset()
        exc = raw = None
        try:
            raw = HTML(src)(None, ns)
        except Exception as e:
            exc = e
        self.watch.flush(exc)
        return raw, exc

    def order_from_trace(self):
        """The order in which the stage functions were seen running for an all-modifiers tag."""
        raw, exc = self.render_raw('[<dtml-var x %s>]' % ' '.join(U.MODS), {'x': 'a'})
        names = dedupe([t[0] for t in self.trace if t[0] in U.MODS])
        self.partial_trace_order = names
        return names if sorted(names) == sorted(U.MODS) else None

    def order_from_outputs(self):
        """The order observable from rendered text alone: for every pair of modifiers that does not
        commute on some pool value, which of the two compositions the engine printed; topological
        order of those facts, ties in docstring order."""
        ctx = self.ctx
        before = {m: set() for m in U.MODS}     # before[b] = modifiers seen applied before b
        for a, b in itertools.combinations(U.MODS, 2):
            vals = discriminators(a, b)
            if not vals:
                continue
            v = vals[0]
            raw, exc = self.render_raw('[<dtml-var x %s %s>]' % (a, b), {'x': v})
            ab, ba = compositions(a, b, v)
            got = raw[1:-1] if isinstance(raw, str) and exc is None else None
            if got == ab:
                before[b].add(a)
            elif got == ba:
                before[a].add(b)
            else:
                ctx.count('order:pair output explained by neither composition')
        order = []
        left = list(U.MODS)
        while left:
            ready = [m for m in left if not (before[m] & set(left))]
            if not ready:
                case = mkcase(['str', 'a'], [(m, None) for m in left])
                ctx.case(('learn', 'cycle', tuple(left)), True)
                ctx.violation('pairwise outputs admit no single modifier order among %r' % left, case,
                              key='learn_cycle')
                order.extend(left)
                break
            # ties (pairs that commute on the whole pool): as far as observed running, else docstring order
            seen = [m for m in getattr(self, 'partial_trace_order', []) if m in ready]
            pick = seen[0] if seen else ready[0]
            order.append(pick)
            left.remove(pick)
        return order

    def learn_order(self):
        by_trace = self.order_from_trace()
        by_output = self.order_from_outputs()
        if by_trace is not None:
            self.order, self.order_source = by_trace, 'stage trace'
            self.ctx.count('order:from the stage trace')
            # cross-check: every pair fact observable from outputs must agree with the traced order
            agree = all(by_trace.index(a) < by_trace.index(b)
                        for i, a in enumerate(by_output) for b in by_output[i + 1:]
                        if discriminators(a, b)) if by_output else True
            self.ctx.count('order:trace and output-derived order agree' if agree
                           else 'order:trace and output-derived order DISAGREE')
        else:
            self.order, self.order_source = by_output, 'outputs'
            self.ctx.count('order:from outputs (stage observation incomplete)')
        if self.ctx.shard == 0:
            self.ctx.sample({'reference modifier order': self.order, 'read from': self.order_source,
                             'order derived from pair outputs alone': by_output})

    # -- one case ---------------------------------------------------------
    def compile(self, case):
        from DocumentTemplate.DT_HTML import HTML
        from DocumentTemplate.DT_String import String
        src = U.source(case)
        key = (case['syntax'] == 'epfs', src)
        t = self.cache.get(key)
        if t is None:
            if len(self.cache) > 30000:
                self.cache.clear()
            t = (String if key[0] else HTML)(src)
            t.cook()
            self.cache[key] = t
            self.ctx.count('templates compiled')
        return src, t

    def observed_stage(self, trace):
        def look(name, s):
            for n, idx, i, o, e in trace:
                if n == name and e is None and isinstance(i, (str, bytes)) and isinstance(o, (str, bytes)):
                    try:
                        if U.text_of(i) == s:
                            self.ctx.count('stages taken from the trace (not judged): ' + name)
                            return U.text_of(o)
                    except UnicodeError:
                        return None
            return None
        return look

    def trace_monitor(self, names, demanded):
        """Extra monitor on the observed stage calls.  Never decides alone that a stage is missing:
        an unobserved stage is only counted (the output oracle decides whether it was applied)."""
        ctx = self.ctx
        if not names:
            if demanded:
                ctx.count('trace:no stage observed for a tag with modifiers')
            return None
        ctx.count('trace:monitor evaluations')
        stray = [n for n in names if n not in demanded]
        if stray:
            return 'stage trace %r: stages ran that the tag does not select: %r (selected %r)' % (
                names, stray, demanded)
        if len(set(names)) != len(names):
            return 'stage trace %r: a modifier was applied more than once (selected %r)' % (names, demanded)
        if self.order_source == 'stage trace' and [n for n in demanded if n in names] != names:
            return 'stage trace %r: not the fixed order %r' % (names, demanded)
        if len(names) != len(demanded):
            ctx.count('trace:selected stage not observed (not decided by the trace)')
        return None

    def position_only(self, fmt, val):
        return self.special(fmt)(val, 'x', {})

    def classify(self, case, pred, mods, fmts, out, exc):
        opts = dict((n, v) for n, v in case['opts'])
        names = [t[0] for t in mods]
        if kind_of(case['value']) == 'bytes' and not mods:
            # no stage observation at all: recognise the mechanism from the rendered result alone
            sel = set(opts) & set(TEXT_ONLY)
            if isinstance(exc, TypeError) and (sel & {'spacify', 'newline_to_br'} or 'size' in opts):
                return MECH_BYTES
            if exc is None and 'thousands_commas' in sel and out is not None and "b'" in out:
                return MECH_BYTES
        if kind_of(case['value']) == 'bytes':
            if 'size' in opts and isinstance(exc, TypeError):
                pre = U.build(case['value'])
                if 'fmt' in opts:
                    if hasattr(pre, opts['fmt']):
                        pre = getattr(pre, opts['fmt'])()
                    else:
                        pre = fmts[-1][3] if fmts else None
                if mods:
                    pre = mods[-1][3]
                if isinstance(pre, bytes):
                    return MECH_BYTES
        if exc is None and names != pred.stages and dedupe(names) == pred.stages:
            extra = list(names)
            for n in pred.stages:
                extra.remove(n)
            if extra and set(extra) <= {'url_unquote', 'url_unquote_plus'} and \
                    all(names.count(n) == 2 for n in extra):
                alt = U.predict(case, self.order, self.observed_stage(mods + fmts), sequence=names,
                                position_only=self.position_only)
                if alt.status == 'out' and alt.text == out:
                    return MECH_TWICE
        return None

    def evaluate(self, case, part='?'):
        """Render one case on the engine, judge it; returns the observed text (or ('!', exc name))."""
        ctx = self.ctx
        desc = (case['syntax'], case['form'] + ('/var' if case.get('var_prefix') else ''),
                tuple(map(tuple, case['opts'])), repr(case['value']), case.get('cfmt', 's'))
        try:
            src, tmpl = self.compile(case)
        except Exception as e:
            ctx.case(desc, True)
            ctx.violation('valid dtml-var tag did not compile: %s: %s' % (type(e).__name__, str(e)[:160]),
                          case, key='compile_%s' % part)
            return None
        undefined = case['value'][0] == 'undefined'
        ns = {} if undefined else {'x': U.build(case['value'])}
        optd = dict(map(tuple, case['opts']))
        self.watch.reset()
        exc = out = None
        try:
            raw = tmpl(None, ns)
        except Exception as e:
            exc = e
        self.watch.flush(exc)
        trace = list(self.trace)
        # the first observed call is the fmt= stage when fmt names a special format
        fmts, mods = [], trace
        if 'fmt' in optd and trace and 'x' in ns and not hasattr(ns['x'], optd['fmt'] or '-'):
            f = self.special(optd['fmt'])
            if f is not None and getattr(f, '__name__', None) == trace[0][0]:
                fmts, mods = trace[:1], trace[1:]
        ctx.count('trace:stages recorded', len(trace))
        for t in mods:
            ctx.table('stage observed', t[0])
        if exc is None:
            if not (isinstance(raw, str) and len(raw) >= 2 and raw[0] == '[' and raw[-1] == ']'):
                ctx.case(desc, True)
                ctx.violation('rendering lost the sentinels around the tag: %r' % (raw,), case,
                              key='sentinel_%s' % part)
                return None
            out = raw[1:-1]
        pred = U.predict(case, self.order, self.observed_stage(trace), position_only=self.position_only)
        nontrivial = pred.status == 'out' and (pred.replaced is not None or pred.text != pred.plain)
        ctx.case(desc, nontrivial)
        names = [t[0] for t in mods]
        optnames = [n for n, v in case['opts']]
        ctx.table('syntax', case['syntax'])
        ctx.table('value kind', kind_of(case['value']))
        ctx.table('name form', case['form'])
        nm = sum(1 for n in optnames if n in U.MODS)
        ctx.table('modifiers in the tag', nm)
        for n in optnames:
            ctx.table('option', n)
        if case.get('cfmt', 's') != 's':
            ctx.table('C format', case['cfmt'])
        if 'fmt' in optnames:
            ctx.table('fmt', dict(map(tuple, case['opts']))['fmt'])
        # stage postcondition, wherever sql_quote sits in the pipeline
        for n, idx, i, o, e in mods:
            if n == 'sql_quote' and isinstance(o, str):
                ctx.count('sql_quote:postcondition_evaluations')
                if not U.sql_safe(o):
                    ctx.violation('sql_quote stage output can terminate a SQL literal: %r -> %r' % (i, o),
                                  case, key='sqlpost_%s' % part)
        # stage-type monitor: the modifiers are text operations
        for n, idx, i, o, e in mods:
            if isinstance(i, bytes) and n in TEXT_ONLY:
                ctx.count('judged:' + part)
                ctx.violation('text-only modifier %s received the undecoded bytes %r -> %s'
                              % (n, i, e or repr(o)), case, mech=MECH_BYTES,
                              key='%s_bytes_%s' % (part, n),
                              detail={'source': src, 'observed': out, 'raised': type(exc).__name__ if exc else None})
                return out if exc is None else ('!', type(exc).__name__)
        if pred.status == 'skip':
            ctx.count('not judged: ' + pred.why)
            return out if exc is None else ('!', type(exc).__name__)
        ctx.count('judged:' + part)
        if pred.replaced:
            ctx.count('replacement:' + pred.replaced)
        what = None
        detail = {'source': src, 'value': repr(ns.get('x', '(undefined)')), 'expected': pred.text,
                  'observed': out, 'stage trace': [(t[0], repr(t[2])[:80], repr(t[3])[:80], t[4])
                                                   for t in trace][:20],
                  'reference order': self.order, 'reference order read from': self.order_source}
        if exc is not None:
            what = 'render raised %s: %s (demanded %r)' % (type(exc).__name__, str(exc)[:100], pred.text[:80])
        elif out != pred.text:
            clause = None
            optd = dict(map(tuple, case['opts']))
            if 'size' in optd and pred.pre_size is not None:
                clause = U.truncation_clause(pred.pre_size, int(optd['size']), optd.get('etc', '...'), out)
            if pred.replaced:
                what = '%s= text %r was not inserted as written: %r' % (pred.replaced, pred.text, out[:120])
            elif clause:
                what = 'truncation: %s: %r size=%s -> %r (demanded %r)' % (
                    clause, pred.pre_size[:60], optd['size'], out[:80], pred.text[:80])
            else:
                what = 'output %r differs from the pipeline model %r' % (out[:120], pred.text[:120])
        elif not U.simple_form(case):
            what = self.trace_monitor(names, pred.stages)
        if what is None and exc is None and optnames and set(optnames) <= {'sql_quote'} and \
                case.get('cfmt', 's') == 's':
            ctx.count('sql_quote:final-output law evaluations')
            if not U.sql_safe(out):
                what = 'sql_quote output can terminate a SQL literal: %r' % out[:120]
        if what is not None:
            mech = self.classify(case, pred, mods, fmts, out, exc)
            ctx.violation(what, case, mech=mech, detail=detail,
                          key='%s_%s' % (part, '_'.join(optnames)[:60] or 'bare'))
        elif self.nsamples < 2 and nontrivial and len(optnames) >= 3 and part in SAMPLE_PARTS[ctx.shard % len(SAMPLE_PARTS)]:
            self.nsamples += 1
            ctx.sample({'source': src, 'x': repr(ns['x']) if 'x' in ns else '(undefined)', 'output': out, 'model': pred.text,
                        'stage trace': names})
        return out if exc is None else ('!', type(exc).__name__)

    # -- the tag inside enclosing blocks ---------------------------------
    def standalone(self, case, state):
        """The same tag alone in a template, same value: judged by the pipeline model as every other
        case, and the text the tag must also print inside any block."""
        c = dict(case, value=state)
        c.pop('block', None)
        key = (U.source(c), c['syntax'] == 'epfs', repr(state))
        if key not in self.alone:
            if len(self.alone) > 20000:
                self.alone.clear()
            self.alone[key] = self.evaluate(c, 'block-standalone')
        return self.alone[key]

    def compile_block(self, case):
        from DocumentTemplate.DT_HTML import HTML
        from DocumentTemplate.DT_String import String
        b = case['block']
        tagsrc = U.source(case)
        cls = String if b['wsyntax'] == 'epfs' else HTML
        src = U.block_source(b['wrap'], b['wsyntax'], tagsrc, 'x')
        is_sub = U.block_info(b['wrap'])[1] == 'sub'
        key = ('block', cls is String, src, tagsrc if is_sub else None)
        t = self.cache.get(key)
        if t is None:
            if len(self.cache) > 30000:
                self.cache.clear()
            tmpl = cls(src)
            tmpl.cook()
            sub = None
            if is_sub:
                sub = cls(tagsrc)
            t = self.cache[key] = (tmpl, sub)
            self.ctx.count('templates compiled')
        return src, t[0], t[1]

    def block_history(self, case):
        """Render ONE compiled block template over case['block']['states'] in that order; judge every
        render against the pipeline model and against the same tag rendered alone."""
        ctx = self.ctx
        b = case['block']
        key, wsyn, supply = b['wrap'], b['wsyntax'], b['supply']
        family, place, n, alt, needs = U.block_info(key)
        try:
            src, tmpl, sub = self.compile_block(case)
        except Exception as e:
            ctx.case(('block', key, wsyn, U.source(case)), True)
            ctx.violation('valid dtml-var tag inside a %s block did not compile: %s: %s'
                          % (family, type(e).__name__, str(e)[:160]), case, key='block_compile_%s' % family)
            return
        optnames = [o[0] for o in case['opts']]
        for idx, state in enumerate(b['states']):
            defined = state[0] != 'undefined'
            if not U.block_admits(needs, state):
                continue
            if state[0] == 'call' and case['form'] != 'name':
                # what an expression sees of a callable bound to the name (the callable or its result)
                # is not this property's business
                ctx.count('blocks:not judged (callable read through expr=)')
                continue
            c = dict(case, value=state)
            alone = self.standalone(c, state)
            ns = U.block_namespace(place, defined, U.build(state) if defined else None, 'x', sub)
            self.watch.reset()
            exc = raw = None
            try:
                if supply == 'kw':
                    raw = tmpl(**ns)
                elif supply == 'client':
                    h = U.Holder()
                    h.__dict__.update(ns)
                    raw = tmpl(h)
                else:
                    raw = tmpl(None, ns)
            except Exception as e:
                exc = e
            self.watch.flush(exc)
            trace = list(self.trace)
            pred = U.predict(c, self.order, self.observed_stage(trace), position_only=self.position_only)
            nontrivial = pred.status == 'out' and (pred.replaced is not None or pred.text != pred.plain)
            ctx.case(('block', key, wsyn, supply, src, repr(state)), nontrivial)
            seen = U.build(state[1] if state[0] == 'call' else state) if n == 'len' else None
            want_model = U.block_expected(n, alt, '[' + pred.text + ']', seen) if pred.status == 'out' else None
            want_alone = U.block_expected(n, alt, '[' + alone + ']', seen) if isinstance(alone, str) else None
            if want_model is None and want_alone is None:
                ctx.count('blocks:not judged (statement silent and the tag alone raises)')
                continue
            ctx.count('judged:block')
            ctx.table('block wrapper', key)
            ctx.table('block syntax', wsyn)
            ctx.table('block: namespace given as', supply)
            ctx.table('block: state of the name', 'call -> ' + kind_of(state[1]) if state[0] == 'call'
                      else kind_of(state))
            what = None
            if exc is not None:
                what = 'inside a %s block (%s) the tag raised %s: %s' % (
                    family, key, type(exc).__name__, str(exc)[:100])
            else:
                if want_model is not None:
                    ctx.count('blocks:model comparisons')
                    if raw not in want_model:
                        if pred.replaced:
                            what = 'inside a %s block (%s) the %s= text %r was not inserted: %r' % (
                                family, key, pred.replaced, pred.text, raw[:120])
                        else:
                            what = 'inside a %s block (%s) the output %r differs from the pipeline model %r' % (
                                family, key, raw[:120], pred.text[:120])
                if what is None and want_alone is not None:
                    ctx.count('blocks:comparisons with the tag alone')
                    if raw not in want_alone:
                        what = 'inside a %s block (%s) the tag prints %r, alone in a template it prints %r' % (
                            family, key, raw[:120], alone[:120])
            if what is not None:
                vc = dict(c, block=dict(b, states=b['states'][:idx + 1]))
                ctx.violation(what, vc, key='block_%s_%s' % (family, '_'.join(optnames)[:50] or 'bare'),
                              detail={'source': src, 'state': repr(state), 'namespace given as': supply,
                                      'expected': want_model or want_alone, 'observed': raw,
                                      'tag alone': alone, 'rendered before with': [repr(x) for x in b['states'][:idx]]})
                continue
            shown = (want_model or want_alone)[0]
            if n in ('opt',) and raw == alt and raw != shown:
                ctx.count('blocks:tag not on the path taken')
                continue
            outcome = ('missing' if pred.replaced == 'missing' else 'null' if pred.replaced == 'null'
                       else 'value') if pred.status == 'out' else 'model silent, equal to the tag alone'
            ctx.table('block wrapper: ' + outcome, key)
            ctx.table('block family x outcome', '%s: %s' % (family, outcome))
            if self.bsamples < 2 and nontrivial and pred.replaced and ctx.shard < 6:
                self.bsamples += 1
                ctx.sample({'source': src, 'x': repr(state), 'namespace given as': supply, 'output': raw,
                            'model': pred.text})

    # -- laws -------------------------------------------------------------
    def law_roundtrip(self, s, plus, via):
        ctx = self.ctx
        q_opt = 'url_quote_plus' if plus else 'url_quote'
        u_opt = 'url_unquote_plus' if plus else 'url_unquote'
        case = {'law': 'roundtrip', 's': s, 'plus': plus, 'via': via}
        ctx.case(('roundtrip', s, plus, via), True)
        ctx.count('law:roundtrip evaluations')
        model_q = U.m_url_quote_plus(s) if plus else U.m_url_quote(s)
        try:
            if via == 'engine':
                _, tq = self.compile(mkcase(['str', s], [(q_opt, None)]))
                q = tq(None, {'x': s})[1:-1]
            else:
                q = model_q
            _, tu = self.compile(mkcase(['str', q], [(u_opt, None)]))
            self.watch.reset()
            back = tu(None, {'x': q})[1:-1]
        except Exception as e:
            ctx.violation('url round trip raised %s: %s' % (type(e).__name__, str(e)[:100]), case,
                          key='roundtrip_raise')
            return
        names = [t[0] for t in self.trace]
        if back != s:
            un = U.m_url_unquote_plus if plus else U.m_url_unquote
            mech = None
            if names.count(u_opt) == 2 and back == un(un(q)):
                mech = MECH_TWICE
            ctx.violation('%s applied to %s(%r)=%r gives %r, not the original' % (u_opt, q_opt, s, q, back),
                          case, mech=mech, key='roundtrip_%s_%s' % (u_opt, via),
                          detail={'stage trace': names})


# ---------------------------------------------------------------- workload parts
def subsets_canonical():
    for mask in range(1 << len(U.MODS)):
        yield mask, [m for i, m in enumerate(U.MODS) if mask >> i & 1]


def part_subsets(env):
    ctx = env.ctx
    nv = len(VALUES)
    for mask, sub in subsets_canonical():
        if mask % ctx.nshards != ctx.shard:
            continue
        ctx.count('subsets:canonical-order subsets covered')
        if ctx.tier == 'quick':
            vals = [RICH1, VALUES[mask % nv], VALUES[(mask * 7 + 3) % nv]]
        else:
            vals = VALUES
        syntax = SYNTAXES[mask % 4]
        form = 'expr' if mask % 5 == 2 else 'name'
        for j, v in enumerate(vals):
            case = mkcase(v, [(m, None) for m in sub], syntax=syntax if j % 2 == 0 else 'dtml',
                          form=form if j % 3 == 0 else 'name')
            env.evaluate(case, 'subset')


def part_pairs(env):
    """Every ORDERED pair of the 12 modifiers on values where the two stages do not commute:
    both written orders must print the same text (and the text the pipeline model demands)."""
    ctx = env.ctx
    nv = 2 if ctx.tier == 'quick' else 8
    for i, (a, b) in enumerate(itertools.combinations(U.MODS, 2)):
        if i % ctx.nshards != ctx.shard:
            continue
        vals = discriminators(a, b)
        if not vals:
            ctx.table('pairs: commute on the whole pool', '%s+%s' % (a, b))
            continue
        ctx.count('pairs:unordered pairs rendered in both orders on a non-commuting value')
        for vi, s in enumerate(vals[:nv]):
            syntax = SYNTAXES[(i + vi) % 4]
            c1 = mkcase(['str', s], [(a, None), (b, None)], syntax=syntax)
            c2 = mkcase(['str', s], [(b, None), (a, None)], syntax=syntax)
            o1 = env.evaluate(c1, 'pair')
            o2 = env.evaluate(c2, 'pair')
            ctx.count('pairs:law evaluations')
            if o1 != o2 and o1 is not None and o2 is not None:
                ctx.violation('two written orders of the same option set differ: <%s %s> gives %r, <%s %s> gives %r'
                              % (a, b, o1, b, a, o2), c2, key='pairlaw_%s_%s' % (a, b))


def part_orders(env):
    """All written orders of small subsets; every order must give what the canonical order gives."""
    ctx = env.ctx
    idx = 0
    for k in (2, 3, 4):
        for sub in itertools.combinations(U.MODS, k):
            idx += 1
            if idx % ctx.nshards != ctx.shard:
                continue
            if ctx.tier == 'quick' and k == 4 and (idx // ctx.nshards) % 6:
                continue
            vals = ORDER_VALUES[:2] if ctx.tier == 'quick' else ORDER_VALUES
            ref = {}
            ctx.count('orders:subsets with all written orders')
            ctx.table('orders: subset size', k)
            for p, perm in enumerate(itertools.permutations(sub)):
                for vi, v in enumerate(vals):
                    syntax = SYNTAXES[(p + vi) % 4]
                    case = mkcase(v, [(m, None) for m in perm], syntax=syntax)
                    got = env.evaluate(case, 'order')
                    ctx.count('orders:templates x values')
                    if p == 0:
                        ref[vi] = got
                    elif got != ref[vi] and got is not None and ref[vi] is not None:
                        ctx.count('orders:law evaluations')
                        ctx.violation('two written orders of the same option set differ: %r gives %r, %r gives %r'
                                      % (list(sub), ref[vi], list(perm), got), case,
                                      key='orderlaw_' + '_'.join(perm))
                    else:
                        ctx.count('orders:law evaluations')
    # valued options among the modifiers: position in the tag must not matter either
    bases = [
        [('upper', None), ('size', '9'), ('etc', '--'), ('spacify', None)],
        [('fmt', 'strip'), ('lower', None), ('null', 'N'), ('size', '4')],
        [('url_unquote_plus', None), ('fmt', 'url-quote'), ('capitalize', None), ('size', '12'), ('etc', '')],
        [('thousands_commas', None), ('fmt', '%.1f'), ('null', 'nil'), ('html_quote', None)],
        [('missing', 'gone'), ('upper', None), ('null', 'N'), ('size', '2')],
    ]
    vals = {0: [RICH1, ['str', 'Hello_World']], 1: [['str', '  MiXeD cAsE_text '], ['str', '']],
            2: [['str', 'a b+c/d e_f'], ['bytes', '%41+b_c']], 3: [['float', 1234567.891], ['int', 7], ['none']],
            4: [['undefined'], ['str', 'abc_def'], ['list', []]]}
    for bi, base in enumerate(bases):
        if bi % ctx.nshards != ctx.shard:
            continue
        perms = list(itertools.permutations(base))
        if ctx.tier == 'quick':
            perms = perms[::5]
        ref = {}
        for p, perm in enumerate(perms):
            for vi, v in enumerate(vals[bi]):
                case = mkcase(v, perm, syntax=('dtml', 'ssi', 'epfs')[p % 3], quote=bool(p % 2))
                got = env.evaluate(case, 'order-valued')
                ctx.count('orders:valued-option permutations')
                if p == 0:
                    ref[vi] = got
                elif got != ref[vi]:
                    ctx.violation('two written orders of the same option set differ: %r gives %r, first order gave %r'
                                  % (list(perm), got, ref[vi]), case, key='orderlaw_valued_%d' % bi)
    # seeded permutations of larger subsets
    rng = ctx.rng
    n = (400 if ctx.tier == 'quick' else 24000) // ctx.nshards
    for _ in range(n):
        k = rng.randint(5, 12)
        sub = rng.sample(U.MODS, k)
        canon = [m for m in U.MODS if m in sub]
        v = rng.choice(ORDER_VALUES)
        a = env.evaluate(mkcase(v, [(m, None) for m in canon]), 'order-large')
        b = env.evaluate(mkcase(v, [(m, None) for m in sub], syntax=rng.choice(SYNTAXES)), 'order-large')
        ctx.count('orders:large-subset permutations')
        if a != b and a is not None and b is not None:
            ctx.violation('two written orders of the same option set differ: %r gives %r, %r gives %r'
                          % (canon, a, sub, b), mkcase(v, [(m, None) for m in sub]), key='orderlaw_large')


FMT_BY_KIND = {
    'str': ['upper', 'lower', 'strip', 'title', 'swapcase', 'capitalize', 'casefold',
            'collection-length', 'sql-quote', 'html-quote', 'url-quote', 'url-quote-plus',
            'url-unquote', 'url-unquote-plus', 'multi-line', 'comma-numeric', 'structured-text',
            '%s', '%10s', '%-8s|', 'v=%s', '%.3s'],
    'bytes': ['upper', 'collection-length', 'url-quote', 'url-unquote-plus', 'sql-quote', 'html-quote'],
    'int': ['whole-dollars', 'dollars-and-cents', 'comma-numeric', 'dollars-with-commas',
            'dollars-and-cents-with-commas', 'bit_length', '__abs__', '%d', '%05d', '%x', '%.2f',
            '$%.2f', '%s items', '%e', 'url-quote'],
    'float': ['whole-dollars', 'dollars-and-cents', 'comma-numeric', 'dollars-with-commas',
              'dollars-and-cents-with-commas', 'is_integer', 'hex', '__abs__', '%.2f', '%d',
              '%10.3f', '%e', '%g', '%s'],
    'list': ['collection-length', '%s', 'copy', '__len__'],
    'dict': ['collection-length', '%s', 'copy'],
    'obj': ['Day', 'amount', 'code', '%s', 'collection-length'],
    'falsy': ['Day', 'amount', 'collection-length'],
    'none': ['%s', 'whole-dollars', 'collection-length'],
    'decimal': ['copy_abs', 'is_zero', 'to_integral_value', 'comma-numeric', 'url-quote', '%s', '%.2f', '%d',
                '%10.3f|', 'whole-dollars'],
    'fraction': ['__abs__', 'is_integer', 'comma-numeric', '%s', '%.3f', 'url-quote-plus'],
    'complex': ['conjugate', '__abs__', '%s', 'comma-numeric', 'html-quote'],
    'bool': ['%s', '%d', 'bit_length', 'comma-numeric', 'whole-dollars'],
    'intsub': ['whole-dollars', 'dollars-and-cents-with-commas', 'comma-numeric', 'bit_length', '%d', '%05d'],
    'floatsub': ['dollars-and-cents', 'comma-numeric', 'is_integer', '%.2f', '%g'],
    'strsub': ['upper', 'strip', 'collection-length', 'url-quote', '%s', '%5s|'],
    'tuple': ['collection-length', '__len__'],
    'set': ['collection-length', 'copy', '%s'],
    'frozenset': ['collection-length', '%s'],
    'range': ['collection-length', '%s', '__len__'],
    'bytearray': ['collection-length', '%s'],
    'zero': ['Day', 'amount', 'code', '%s'],
    'unset': ['Day', 'amount', '%s'],
}
FMT_EXTRAS = [[], [('upper', None)], [('thousands_commas', None)],
              [('spacify', None), ('size', '6')], [('null', 'N')],
              [('url_unquote', None), ('lower', None)], [('html_quote', None), ('size', '5'), ('etc', '')]]
CFMTS = ['s', 'd', 'f', '10.2f', '.3s', '5d', 'e', 'x', '12s', '.0f', 'i', 'r', '08.3f', 'g']
# every C format of the EPFS surface syntax the option-count part crosses with the option sets
CFMTS_ALL = CFMTS + ['.2f', '05d', '6s', '3d', 'o', '.1f', 'X', 'E', '9.4s', 'a', 'c', 'G']


def part_fmt(env):
    ctx = env.ctx
    i = 0
    for v in VALUES:
        for fmt in FMT_BY_KIND.get(kind_of(v), []):
            for xi, extra in enumerate(FMT_EXTRAS):
                i += 1
                if i % ctx.nshards != ctx.shard:
                    continue
                if ctx.tier == 'quick' and (i // ctx.nshards) % 3:
                    continue
                opts = [('fmt', fmt)] + extra
                env.evaluate(mkcase(v, opts, syntax=('dtml', 'ssi')[xi % 2], quote=(i % 7 == 0)), 'fmt')
                if xi % 3 == 0:
                    # EPFS: custom format and C format together
                    cf = CFMTS[(i // 3) % len(CFMTS)]
                    env.evaluate(mkcase(v, opts, syntax='epfs', cfmt=cf), 'fmt+cformat')
    # C formats alone and with modifiers
    for v in VALUES:
        for ci, cf in enumerate(CFMTS):
            for xi, extra in enumerate(([], [('thousands_commas', None)], [('upper', None), ('size', '4')],
                                        [('null', '-')])):
                i += 1
                if i % ctx.nshards != ctx.shard:
                    continue
                if ctx.tier == 'quick' and (i // ctx.nshards) % 2:
                    continue
                env.evaluate(mkcase(v, extra, syntax='epfs', cfmt=cf), 'cformat')


def ab_strings(maxlen):
    for n in range(1, maxlen + 1):
        for bits in range(1 << n):
            yield ''.join(' ' if bits >> j & 1 else 'a' for j in range(n))


ETCS = [None, '', '…', '--']


def part_size(env):
    ctx = env.ctx
    L = 6 if ctx.tier == 'quick' else 10
    extra_strings = ['blah blah blah blah', 'hello world foo bar baz', 'x' * 23, ' lead', 'trail ',
                     'a  b  c  d', 'one two', '\xe9t\xe9 € uro']
    i = 0
    for s in itertools.chain(ab_strings(L), extra_strings):
        i += 1
        if i % ctx.nshards != ctx.shard:
            continue
        for size in range(0, len(s) + 3):
            for ei, etc in enumerate(ETCS):
                opts = [('size', str(size))] + ([('etc', etc)] if etc is not None else [])
                syntax = ('dtml', 'epfs', 'ssi')[(size + ei) % 3]
                env.evaluate(mkcase(['str', s], opts, syntax=syntax, quote=bool(size % 2)), 'size')
                rel = 'size>=len (untouched)' if size >= len(s) else (
                    'size<len, cut back to a blank' if s[:size].rfind(' ') > size / 2 else (
                        'size<len, blank only in the first half' if ' ' in s[:size] else 'size<len, no blank'))
                ctx.table('truncation', rel)
                if size < len(s) and size % 2 == 0 and s[:size].rfind(' ') == size // 2 and size:
                    ctx.table('truncation', 'last blank exactly at index size/2')
        ctx.count('size:strings with every size 0..len+2 and every etc')
    # truncation acts on the text after the modifiers and formats
    combos = [
        (['str', 'ab_cd_ef_gh'], [('spacify', None)]),
        (['str', 'a<b>&c d'], [('html_quote', None)]),
        (['str', 'a b c d e f'], [('url_quote_plus', None)]),
        (['str', 'a+b+c+d+e+f'], [('url_unquote_plus', None)]),
        (['int', 1234567], []), (['int', 1234567], [('thousands_commas', None)]),
        (['float', 1234567.891], [('fmt', 'dollars-and-cents-with-commas')]),
        (['obj'], [('fmt', 'Day'), ('spacify', None)]), (['obj'], [('url', None)]),
        (['list', [1, 2, 3]], []), (['none'], []), (['str', 'line one\nline two'], [('newline_to_br', None)]),
        (['str', "it's o'k isn't it"], [('sql_quote', None)]),
        (['bytes', 'abc_DEF 1234567'], [('html_quote', None)]),
        (['bytes', 'abc_DEF 1234567'], []),
    ]
    for ci, (v, mods) in enumerate(combos):
        if ci % ctx.nshards != ctx.shard:
            continue
        p = U.predict(mkcase(v, mods), env.order or list(U.MODS))
        n = len(p.text) if p.status == 'out' else 12
        for size in range(0, n + 3):
            for etc in ETCS:
                opts = mods + [('size', str(size))] + ([('etc', etc)] if etc is not None else [])
                if size % 2:
                    opts = opts[::-1]
                env.evaluate(mkcase(v, opts, syntax=('dtml', 'ssi')[size % 2]), 'size+modifiers')


def part_nullmissing(env):
    ctx = env.ctx
    texts = ['M', '', 'n_a %41 x', 'Zero 0', '<i>none</i>']
    extras = [[], [('upper', None)], [('spacify', None), ('url_unquote', None)], [('size', '2')],
              [('fmt', 'upper')], [('html_quote', None)], [('fmt', '%d'), ('thousands_commas', None)],
              [('lower', None), ('size', '1'), ('etc', '!')], [('sql_quote', None), ('newline_to_br', None)]]
    i = 0
    for t in texts:
        for extra in extras:
            for both in (False, True):
                i += 1
                if i % ctx.nshards != ctx.shard:
                    continue
                opts = [('missing', t)] + extra + ([('null', 'NULL_text')] if both else [])
                if i % 2:
                    opts = opts[::-1]
                env.evaluate(mkcase(['undefined'], opts, syntax=('dtml', 'ssi', 'epfs')[i % 3], quote=True),
                             'missing')
                # a defined value ignores missing=, however false / null / zero it is
                env.evaluate(mkcase(['str', 'def_ined'], opts, quote=True), 'missing-unused')
                dv = DEFINED_FALSE[i % len(DEFINED_FALSE)]
                env.evaluate(mkcase(dv, opts, syntax=('dtml', 'epfs', 'ssi')[i % 3], quote=True),
                             'missing-unused-false')
                ctx.table('missing= with a defined value', kind_of(dv))
    nullish = [['none'], ['str', ''], ['list', []], ['dict', {}], ['tuple', []], ['bytes', ''], ['falsy'],
               ['int', 0], ['float', 0.0], ['str', 'a_b'], ['list', [0]], ['int', 5], ['str', '0'], ['str', ' '],
               ['obj']] + TOWER
    for v in nullish:
        for t in texts:
            for extra in extras:
                i += 1
                if i % ctx.nshards != ctx.shard:
                    continue
                if ctx.tier == 'quick' and (i // ctx.nshards) % 2:
                    continue
                opts = [('null', t)] + extra
                if i % 2:
                    opts = opts[::-1]
                env.evaluate(mkcase(v, opts, syntax=('dtml', 'ssi', 'epfs')[i % 3], quote=True,
                                    form=('name', 'expr')[i % 5 == 0]), 'null')
                ctx.table('null: value kind', kind_of(v))


DEFINED_FALSE = [['none'], ['str', ''], ['int', 0], ['float', 0.0], ['list', []], ['dict', {}], ['tuple', []],
                 ['falsy'], ['bytes', ''], ['decimal', '0.00'], ['fraction', [0, 1]], ['complex', [0, 0]],
                 ['bool', False], ['zero'], ['unset'], ['set', []], ['strsub', '']]

# zeros of every numeric type (values, never null) and their null / non-null neighbours
ZEROS = [['int', 0], ['float', 0.0], ['float', -0.0], ['decimal', '0'], ['decimal', '0.00'], ['decimal', '-0'],
         ['decimal', '0.0000'], ['decimal', '0E+3'], ['fraction', [0, 1]], ['fraction', [0, 3]],
         ['complex', [0, 0]], ['complex', [-0.0, 0]], ['intsub', 0], ['floatsub', 0.0], ['zero']]
NULLS = [['none'], ['str', ''], ['strsub', ''], ['bytes', ''], ['bytearray', ''], ['list', []], ['tuple', []],
         ['dict', {}], ['set', []], ['frozenset', []], ['range', 0], ['falsy'], ['unset']]
NONNULL = [['decimal', '1.50'], ['decimal', '-0.01'], ['fraction', [1, 3]], ['complex', [0, 1]], ['float', 'nan'],
           ['float', 1e-300], ['intsub', 5], ['floatsub', -2.5], ['str', '0'], ['str', ' '], ['list', [0]],
           ['tuple', [None]], ['range', 2], ['set', [0]], ['bytearray', '0'], ['obj'], ['int', -1]]
NULL_REST = [[], [('upper', None)], [('fmt', '%.2f')], [('fmt', 'dollars-and-cents')], [('size', '3'), ('etc', '')],
             [('thousands_commas', None), ('html_quote', None)], [('fmt', '%s|'), ('spacify', None), ('size', '40')],
             [('missing', 'M')], [('url_quote', None)]]
NULL_CFMTS = ['s', '.1f', 'd', '6s', 'r', 'e']


def part_nulltower(env):
    """null= on the whole numeric tower: a zero of ANY numeric type is a value ("false but not 0" is the
    null test) and goes on through fmt=, the C format, the modifiers and size; every empty container /
    false non-number is null; non-zero neighbours are values.  Every spelling of the tag: dtml, ssi,
    entity (valueless null), EPFS with a C format, expr= forms; null= first, last, between the others."""
    ctx = env.ctx
    texts = ['n/a', '', '0', 'NULL_x %41']
    i = 0
    for group, vals in (('zero', ZEROS), ('null', NULLS), ('non-null', NONNULL)):
        for v in vals:
            for ri, rest in enumerate(NULL_REST):
                for ti, t in enumerate(texts):
                    i += 1
                    if i % ctx.nshards != ctx.shard:
                        continue
                    if ctx.tier == 'quick' and ri and (i // ctx.nshards + ti) % 2:
                        continue
                    pos = (i // 3) % (len(rest) + 1)
                    opts = rest[:pos] + [('null', t)] + rest[pos:]
                    sel = i % 7
                    if sel == 0:
                        case = mkcase(v, opts, syntax='ssi', quote=True)
                    elif sel == 1:
                        case = mkcase(v, opts, form='expr', quote=True, bare_expr=bool(i % 2))
                    elif sel == 2:
                        case = mkcase(v, opts, syntax='epfs', quote=True, cfmt=NULL_CFMTS[(i // 7) % len(NULL_CFMTS)])
                    elif sel == 3:
                        case = mkcase(v, opts, syntax='epfs', quote=True, var_prefix=True,
                                      form=('name', 'expr')[i % 2], cfmt=NULL_CFMTS[(i // 7) % len(NULL_CFMTS)])
                    elif sel == 4:
                        case = mkcase(v, opts, quote=True, name_attr=True)
                    else:
                        case = mkcase(v, opts, quote=True)
                    env.evaluate(case, 'nulltower')
                    ctx.table('null tower: ' + group, kind_of(v))
            # valueless null (the entity spelling &dtml.null-x; and the tag spelling): a non-null value
            # still goes through the pipeline; the replacement text of a null one is not stated
            for extra in ([], [('upper', None)], [('html_quote', None), ('spacify', None)]):
                i += 1
                if i % ctx.nshards != ctx.shard:
                    continue
                opts = [('null', None)] + extra
                env.evaluate(mkcase(v, opts, syntax='ent'), 'nulltower-valueless')
                env.evaluate(mkcase(v, opts[::-1], syntax=('dtml', 'ssi', 'epfs')[i % 3]), 'nulltower-valueless')


# ---- option count: tags with no, one or two options, in every spelling, under every C format
FEW_UNIVERSE = U.MODS + ('fmt', 'null', 'missing', 'size', 'etc', 'url')
FEW_TEXT = {'null': 'N', 'missing': 'M', 'size': '5', 'etc': '~'}
# fmt= texts per value kind: a method of the value, a named special format, a %-format
FEW_FMT = {'int': ['__abs__', 'whole-dollars', '%05d'], 'float': ['__abs__', 'dollars-and-cents', '%.2f'],
           'str': ['strip', 'url-quote', '%6s|'], 'decimal': ['copy_abs', 'comma-numeric', '%.1f'],
           'obj': ['amount', 'collection-length', 'v=%s'], 'none': ['%s', 'collection-length', '__repr__'],
           'bool': ['__abs__', 'comma-numeric', '%d'], 'fraction': ['__abs__', 'comma-numeric', '%.3f'],
           'intsub': ['__abs__', 'dollars-with-commas', '%x'], 'undefined': ['strip', 'url-quote', '%s']}
FEW_VALUES = [['float', 3.14159], ['int', 42], ['str', 'a<b_C &d%41'], ['int', 255], ['float', -1234567.891],
              ['decimal', '1234.50'], ['obj'], ['none'], ['str', ''], ['int', 0], ['fraction', [7, 2]],
              ['str', '1234567'], ['bool', True], ['intsub', 7]]
HTML_SPELLINGS = [dict(syntax='dtml'), dict(syntax='ssi'), dict(syntax='ent'), dict(syntax='dtml', name_attr=True),
                  dict(syntax='dtml', form='expr'), dict(syntax='dtml', form='expr', bare_expr=True),
                  dict(syntax='ssi', form='expr'), dict(syntax='ssi', name_attr=True)]
EPFS_SPELLINGS = [dict(), dict(var_prefix=True), dict(var_prefix=True, form='expr'),
                  dict(var_prefix=True, name_attr=True)]


def few_opts(names, v, fi=0):
    kind = kind_of(v)
    if 'url' in names and kind not in ('obj', 'falsy'):
        return None
    out = []
    for n in names:
        if n in U.MODS or n == 'url':
            out.append((n, None))
        elif n == 'fmt':
            if kind not in FEW_FMT:
                return None
            out.append((n, FEW_FMT[kind][fi % len(FEW_FMT[kind])]))
        else:
            out.append((n, FEW_TEXT[n]))
    return out


def part_optcount(env):
    """The number of options must not select another pipeline: every option set of size 0, 1 and 2 over
    the 12 modifiers, fmt=, null=, missing=, size=, etc= and url, in both written orders, under EVERY C
    format of the EPFS syntax (plain, %(var name ...)F, %(var expr=...)F, %(var name=...)F) and in every
    HTML spelling (dtml / ssi / entity; name, name=, expr=, bare "expr")."""
    ctx = env.ctx
    sets = [()] + [(a,) for a in FEW_UNIVERSE] + list(itertools.permutations(FEW_UNIVERSE, 2))
    quick = ctx.tier == 'quick'
    i = 0
    for si, names in enumerate(sets):
        vals = FEW_VALUES + ([['undefined']] if 'missing' in names else [])
        small = len(names) <= 1
        nf = 3 if 'fmt' in names else 1
        for vi, (v, fi) in enumerate(itertools.product(vals, range(nf))):
            if quick and not small and nf > 1 and (vi + si) % 3:
                continue
            opts = few_opts(names, v, fi)
            if opts is None:
                continue
            for ci, cf in enumerate(CFMTS_ALL):
                i += 1
                if i % ctx.nshards != ctx.shard:
                    continue
                k = i // ctx.nshards
                if quick and not small and (k + si) % 6:
                    continue
                spell = EPFS_SPELLINGS if (small and not quick) else [EPFS_SPELLINGS[(k + ci) % len(EPFS_SPELLINGS)]]
                if small and quick:
                    spell = [EPFS_SPELLINGS[0], EPFS_SPELLINGS[1 + (k + ci) % (len(EPFS_SPELLINGS) - 1)]]
                for sp in spell:
                    env.evaluate(mkcase(v, opts, syntax='epfs', cfmt=cf, quote=bool(k % 2), **sp), 'optcount-cformat')
                    ctx.table('option count x C format', '%d option(s), %%%s' % (len(names), cf))
            i += 1
            if i % ctx.nshards != ctx.shard:
                continue
            k = i // ctx.nshards
            spell = HTML_SPELLINGS if (small or not quick) else [HTML_SPELLINGS[(k + vi) % len(HTML_SPELLINGS)]]
            for sp in spell:
                env.evaluate(mkcase(v, opts, quote=bool(k % 2), **sp), 'optcount-html')
                ctx.table('option count x HTML spelling', '%d option(s)' % len(names))
    # the two documented fast forms (bare tag, html_quote alone) on EVERY pool value in every spelling
    for vi, v in enumerate(VALUES):
        if vi % ctx.nshards != ctx.shard:
            continue
        for opts in ([], [('html_quote', None)]):
            for sp in HTML_SPELLINGS:
                env.evaluate(mkcase(v, opts, **sp), 'fastform')
            for j, sp in enumerate(EPFS_SPELLINGS):
                for cf in ('s', CFMTS_ALL[1 + (vi + j) % (len(CFMTS_ALL) - 1)]):
                    env.evaluate(mkcase(v, opts, syntax='epfs', cfmt=cf, **sp), 'fastform')
            ctx.count('fastform:values x spellings')


# ---- the tag inside enclosing blocks: the pipeline is a function of the tag and of the value bound to
# its name, not of the block the tag stands in, nor of what the template rendered before
BLOCK_STATES = [['undefined'], ['none'], ['str', ''], ['list', []], ['dict', {}], ['int', 0], ['float', 0.0],
                ['bool', False], ['decimal', '0.00'], ['falsy'], ['zero'], ['unset'], ['obj'],
                ['str', 'ab_Cd <1234567> e%41'], ['int', 1234567], ['float', 1234.5], ['list', [1, 2]],
                ['tuple', [3, 4, 5]], ['tuple', []], ['dict', {'a_b': 1}],
                ['bytes', 'by_Tes 12'], ['bool', True],
                ['call', ['str', 'call_Ed %41 <x>']], ['call', ['none']], ['call', ['int', 0]],
                ['call', ['list', []]], ['call', ['float', 7654321.5]], ['call', ['obj']]]
BLOCK_TAGS = [
    [('missing', 'M')],
    [('missing', 'MISSING'), ('null', 'NULL'), ('upper', None), ('size', '9'), ('etc', '~')],
    [('null', 'N')],
    [('null', 'NULL_t'), ('missing', 'gone')],
    [],
    [('html_quote', None)],
    [('missing', '')],
    [('html_quote', None), ('missing', 'm<i>&')],
    [('fmt', '%s|'), ('null', '-'), ('missing', '?')],
    [('spacify', None), ('capitalize', None), ('missing', 'M_m x')],
    [('size', '4'), ('missing', 'longer than size')],
    [('missing', None)],
    [('null', None), ('upper', None)],
    [('missing', None), ('null', None), ('lower', None)],
    [('url_quote', None), ('null', 'n/a')],
    [('thousands_commas', None), ('missing', '0')],
    [('url', None), ('null', 'N'), ('missing', 'M')],
    [('fmt', 'collection-length'), ('null', 'none'), ('missing', 'no such')],
    [('lower', None), ('sql_quote', None), ('newline_to_br', None), ('size', '12')],
]
BLOCK_CFMTS = ['s', 's', 'd', '.2f', 's', 'r', '6s']
BLOCK_SUPPLY = ('mapping', 'kw', 'client')
HAS_URL = ('obj', 'falsy', 'zero', 'unset', 'undefined')


def block_state_ok(opts, state):
    names = [n for n, v in opts]
    kind = kind_of(state)
    inner = kind_of(state[1]) if kind == 'call' else kind
    if inner == 'bytes' and ('size' in names or set(names) & set(TEXT_ONLY)):
        return False        # the known finding on undecoded bytes is the business of the other parts
    if inner == 'bytes' and 'fmt' in names and dict(opts)['fmt'] not in FMT_BY_KIND['bytes']:
        return False        # same: only the formats the fmt part renders on bytes
    if 'url' in names and kind not in HAS_URL:
        return False
    return True


def block_tags(ctx):
    """The tags rendered inside the blocks: the fixed list; in the thorough tier also the whole
    missing= / null= grid of part_nullmissing and seeded random tags."""
    tags = [list(t) for t in BLOCK_TAGS]
    if ctx.tier != 'quick':
        texts = ['M', '', 'n_a %41 x', '<i>none</i>']
        extras = [[], [('upper', None)], [('spacify', None), ('url_unquote', None)], [('size', '2')],
                  [('fmt', 'upper')], [('fmt', '%d'), ('thousands_commas', None)],
                  [('lower', None), ('size', '1'), ('etc', '!')]]
        for t in texts:
            for e in extras:
                tags.append([('missing', t)] + e)
                tags.append(e + [('null', t + '.'), ('missing', t)])
                tags.append([('null', t)] + e)
    return tags


def part_blocks(env):
    """One dtml-var tag inside every kind of enclosing block (if / elif / else / unless on the same
    name, on other names, on expressions, nested; in; with; let; try body / handler / else; a template
    called by name), in the dtml, ssi and %(if x)[ syntaxes, the namespace given as a mapping, as
    keywords, as a client object; each compiled template rendered over the whole sequence of states of
    the name (undefined, None, every kind of false / null / zero value, values, callables returning
    them) in a seeded order."""
    ctx = env.ctx
    tags = block_tags(ctx)
    i = 0
    for ti, opts in enumerate(tags):
        for wi, key in enumerate(U.BLOCK_KEYS):
            for si, wsyn in enumerate(U.BLOCK_SYNTAXES):
                i += 1
                if i % ctx.nshards != ctx.shard:
                    continue
                k = i // ctx.nshards
                if wsyn == 'epfs':
                    sp = dict(EPFS_SPELLINGS[(ti + wi) % len(EPFS_SPELLINGS)], syntax='epfs',
                              cfmt=BLOCK_CFMTS[(ti + wi + k) % len(BLOCK_CFMTS)])
                else:
                    sp = dict(HTML_SPELLINGS[(ti + wi + si) % len(HTML_SPELLINGS)])
                    if ti < len(BLOCK_TAGS) and (wi + ti) % 3:
                        sp = dict(HTML_SPELLINGS[(wi + si) % 4])      # mostly the plain-name spellings
                case = mkcase(['undefined'], opts, quote=bool(k % 2), varname='x', **sp)
                states = [st for st in BLOCK_STATES if block_state_ok(opts, st)]
                ctx.rng.shuffle(states)
                # the name undefined at the start, in the middle and at the end of the history as well
                for pos in (0, len(states) // 2, len(states) + 1):
                    states.insert(min(pos + ctx.rng.randrange(3), len(states)), ['undefined'])
                case['block'] = {'wrap': key, 'wsyntax': wsyn, 'supply': BLOCK_SUPPLY[(k + ti) % 3],
                                 'states': states}
                env.block_history(case)
    if ctx.tier == 'quick':
        return
    # seeded random tags in seeded wrappers
    rng = ctx.rng
    for _ in range(120000 // ctx.nshards):
        c = random_case(rng)
        if kind_of(c['value']) == 'bytes':
            continue
        opts = [tuple(o) for o in c['opts']]
        if 'missing' not in dict(opts) and rng.random() < 0.5:
            opts.insert(rng.randrange(len(opts) + 1), ('missing', rng.choice(['M', '', 'gone_%41'])))
        if 'null' not in dict(opts) and rng.random() < 0.3:
            opts.insert(rng.randrange(len(opts) + 1), ('null', rng.choice(['N', '', 'n_a'])))
        wsyn = 'epfs' if c['syntax'] == 'epfs' else rng.choice(('dtml', 'ssi'))
        kw = dict((k, c[k]) for k in ('quote', 'name_attr', 'bare_expr', 'var_prefix') if k in c)
        case = mkcase(['undefined'], opts, syntax=c['syntax'], form=c['form'], cfmt=c['cfmt'], varname='x', **kw)
        own = [c['value'], ['call', c['value']]] if c['value'][0] != 'undefined' else []
        pool = [st for st in BLOCK_STATES + own if block_state_ok(opts, st)]
        states = rng.sample(pool, min(len(pool), 6)) + [['undefined']]
        rng.shuffle(states)
        case['block'] = {'wrap': rng.choice(U.BLOCK_KEYS), 'wsyntax': wsyn, 'supply': rng.choice(BLOCK_SUPPLY),
                         'states': states}
        env.block_history(case)
        ctx.count('blocks:random histories')


def part_laws(env):
    ctx = env.ctx
    rng = ctx.rng
    pool = list(STRS) + [RICH1[1], RICH2[1], '%', '%%', '%4', '%zz', '+', '++ +', '%2B', '%20', '%25',
                         '%2525', 'a%b', '€%€', '/', '?&=#', '%41%42', '%e9']
    alpha = 'aZ09 _.-~/+%&=?\xe9€\'"<%2541'
    n = (40 if ctx.tier == 'quick' else 1500)
    pool += [''.join(rng.choice(alpha) for _ in range(rng.randint(1, 14))) for _ in range(n)]
    for i, s in enumerate(pool):
        if i % ctx.nshards != ctx.shard:
            continue
        for plus in (False, True):
            for via in ('model', 'engine'):
                env.law_roundtrip(s, plus, via)
    # sql_quote: hostile texts, sql_quote alone and after other modifiers
    salpha = ["'", "''", '\x00', '\x1a', '\r', '\n', 'a', ' ', '%27', '\\', '"', ';', '--']
    n = (60 if ctx.tier == 'quick' else 3000) // ctx.nshards + 1
    for _ in range(n):
        s = ''.join(rng.choice(salpha) for _ in range(rng.randint(1, 10)))
        env.evaluate(mkcase(['str', s], [('sql_quote', None)]), 'sql')
        others = rng.sample([m for m in U.MODS if m not in ('sql_quote',)], rng.randint(1, 3))
        env.evaluate(mkcase(['str', s], [('sql_quote', None)] + [(m, None) for m in others]), 'sql+others')
        env.evaluate(mkcase(['str', s], [('fmt', 'sql-quote')]), 'sql-fmt')


def part_url(env):
    ctx = env.ctx
    if ctx.shard != ctx.nshards - 1:
        return
    for extra in ([], [('upper', None)], [('url_quote', None)], [('spacify', None), ('size', '9')],
                  [('null', 'N')], [('fmt', 'upper')], [('fmt', '%s!'), ('lower', None)]):
        for v in (['obj'], ['falsy']):
            for form in ('name', 'expr'):
                opts = [('url', None)] + extra
                env.evaluate(mkcase(v, opts, form=form), 'url')
                env.evaluate(mkcase(v, opts[::-1], form=form, syntax='ssi'), 'url')


def random_case(rng):
    v = rng.choice(VALUES)
    kind = kind_of(v)
    k = rng.choice((0, 1, 1, 2, 2, 3, 3, 4, 5, 7))
    opts = [(m, None) for m in rng.sample(U.MODS, k)]
    if rng.random() < 0.3 and kind in FMT_BY_KIND:
        opts.append(('fmt', rng.choice(FMT_BY_KIND[kind])))
    if rng.random() < 0.35:
        n = len(U.text_of(U.build(v)))
        opts.append(('size', str(rng.randint(0, n + 2))))
        if rng.random() < 0.6:
            opts.append(('etc', rng.choice(ETCS[1:] + ['>>', ' more'])))
    elif rng.random() < 0.1:
        opts.append(('etc', '~'))
    if rng.random() < 0.25:
        opts.append(('null', rng.choice(['N', '', 'n_a'])))
    if rng.random() < 0.12:
        opts.append(('missing', rng.choice(['M', '', 'gone_%41'])))
        if rng.random() < 0.6:
            v = ['undefined']
    if kind in ('obj', 'falsy') and v[0] != 'undefined' and rng.random() < 0.3:
        opts.append(('url', None))
    rng.shuffle(opts)
    syntax = rng.choice(SYNTAXES)
    cfmt = 's'
    if syntax == 'epfs' and rng.random() < 0.5:
        cfmt = rng.choice(CFMTS)
    form = 'expr' if (rng.random() < 0.2 and v[0] != 'undefined') else 'name'
    return mkcase(v, opts, syntax=syntax, form=form, cfmt=cfmt, quote=rng.random() < 0.3,
                  name_attr=rng.random() < 0.1, bare_expr=rng.random() < 0.5)


def part_random(env):
    ctx = env.ctx
    n = (5000 if ctx.tier == 'quick' else 960000) // ctx.nshards
    for _ in range(n):
        env.evaluate(random_case(ctx.rng), 'random')
        ctx.count('random:cases')


PARTS = [part_pairs, part_subsets, part_orders, part_fmt, part_size, part_nullmissing, part_nulltower,
         part_optcount, part_laws, part_url, part_random, part_blocks]


def watch_anchors(reach):
    from DocumentTemplate import DT_Var
    reach.watch('Var.__init__', DT_Var.Var.__init__)
    reach.watch('Var.render', DT_Var.Var.render)
    for n in ('url_quote', 'url_quote_plus', 'url_unquote', 'url_unquote_plus', 'newline_to_br',
              'thousands_commas', 'sql_quote', 'lower', 'upper', 'capitalize', 'spacify',
              'whole_dollars', 'dollars_and_cents', 'len_format'):
        f = getattr(DT_Var, n, None)
        if f is not None:
            reach.watch('DT_Var.' + n, f)
        else:
            reach.counts.setdefault('DT_Var.' + n, 0)


def run(ctx, spec):
    from vlib.reach import Reach
    reach = Reach()
    watch_anchors(reach)
    reach.start()
    env = None
    try:
        env = Env(ctx)
        for part in PARTS:
            part(env)
    finally:
        if env is not None:
            env.close()
        reach.stop()
        reach.report(ctx)


def finish(agg):
    c = agg['counters']
    t = agg.get('tables', {})
    inc = []
    nsh = NSHARDS[agg['tier']]
    # stage observation: its absence never decides, it only makes a violation-free run inconclusive
    if c.get('order:from the stage trace', 0) != nsh:
        inc.append('stage observation did not see all 12 modifiers: reference order derived from outputs only')
    if not c.get('trace:stages recorded') or not c.get('trace:monitor evaluations'):
        inc.append('stage observation (code-object monitor) never evaluated')
    for m in U.MODS:
        if not t.get('stage observed', {}).get(m):
            inc.append('stage function never observed running: ' + m)
    if c.get('order:trace and output-derived order DISAGREE'):
        inc.append('order read from the stage trace disagrees with the order observable from outputs')
    npairs = sum(1 for a, b in itertools.combinations(U.MODS, 2) if discriminators(a, b))
    if c.get('pairs:unordered pairs rendered in both orders on a non-commuting value', 0) != npairs:
        inc.append('not every non-commuting modifier pair was rendered in both written orders')
    if c.get('subsets:canonical-order subsets covered', 0) != 1 << len(U.MODS):
        inc.append('not all 4096 modifier subsets were rendered')
    for k in ('pairs:law evaluations', 'orders:law evaluations', 'orders:valued-option permutations', 'orders:large-subset permutations',
              'law:roundtrip evaluations', 'sql_quote:postcondition_evaluations',
              'sql_quote:final-output law evaluations', 'replacement:missing', 'replacement:null',
              'judged:size', 'judged:fmt', 'judged:cformat', 'judged:fmt+cformat', 'judged:url',
              'judged:random', 'model:self-check evaluations',
              'judged:nulltower', 'judged:nulltower-valueless', 'judged:missing-unused-false',
              'judged:optcount-cformat', 'judged:optcount-html', 'judged:fastform',
              'judged:block', 'judged:block-standalone', 'blocks:model comparisons',
              'blocks:comparisons with the tag alone'):
        if not c.get(k):
            inc.append('deciding monitor never evaluated: ' + k)
    # the tag inside enclosing blocks: every wrapper must have shown the three outcomes of the pipeline head
    for key in U.BLOCK_KEYS:
        n, needs = U.block_info(key)[2], U.block_info(key)[4]
        for outcome in ('missing', 'null', 'value'):
            if outcome == 'missing' and needs:
                continue        # the wrapper itself reads the name: there is no render with the name undefined
            if outcome != 'value' and n == 'opt':
                continue        # the tag stands in one branch only: which values reach it is not fixed here
            if not t.get('block wrapper: ' + outcome, {}).get(key):
                inc.append('enclosing block %s: no judged render with the outcome %r' % (key, outcome))
    for syn in U.BLOCK_SYNTAXES:
        if not t.get('block syntax', {}).get(syn):
            inc.append('enclosing blocks never written in the %s syntax' % syn)
    for sup in BLOCK_SUPPLY:
        if not t.get('block: namespace given as', {}).get(sup):
            inc.append('enclosing blocks never rendered with the namespace given as ' + sup)
    for st in BLOCK_STATES:
        lab = 'call -> ' + kind_of(st[1]) if st[0] == 'call' else kind_of(st)
        if not t.get('block: state of the name', {}).get(lab):
            inc.append('enclosing blocks never rendered with the name in the state ' + lab)
    import os
    if os.environ.get('VERIF_DEBUG'):
        for name in sorted(t):
            if name.startswith('block'):
                print('  TABLE %s: %s' % (name, ', '.join('%s=%d' % kv for kv in sorted(t[name].items()))))
    for r in ('Var.__init__', 'Var.render', 'DT_Var.url_quote', 'DT_Var.url_quote_plus',
              'DT_Var.url_unquote', 'DT_Var.url_unquote_plus', 'DT_Var.newline_to_br',
              'DT_Var.thousands_commas', 'DT_Var.sql_quote', 'DT_Var.lower', 'DT_Var.upper',
              'DT_Var.capitalize', 'DT_Var.spacify', 'DT_Var.whole_dollars', 'DT_Var.dollars_and_cents',
              'DT_Var.len_format'):
        if not c.get('reach:' + r):
            inc.append('anchor never entered: ' + r)
    for rel in ('size>=len (untouched)', 'size<len, cut back to a blank',
                'size<len, blank only in the first half', 'size<len, no blank',
                'last blank exactly at index size/2'):
        if not t.get('truncation', {}).get(rel):
            inc.append('truncation relation never exercised: ' + rel)
    for group, vals in (('zero', ZEROS), ('null', NULLS), ('non-null', NONNULL)):
        for v in vals:
            if not t.get('null tower: ' + group, {}).get(kind_of(v)):
                inc.append('null= never rendered on a %s value of kind %s' % (group, kind_of(v)))
    for n in (0, 1, 2):
        for cf in CFMTS_ALL:
            if not t.get('option count x C format', {}).get('%d option(s), %%%s' % (n, cf)):
                inc.append('C format %%%s never rendered on a tag with %d option(s)' % (cf, n))
        if not t.get('option count x HTML spelling', {}).get('%d option(s)' % n):
            inc.append('HTML spellings never rendered on a tag with %d option(s)' % n)
    for m in U.MODS + ('fmt', 'null', 'missing', 'size', 'etc', 'url'):
        if not t.get('option', {}).get(m):
            inc.append('option never exercised: ' + m)
    judged = sum(v for k, v in c.items() if k.startswith('judged:'))
    notj = sum(v for k, v in c.items() if k.startswith('not judged: '))
    return {'inconclusive': inc,
            'coverage': {'exhaustive': True,
                         'exhaustive_parts': ['all 4096 modifier subsets in canonical order',
                                              'all written orders of all subsets of size 2 and 3'
                                              + (' and 4' if agg['tier'] == 'thorough' else ' (size 4: every 6th subset)'),
                                              'size 0..len+2 x 4 etc forms over all {a,blank} strings up to length %d'
                                              % (6 if agg['tier'] == 'quick' else 10)],
                         'judged_cases': judged, 'cases_where_statement_is_silent': notj,
                         'explanation': 'exhaustive only inside the stated parts; fmt/null/missing grids are '
                                        'fixed enumerations, the random part is seeded'}}


# ---------------------------------------------------------------- replay
def replay(ctx, rep):
    env = Env(ctx)
    try:
        _replay(ctx, env, rep)
    finally:
        env.close()


def _replay(ctx, env, rep):
    c = rep['case']
    if c.get('law') == 'roundtrip':
        env.law_roundtrip(c['s'], c['plus'], c['via'])
        return
    if c.get('block'):
        env.block_history(c)
        return
    env.evaluate(c, 'replay')
    # an order-law report: also render the canonical written order and compare
    names = [n for n, v in c['opts']]
    canon = sorted(c['opts'], key=lambda o: (U.MODS + U.VALUED + ('url',)).index(o[0]))
    if [n for n, v in canon] != names:
        a = env.evaluate(dict(c, opts=canon, syntax='dtml' if c['syntax'] == 'ent' else c['syntax']), 'replay')
        b = env.evaluate(c, 'replay')
        if a != b:
            ctx.violation('two written orders of the same option set differ: %r vs %r' % (a, b), c)
