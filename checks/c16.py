"""C16 — summary statistics inside dtml-in equal independently computed values.

Monitor: a dtml-in body that, on the last element, emits all ten statistics of one data
variable — once through ``<dtml-var stat-name>`` (rendered text) and once through the
expression ``_['stat-name']`` handed to a recording callable (the real objects) — with and
without ``mapping``; the order of the ten accesses is rotated so that every statistic name is
the *first* one asked for (only the first access runs the real ``statistics``; the others read
its cache).  A counting wrapper on the dispatch table entries records which prefix entered
``sequence_variables.statistics``.
Oracle: exact rational arithmetic (``fractions.Fraction``) written from the "Summary
statistics" section of the DT_In docstring and the property statement.

Two further parts generalise *how* the list reaches the tag and *what happened before*:

* shapes — the same items handed over as a tuple, deque, plain ``__getitem__``/``__len__`` class,
  generator, iterator, ``map``, dict-values view, set/frozenset or ``__iter__``-only class, looped
  with batch options (size/start/end/orphan/overlap, literal or by name), ``reverse`` / ``sort`` /
  ``reverse_expr`` / ``sort_expr``, the name or the expression form of the tag, one to three data
  variables (accesses interleaved or grouped), and the statistics emitted on the first displayed
  element, the last one, or on every one (each emission is judged).
* histories — one container object rendered again and again in the same process (same compiled
  template or a new one, other channel / rotation / mapping flag) while the application changes
  it in place between the renders (a value of an element, an element, append / pop / swap, a new
  container of the same elements, an unrelated render in between), or between two dtml-in tags of
  the same template; every render is judged against the model of the values at that moment.

The options of the tag are a dimension of their own (they decide how the elements are read, ordered and
displayed, never what is summarised):

* option grid — every subset of {mapping, no_push_item, prefix=, skip_unauthorized, sort, reverse, batch}
  crossed with the sort key (a variable whose statistics are asked / another key of the elements / several
  keys), the direction spelling of the key (x, x/cmp, x/cmp/asc, x/cmp/desc, x/nocase or a comparison
  function of the caller, .../desc), the way the reversal is asked for (reverse, reverse_expr true / false,
  literal / by name, both) and the batch options; sort specifications come as sort=, sort_expr="'...'" or
  sort_expr="name"; the attribute order is permuted; the loop may carry an else continuation.  The seeded
  shapes, the histories and the nested loops draw from the same option space.
* nested loops — an outer loop over one sequence and, on its last element, an inner loop over another one
  with the same variable names (own options, own mapping flag): the statistics asked before, inside and after
  the inner loop are those of the loop they are asked in.

Later parts generalise *what an element is* and *what stands around the statistics*:

* element kinds - "the elements may be either instance or mapping objects": the same loops over mapping objects
  that are no plain dict (a class with nothing but ``__getitem__``, a ``collections.abc.Mapping``, dict
  subclasses that compute the key in ``__missing__``, UserDict, ChainMap, OrderedDict, mappingproxy) and over
  instances that keep their attributes elsewhere than in a plain ``__dict__`` (``__slots__``, properties,
  ``__getattr__``, named tuples, SimpleNamespace, instances that are false in a boolean context), in single
  loops (every small list over every kind), nested loops and in-place histories; now and then the data
  variable is itself called ``item``.
* plain values - the sequence holds the ints / floats / strings / None themselves and the statistics are asked
  as ``statistic-item`` (the documented name of the element is ``sequence-item``): every small list, in every
  container (also UserList, array, the keys of a dict, a dict itself), with missing values at every position,
  with 0 / 0.0 / '' among the values, whole numbers beyond 2**53, batch / reversal / naming options.
* furnished nested loops - the inner loop (and now and then the outer one) renders other tags for every
  element: dtml-if with name and expression conditions, elif chains, else, dtml-unless, dtml-let, dtml-with,
  dtml-try, small loops; the inner loop runs for every outer element or only for the last one; the emissions
  may sit inside another tag.  Whatever those tags push and pop, the statistics read afterwards are those of
  the loop they are asked in.
"""
import array
import collections
import collections.abc
import hashlib
import itertools
import math
import numbers
import os
import random
import re
import types
from fractions import Fraction

ID = 'C16'
LEVEL = 'exploration'
RULE = ('exhaustive lists of length 1..4 (thorough 1..5) over {-2,0,1,3,0.5,2.5,None}, over '
        "{'a','b','c',None} and over the distinctive spelling {'K1','M2','P3',None}; seeded lists of "
        'length 1..10 (ints |v|<=10^6, floats with <=3 decimals, int/float mixes, constant and '
        'near-constant lists, strings; None sprinkled in; Missing.Value simulated); every list is '
        'rendered in the four modes {var,expression} x {mapping,attributes} with the first-accessed '
        'statistic rotated over all ten names and the variable name drawn from {x,n,age,count,value}; '
        '30% of the seeded renders summarise a second, independently generated variable of the same '
        'items with interleaved accesses. SHAPES: every exhaustive list of length 2..4 and 4000 (thorough '
        '120000) seeded lists with 1..3 variables are rendered once more with a drawn container (list, tuple, '
        'deque, __getitem__/__len__ class, generator, iterator, map, dict values view, set, frozenset, '
        '__iter__-only class), element type (dict, attribute object, both), batch options (subsets of '
        'size/start/end with orphan/overlap, literal or by name; 65%), order (reverse, sort, reverse_expr, '
        'sort_expr), tag form (name, "expr", expr="..."), access layout (interleaved / grouped by variable) '
        'and emission point (first displayed element, last displayed element, every element - each emission '
        'is judged). HISTORIES: all [render, change one value in place, render] histories on lists of length '
        '1..2 (thorough 1..3) over the first two domains, and 800 (thorough 30000) seeded histories of 2..5 '
        'renders of ONE container object (list, tuple, deque, sequence class, dict values view; elements dict / '
        'attribute object / both) with an operation before each render drawn from {set a value, replace an '
        'element, append, pop, swap, new container of the same elements, unrelated render, nothing}, the '
        'render going through the same compiled template, another one (other channel / mapping flag / first '
        'statistic / subset of the variables) or a newly compiled one; 20% of the renders use a template with '
        'two dtml-in tags over the sequence and the operation applied by a call between them; every render is '
        'judged against the model of the values at that moment. OPTIONS: the full grid of 16 subsets of {mapping, '
        'no_push_item, prefix=, skip_unauthorized} x 11 sort specifications (none; the summarised variable spelt '
        'x, x/cmp, x/cmp/asc, x/cmp/desc, x/<nocase for text | caller function for numbers>, .../desc; another '
        'key of the elements plain and /cmp/desc; two or three keys with the first plain and /cmp/desc) x 6 '
        'reversals (none, reverse, reverse_expr true, reverse_expr false, reverse_expr by name, reverse + '
        'reverse_expr false) x 4 batch option sets = 4224 points, each rendered 3 times (thorough 14) with drawn '
        'numeric / text data of 2..7 elements (1..2 variables), the first two renders over plain dict / attribute '
        'elements; channel, emission point, container, tag form, prefix name, how the sort reaches the tag (sort=, '
        'sort_expr literal, sort_expr by name), quoting and attribute order are drawn; the seeded shapes and 35% of '
        'the history renders draw option subsets from the same space (histories sort on data variables only). '
        'NESTED: 1600 (thorough 48000) pairs of an outer and an inner loop over two sequences with the same '
        'variable names, each with its own drawn options, emitting outer / inner / outer or (half of them) inner / '
        'outer, so that the outer statistics are first asked after the inner loop has run. '
        'ELEMENT KINDS: every list of length 1..3 over the three small domains is rendered over each of 14 further '
        'kinds of element - mapping objects (getitem-only class, abc.Mapping, two dict subclasses computing the key in '
        '__missing__, UserDict, ChainMap, OrderedDict, mappingproxy; tag with mapping) and instances (__slots__, '
        'properties, __getattr__, namedtuple, SimpleNamespace, false-in-boolean-context instance; tag without '
        'mapping) - with one drawn shape per mapping flag (container incl. UserList, batch, order, form, layout, '
        'emission point, option subset; sort options not combined with the getitem-only class, which has no get()); '
        '2400 (thorough 60000) seeded lists with 1..3 variables over a drawn kind, 10% of them with the first variable '
        'called item; 400 (thorough 12000) seeded histories over the changeable kinds; 35% of the loops of the '
        'furnished pairs. PLAIN VALUES: all lists of length 1..4 over the numeric and the text domain, 1..3 over the '
        "distinctive spelling, over {0,0.0,2,None} and over {'','a','b',None} (3392 lists) and 2400 (thorough 60000) "
        'seeded lists (the seeded kinds plus whole numbers up to 10^18) are handed over as the elements themselves and '
        'summarised as statistic-item without mapping, in a drawn container (list, tuple, deque, sequence class, '
        'UserList, array; generator, iterator, map, dict values / keys view, dict, set, frozenset, __iter__-only class; '
        'for sets and dict keys the expected values are those the container holds), with drawn batch options (50%), '
        'reversal, no_push_item, prefix=, skip_unauthorized, else, tag form, attribute order, channel, emission point '
        'and first statistic. FURNISHED: 1600 (thorough 40000) nested pairs drawn like NESTED whose inner loop renders '
        '1..3 further tags for every element (dtml-if with 1..3 name / expression conditions over the data variables, '
        'other keys, sequence-even/odd/start/end and an unknown name, with or without else, 25% with a tag nested in '
        'every branch; dtml-unless; dtml-let; dtml-with [only]; dtml-try/except; dtml-try/finally; a small dtml-in), '
        '40% also the outer loop, 30% between the inner loop and the last outer emission; the inner loop runs for every '
        'outer element in half of them (every inner emission is judged); in a third the emissions sit inside a '
        'dtml-if (name / expression / else branch), dtml-let, dtml-with or dtml-try. '
        'A case is non-trivial when at least two values '
        'of a variable are non-missing; distinct = distinct (variable names with their typed value lists, '
        'mapping, channel, rotation[, container and options | history prefix])')
ASSUMPTIONS = [
    'only all-numeric(+None) or all-string(+None) lists are generated (the mixes the documentation defines)',
    'ints: count/total/min/max/odd median are demanded exactly; floats and all derived statistics within '
    'relative 1e-9 + absolute 1e-12 + a first-order forward-error bound of floating-point evaluation '
    '(total: 2n*u*sum|x|; variance: 4(n+3)*u*(E[x^2]+mean^2), u=2^-53), fixed before any run',
    'statement silent, not asserted: sample variance / standard deviation for a single value; every statistic '
    'but count when all values are missing; the wording of the even-count text median (it only has to '
    'contain both middle values); which value inside the two middle values an even-count median takes',
    'a standard deviation is accepted when it lies between the roots of (variance -/+ its tolerance)',
    'the Missing package is not installed in /venv: Missing.Value is simulated by binding DT_InSV.mv to a '
    'sentinel that absorbs arithmetic like the real one',
    'the statistics summarise the x values of the sequence given to the tag: with batch options (which only '
    'select the displayed part), under sort / reverse (same values, other order) and for every kind of '
    'iterable the tag accepts, the expected values are those of all elements; the same holds at whatever '
    'element of the loop the statistic is asked for',
    'a render reports the values the elements have when that dtml-in tag runs: earlier renders of the same '
    'objects (by any template of the process) must not show through; what a statistic asked twice INSIDE one '
    'loop returns after the data changed during that loop is not asserted (changes are applied between tags)',
    'not generated (statement silent): sequences of (key, value) pairs, elements lacking the variable, '
    'previous / next renders, sort on data holding the simulated Missing.Value, access through the prefix= '
    'aliases (only the documented statistic-name spelling is read), the locale comparison functions',
    'the options mapping / no_push_item / prefix= / skip_unauthorized / sort / sort_expr / reverse / reverse_expr '
    '/ batch options / else continuation in any combination and attribute order leave the expected statistics '
    'unchanged: mapping says how the elements are read (dict elements are read by key, other elements by '
    'attribute), the others order, select for display or name things; sort specifications follow the "sort" '
    'paragraph of the DT_In docstring (nocase only on text keys; a caller supplied three-way comparison is looked '
    'up by name); inside nested loops a statistic belongs to the innermost loop running when it is asked',
    'element kinds: with mapping an element is read by subscription (element[name], whatever else the mapping '
    'object offers), without mapping by attribute access (however the instance provides the attribute); the kind '
    'of element never changes the expected statistics. Not generated: sort options over mapping objects without '
    'get(), elements that answer every key (a pushed element must raise KeyError for names it does not have)',
    'plain values: when the elements are the values themselves they are summarised under the name item '
    '(statistic-item, as the element is sequence-item), without mapping; expected values are those of the '
    'elements the container holds (a set / the keys of a dict hold one of several equal values); no sort option '
    'is generated for them (there is no key to name) and two-element tuples (key/value pairs) are not generated',
    'tags that stand around the statistics (dtml-if / elif / else, unless, let, with, try, another small dtml-in '
    'that has ended) do not change which loop a statistic belongs to; which branch of a conditional is taken is '
    'not judged here (it is counted)',
    'the wrappers on sequence_variables.statistics / the dispatch table and the reach anchors are diagnosis '
    '(coverage.internals_diagnosis); the verdict and inconclusive rest on the compared outputs only',
]
SHARD_TIMEOUT = {'quick': 600, 'thorough': 3000}
NSHARDS = {'quick': 16, 'thorough': 48}
SEEDED = {'quick': 5000, 'thorough': 200000}
EXH_LEN = {'quick': 4, 'thorough': 5}
SHAPES = {'quick': 4000, 'thorough': 120000}
HISTORIES = {'quick': 800, 'thorough': 30000}
NESTED = {'quick': 1600, 'thorough': 48000}
EXH_HIST_LEN = {'quick': 2, 'thorough': 3}
ELEMENTS = {'quick': 2400, 'thorough': 60000}
PLAIN = {'quick': 2400, 'thorough': 60000}
FURNISHED = {'quick': 1600, 'thorough': 40000}
HISTORIES2 = {'quick': 400, 'thorough': 12000}

STATS = ('total', 'count', 'min', 'max', 'median', 'mean', 'variance', 'variance-n',
         'standard-deviation', 'standard-deviation-n')
NUMERIC_ONLY = ('total', 'mean', 'variance', 'variance-n', 'standard-deviation',
                'standard-deviation-n')
NAMES = ('x', 'n', 'age', 'count', 'value', 'Price', 'unitCost', 'TOTAL', 'a2')     # incl. mixed and upper case: names are case-sensitive
MODES = (('var', True), ('var', False), ('expr', True), ('expr', False))
SEP = '\x1f'
MARK = '\x1e'
U = 2.0 ** -53

DOM_NUM = (-2, 0, 1, 3, 0.5, 2.5, None)
DOM_STR = ('a', 'b', 'c', None)
DOM_STR2 = ('K1', 'M2', 'P3', None)

MECH_SQRT = 'sqrt-of-negative-rounding-residue'
MECH_MEDIAN = 'even-median-floor-division-of-floats'


def plan(tier, seed):
    return [{} for _ in range(NSHARDS[tier])]


# ---------------------------------------------------------------- data
class _MissingValue:
    """Stand-in for Missing.Value (bound to DT_InSV.mv while a case using it renders).

    Like the real one it absorbs arithmetic (any operation gives the missing value again), so an
    engine that forgot to set it aside would poison its sums instead of tripping over a TypeError.
    """

    def __repr__(self):
        return 'Missing.Value'

    def _absorb(self, *other):
        return self
    __add__ = __radd__ = __sub__ = __rsub__ = __mul__ = __rmul__ = _absorb
    __truediv__ = __rtruediv__ = __floordiv__ = __rfloordiv__ = __pow__ = __neg__ = _absorb


MISSING = _MissingValue()


class Item:
    """An element whose data variables are plain attributes."""


def enc(values):
    return [{'mv': 1} if v is MISSING else v for v in values]


def dec(values):
    return [MISSING if isinstance(v, dict) else v for v in values]


def is_missing(v):
    return v is None or v is MISSING


# ---------------------------------------------------------------- observation
INT_RE = re.compile(r'^-?\d+$')


class Obs:
    """One observed statistic: rendered text (var channel) or the object (expr channel)."""

    def __init__(self, channel, raw):
        self.channel = channel
        self.raw = raw

    def empty(self):
        return isinstance(self.raw, str) and self.raw == ''

    def number(self):
        r = self.raw
        if self.channel == 'var':
            if INT_RE.match(r):
                return int(r)
            try:
                f = float(r)
            except ValueError:
                return None
            return f if math.isfinite(f) else None
        if isinstance(r, bool):
            return None
        if isinstance(r, numbers.Real):
            try:
                return r if math.isfinite(r) else None
            except Exception:
                return None
        return None

    def is_text(self, want):
        return isinstance(self.raw, str) and self.raw == want

    def text(self):
        return self.raw if isinstance(self.raw, str) else None

    def show(self):
        return repr(self.raw)


# ---------------------------------------------------------------- oracle
def model(values):
    """Exact expectations from the documentation; None where the statement is silent."""
    present = [v for v in values if not is_missing(v)]
    n = len(present)
    m = {'n': n, 'present': present}
    if n == 0:
        m['cls'] = 'all-missing'
        return m
    if all(type(v) in (int, float) for v in present):
        F = [Fraction(v) for v in present]
        allint = all(type(v) is int for v in present)
        allfloat = all(type(v) is float for v in present)
        m['cls'] = 'int' if allint else ('float' if allfloat else 'int+float')
        m['numeric'] = True
        m['allint'] = allint
        total = sum(F)
        mean = total / n
        ss = sum((f - mean) ** 2 for f in F)
        m['total'] = total
        m['mean'] = mean
        m['varn'] = ss / n
        m['var'] = ss / (n - 1) if n > 1 else None
        s = sorted(F)
        m['min'], m['max'] = s[0], s[-1]
        if n % 2:
            m['median'] = s[n // 2]
        else:
            m['mid'] = (s[n // 2 - 1], s[n // 2])
        A = float(sum(abs(f) for f in F))
        Q = float(sum(f * f for f in F) / n)
        m['A'] = A
        m['fwd_total'] = 0.0 if allint else 2 * n * U * A
        m['fwd_mean'] = 2 * (n + 1) * U * A / n
        m['fwd_var'] = 4 * (n + 3) * U * (Q + float(mean * mean))
    elif all(type(v) is str for v in present):
        m['cls'] = 'str'
        m['numeric'] = False
        s = sorted(present)
        m['min'], m['max'] = s[0], s[-1]
        if n % 2:
            m['median'] = s[n // 2]
        else:
            m['mid'] = (s[n // 2 - 1], s[n // 2])
    else:
        raise ValueError('workload bug: mixed numeric/text list %r' % (values,))
    return m


def tol(want, fwd):
    return Fraction(1e-9) * abs(want) + Fraction(1e-12) + Fraction(fwd)


def strict(want):
    return Fraction(1e-9) * abs(want) + Fraction(1e-12)


def names_both(text, a, b):
    """Both strings occur in text without overlapping (the format itself is not specified)."""
    def occ(s):
        out, i = [], text.find(s)
        while i >= 0:
            out.append((i, i + len(s)))
            i = text.find(s, i + 1)
        return out
    if a == '' or b == '':
        return a in text and b in text
    for (s1, e1) in occ(a):
        for (s2, e2) in occ(b):
            if e1 <= s2 or e2 <= s1:
                return True
    return False


def judge(m, obs, note):
    """Compare the ten observations with the model; returns [(stat, message, mechanism|None)]."""
    probs = []

    def bad(stat, msg, mech=None):
        probs.append((stat, msg, mech))

    n = m['n']
    c = obs['count'].number()
    note('compared:count')
    if c is None or Fraction(c) != n:
        bad('count', 'count-x is %s, %d values are non-missing' % (obs['count'].show(), n))
    if n == 0:
        note('silent:all values missing (only count asserted)')
        return probs
    if not m['numeric']:
        for s in NUMERIC_ONLY:
            note('compared:%s (must be empty, text data)' % s)
            if not obs[s].empty():
                bad(s, '%s-x is %s for non-numeric data, expected empty' % (s, obs[s].show()))
        for s in ('min', 'max'):
            note('compared:%s (text)' % s)
            if not obs[s].is_text(m[s]):
                bad(s, '%s-x is %s, expected %r' % (s, obs[s].show(), m[s]))
        if 'median' in m:
            note('compared:median (text, odd count)')
            if not obs['median'].is_text(m['median']):
                bad('median', 'median-x is %s, expected the middle value %r'
                    % (obs['median'].show(), m['median']))
        else:
            lo, hi = m['mid']
            note('compared:median (text, even count)')
            t = obs['median'].text()
            if lo == hi and t == lo:
                pass        # the common middle value itself is "between" them
            elif t is None or not names_both(t, lo, hi):
                bad('median', 'median-x is %s, expected a text naming %r and %r'
                    % (obs['median'].show(), lo, hi))
        return probs

    # ---- numeric data
    def num(stat):
        v = obs[stat].number()
        if v is None:
            bad(stat, '%s-x is %s, expected a number' % (stat, obs[stat].show()))
        return v

    def near(stat, want, fwd, exact=False):
        note('compared:%s (%s)' % (stat, 'exact' if exact else 'tolerance'))
        v = num(stat)
        if v is None:
            return
        err = abs(Fraction(v) - want)
        if exact:
            if err:
                bad(stat, '%s-x is %s, expected exactly %s' % (stat, obs[stat].show(), show_frac(want)))
            return
        if err > tol(want, fwd):
            bad(stat, '%s-x is %s, expected %s (error %.3g > tolerance %.3g)'
                % (stat, obs[stat].show(), show_frac(want), float(err), float(tol(want, fwd))))
        elif err > strict(want):
            note('tolerance:%s error beyond 1e-9/1e-12 but inside the forward-error bound' % stat)

    near('total', m['total'], m['fwd_total'], exact=m['allint'])
    near('min', m['min'], 0, exact=True)
    near('max', m['max'], 0, exact=True)
    near('mean', m['mean'], m['fwd_mean'])
    near('variance-n', m['varn'], m['fwd_var'])

    def root(stat, want_var, fwd):
        note('compared:%s (tolerance)' % stat)
        v = num(stat)
        if v is None:
            return
        t = float(tol(want_var, fwd))
        w = float(want_var)
        lo = math.sqrt(max(0.0, w - t)) * (1 - 1e-9) - 1e-12
        hi = math.sqrt(w + t) * (1 + 1e-9) + 1e-12
        if not lo <= v <= hi:
            bad(stat, '%s-x is %s, expected sqrt(%s)=%r' % (stat, obs[stat].show(), show_frac(want_var),
                                                           math.sqrt(w)))
        elif abs(v - math.sqrt(w)) > 1e-9 * math.sqrt(w) + 1e-12:
            note('tolerance:%s error beyond 1e-9/1e-12 but inside the forward-error bound' % stat)

    root('standard-deviation-n', m['varn'], m['fwd_var'])
    if n > 1:
        fwd = m['fwd_var'] * n / (n - 1) * 1.01
        near('variance', m['var'], fwd)
        root('standard-deviation', m['var'], fwd)
    else:
        note('silent:sample variance of a single value (observed %s)'
             % ('empty' if obs['variance'].empty() else 'non-empty'))

    if 'median' in m:
        near('median', m['median'], 0, exact=True)
    else:
        lo, hi = m['mid']
        note('compared:median (even count, must lie between the middle values)')
        v = num('median')
        if v is not None:
            fv = Fraction(v)
            if lo <= fv <= hi:
                if fv * 2 != lo + hi:
                    note('median:even count, inside the middle values but not their midpoint')
                else:
                    note('median:even count, the midpoint')
            else:
                mech = None
                floaty = any(type(x) is float for x in m['present'] if Fraction(x) in (lo, hi))
                if floaty and fv == math.floor((lo + hi) / 2):
                    mech = MECH_MEDIAN
                bad('median', 'median-x is %s, outside the two middle values %s and %s'
                    % (obs['median'].show(), show_frac(lo), show_frac(hi)), mech)
    return probs


def show_frac(f):
    f = Fraction(f)
    return str(f.numerator) if f.denominator == 1 else '%s (=%r)' % (f, float(f))


def classify_exception(exc, m):
    """Mechanism of a render error, from the data alone."""
    if (type(exc) is ValueError and 'math domain error' in str(exc) and m.get('numeric')
            and float(m['varn']) <= m['fwd_var']):
        # the true variance is (next to) zero relative to the magnitude of the data, so a one-pass
        # floating-point evaluation can land below zero; sqrt() of that residue raises
        return MECH_SQRT
    return None


# ---------------------------------------------------------------- harness
GAP = '\x1d'
ELSE_TEXT = 'the sequence is empty'
BATCH_KEYS = ('size', 'start', 'end', 'orphan', 'overlap')
DEFAULT_OPTS = {'where': 'end', 'batch': None, 'batch_names': False, 'order': '', 'form': 'name',
                'layout': 'interleaved', 'items': None,
                # the option dimension: every subset may be combined
                'sort': None, 'reverse': False, 'reverse_expr': None, 'no_push_item': False,
                'prefix': None, 'skip_unauthorized': False, 'shuffle': None, 'extra': None, 'else': False}
WHERES = ('end', 'start', 'every')
ORDERS = ('', 'reverse', 'sort', 'reverse_expr', 'sort_expr')
FORMS = ('name', 'expr', 'expr=')
# containers the tag subscripts directly / containers it has to wrap (no __getitem__)
DIRECT = ('list', 'tuple', 'deque', 'seqclass')
LAZY = ('generator', 'iterator', 'map', 'dictvalues', 'set', 'frozenset', 'iterclass')
# further containers of the later parts; the last three hold plain values only, the last two (like the sets)
# keep one of several equal values
MORE_DIRECT = ('userlist', 'array')
MORE_LAZY = ('dictkeys', 'dictobj')
MERGING = ('set', 'frozenset', 'dictkeys', 'dictobj')
HIST_CONTAINERS = ('list', 'list', 'list', 'tuple', 'deque', 'seqclass', 'dictvalues')
HIST_OPS = ('none', 'set', 'replace', 'append', 'pop', 'swap', 'rebuild', 'other')
STRUCTURAL = ('replace', 'append', 'pop', 'swap')

# ---- sort specifications (DT_In docstring, "sort"): comma separated options, each
# "variable[/function[/order]]"; functions cmp, nocase (strings) or a name looked up in the namespace
# (here: mycmp, an ordinary three-way comparison handed in by the caller); orders asc, desc.
SORT_VIAS = ('attr', 'expr-lit', 'expr-name')
SORT_SPELLINGS_NUM = ((None, None), ('cmp', None), ('cmp', 'asc'), ('cmp', 'desc'), ('mycmp', None),
                      ('mycmp', 'desc'))
SORT_SPELLINGS_STR = SORT_SPELLINGS_NUM + (('nocase', None), ('nocase', 'desc'), ('nocase', 'asc'))
SORT_RELATIONS = ('stat', 'other', 'multi')
EXTRA_KEYS = (('rank', 'num'), ('tag', 'str'))       # keys of the elements no statistic is asked for
TAGS = ('a', 'B', 'c', 'D', 'e', 'F', 'g', 'H')
PREFIXES = ('p', 'seq', 'row')
# (reverse flag, reverse_expr): reverse_expr is [how, truth] with how in {'lit', 'name'}
REVERSALS = ((False, None), (True, None), (False, ['lit', 1]), (False, ['lit', 0]), (False, ['name', 1]),
             (False, ['name', 0]), (True, ['lit', 0]), (True, ['name', 1]))
FLAG_NAMES = ('mapping', 'no_push_item', 'prefix', 'skip_unauthorized', 'sort', 'reverse', 'batch')


def mycmp(a, b):
    return (a > b) - (a < b)


def full_opts(opts):
    o = dict(DEFAULT_OPTS)
    o.update(opts or {})
    return o


def spell_key(k):
    var, func, direction = k
    return var + ('/' + func if func else '') + ('/' + direction if func and direction else '')


def spell_sort(spec):
    return ','.join(spell_key(k) for k in spec['keys'])


def spelling_label(k):
    return 'x' + spell_key(['', k[1], k[2]])


def reversal_label(o):
    r = o['reverse_expr']
    if o['order'] == 'reverse':
        return 'reverse'
    if o['order'] == 'reverse_expr':
        return 'reverse_expr true (literal)'
    parts = []
    if o['reverse']:
        parts.append('reverse')
    if r:
        parts.append('reverse_expr %s (%s)' % ('true' if r[1] else 'false', 'literal' if r[0] == 'lit' else 'by name'))
    return ' + '.join(parts) or 'none'


def is_reversed(o):
    """What the documentation says: reverse reverses; reverse_expr reverses when it evaluates true."""
    if o['order'] in ('reverse', 'reverse_expr'):
        return True
    r = o['reverse_expr']
    return bool(o['reverse'] or (r and r[1]))


def sort_relation(o, names):
    """none | stat (a variable whose statistics are asked) | other | multi (several keys)."""
    if o['order'] in ('sort', 'sort_expr'):
        return 'stat'
    s = o['sort']
    if not s:
        return 'none'
    if len(s['keys']) > 1:
        return 'multi'
    return 'stat' if s['keys'][0][0] in names else 'other'


def order_label(o):
    """The classes of the former 'order' option, kept as a coverage table."""
    if o['order']:
        return o['order']
    s = o['sort']
    if s:
        return 'sort' if s['via'] == 'attr' else 'sort_expr'
    if o['reverse']:
        return 'reverse'
    if o['reverse_expr']:
        return 'reverse_expr'
    return 'plain'


def flag_set(o, mapping):
    on = {'mapping': mapping, 'no_push_item': o['no_push_item'], 'prefix': o['prefix'],
          'skip_unauthorized': o['skip_unauthorized'], 'sort': o['sort'] or o['order'] in ('sort', 'sort_expr'),
          'reverse': o['reverse'] or o['reverse_expr'] or o['order'] in ('reverse', 'reverse_expr'),
          'batch': o['batch']}
    return '+'.join(f for f in FLAG_NAMES if on[f]) or '(none)'


def render_kw(o):
    """What the caller hands to the template besides the sequence, as the options require."""
    kw = {}
    if o['batch'] and o['batch_names']:
        kw.update(('b_' + k, v) for k, v in o['batch'].items())
    s = o['sort']
    if s:
        if s['via'] == 'expr-name':
            kw['sk'] = spell_sort(s)
        if any(k[1] == 'mycmp' for k in s['keys']):
            kw['mycmp'] = mycmp
    r = o['reverse_expr']
    if r and r[0] == 'name':
        kw['rv'] = bool(r[1])
    return kw


def tag_head(mapping, names, o, seqname='seq'):
    """<dtml-in ...> with every option of o; the sequence reference comes first, the options follow
    in the fixed order below or, with o['shuffle'], in a permutation of it."""
    ref = {'name': '%s', 'expr': '"%s"', 'expr=': 'expr="%s"'}[o['form']] % seqname
    attrs = []
    if mapping:
        attrs.append('mapping')
    for k in BATCH_KEYS:
        if o['batch'] and k in o['batch']:
            attrs.append('%s=%s' % (k, 'b_' + k if o['batch_names'] else o['batch'][k]))
    legacy = {'': None, 'reverse': 'reverse', 'sort': 'sort=%s' % names[0],
              'reverse_expr': 'reverse_expr="1"', 'sort_expr': 'sort_expr="\'%s\'"' % names[0]}[o['order']]
    if legacy:
        attrs.append(legacy)
    s = o['sort']
    if s:
        text = spell_sort(s)
        if s['via'] == 'attr':
            attrs.append(('sort="%s"' if s.get('quoted') else 'sort=%s') % text)
        elif s['via'] == 'expr-lit':
            attrs.append('sort_expr="\'%s\'"' % text)
        else:
            attrs.append('sort_expr="sk"')
    if o['reverse']:
        attrs.append('reverse')
    r = o['reverse_expr']
    if r:
        attrs.append('reverse_expr="%s"' % ('rv' if r[0] == 'name' else ('1' if r[1] else '0')))
    if o['no_push_item']:
        attrs.append('no_push_item')
    if o['prefix']:
        attrs.append('prefix=%s' % o['prefix'])
    if o['skip_unauthorized']:
        attrs.append('skip_unauthorized')
    if o['shuffle'] is not None:
        random.Random(o['shuffle']).shuffle(attrs)
    return '<dtml-in %s%s>' % (ref, ''.join(' ' + a for a in attrs))


def loop_end(o):
    """The end of the loop, with or without the else continuation (shown for an empty sequence only)."""
    return ('<dtml-else>' + ELSE_TEXT if o['else'] else '') + '</dtml-in>'


def stat_body(channel, slots):
    if channel == 'var':
        return MARK + SEP.join('<dtml-var %s-%s>' % (s, nm) for s, nm in slots) + MARK
    return ''.join('<dtml-call "rec((\'%s\', \'%s\'), _[\'%s-%s\'])">' % (s, nm, s, nm) for s, nm in slots)


# ---- furniture: tags around the statistics that push and pop namespaces of their own (and emit nothing)
COND_NAMES = ('rank', 'tag', 'sequence-even', 'sequence-odd', 'sequence-start', 'sequence-end', 'no_such_name')
COND_EXPRS = ("_['sequence-index'] % 2", "_['sequence-index'] == 0", '0', '1')
SNIPPETS = ('if', 'if', 'if', 'if', 'unless', 'let', 'with', 'with-only', 'try-except', 'try-finally', 'in')
WRAPS = ('if-name', 'if-expr', 'let', 'with', 'try', 'else-branch')


def tick(label):
    return '<dtml-call "tick(\'%s\')">' % label


def spell_cond(c):
    return c[1] if c[0] == 'name' else '"%s"' % c[1]


def spell_snippet(sn):
    what = sn[0]
    if what == 'if':                    # ['if', [conditions], has_else, [snippets inside every branch]]
        sub = spell_furniture(sn[3])
        out = ''
        for i, c in enumerate(sn[1]):
            out += '<dtml-%s %s>' % ('elif' if i else 'if', spell_cond(c)) + tick('branch %d' % (i + 1)) + sub
        if sn[2]:
            out += '<dtml-else>' + tick('else branch') + sub
        return out + '</dtml-if>'
    if what == 'unless':
        return '<dtml-unless %s>%s</dtml-unless>' % (spell_cond(sn[1]), tick('unless'))
    if what == 'let':
        return '<dtml-let q="_[\'sequence-index\']" r="q + 1">%s</dtml-let>' % tick('let')
    if what == 'with':
        return '<dtml-with "_.namespace(q=1)">%s</dtml-with>' % tick('with')
    if what == 'with-only':
        return '<dtml-with "_.namespace(q=1)" only></dtml-with>'
    if what == 'try-except':
        return '<dtml-try><dtml-call "no_such_name()"><dtml-except>%s</dtml-try>' % tick('except')
    if what == 'try-finally':
        return '<dtml-try>%s<dtml-finally>%s</dtml-try>' % (tick('try'), tick('finally'))
    if what == 'in':
        return '<dtml-in "(1, 2)">%s</dtml-in>' % tick('small loop')
    raise ValueError(sn)


def spell_furniture(snips):
    return ''.join(spell_snippet(sn) for sn in snips or ())


def wrap_body(wrap, body):
    """The statistics asked from inside another tag's namespace: still those of the enclosing loop."""
    if not wrap:
        return body
    if wrap == 'if-name':
        return '<dtml-if sequence-number>%s</dtml-if>' % body
    if wrap == 'if-expr':
        return '<dtml-if "1">%s</dtml-if>' % body
    if wrap == 'else-branch':
        return '<dtml-if no_such_name><dtml-elif no_such_name_2><dtml-else>%s</dtml-if>' % body
    if wrap == 'let':
        return '<dtml-let q="1">%s</dtml-let>' % body
    if wrap == 'with':
        return '<dtml-with "_.namespace(q=1)">%s</dtml-with>' % body
    if wrap == 'try':
        return '<dtml-try>%s<dtml-except>failed</dtml-try>' % body
    raise ValueError(wrap)


def nested_source(channel, rot, names, map_a, o_a, map_b, o_b, pre=True, furniture=None, inner_every=False,
                  wrap=None):
    """An outer loop over seq whose last element emits the statistics (pre), then runs an inner loop over
    seq2 (same variable names, its own options) that emits them on its last element, then emits them
    once more: [outer,] inner, outer.  Without pre the outer loop asks for its statistics for the first
    time after the inner loop has come and gone.

    furniture: {'inner' | 'outer' | 'mid': [snippets]} - tags rendered for every element of the inner / the
    outer loop, and between the end of the inner loop and the last outer emission.  inner_every: the inner
    loop runs for every element of the outer one ((inner)* [outer,] inner, outer).  wrap: the emissions sit
    inside another tag."""
    f = furniture or {}
    order = STATS[rot:] + STATS[:rot]
    slots = [(s, nm) for s in order for nm in names]
    body = wrap_body(wrap, stat_body(channel, slots))
    inner = (tag_head(map_b, names, o_b, 'seq2') + spell_furniture(f.get('inner')) + '<dtml-if sequence-end>'
             + body + '</dtml-if>' + loop_end(o_b))
    head = tag_head(map_a, names, o_a) + spell_furniture(f.get('outer'))
    tail = spell_furniture(f.get('mid')) + body + '</dtml-if>' + loop_end(o_a)
    if inner_every:
        return (head + ('<dtml-if sequence-end>' + body + '</dtml-if>' if pre else '') + inner
                + '<dtml-if sequence-end>' + tail), slots
    return head + '<dtml-if sequence-end>' + (body if pre else '') + inner + tail, slots


def source(channel, mapping, rot, names, opts=None, loops=1):
    """All ten statistics of each variable; with several variables the accesses are interleaved
    (or grouped by variable).  loops=2: the same loop twice with a call of ``mut`` in between."""
    o = full_opts(opts)
    order = STATS[rot:] + STATS[:rot]
    if o['layout'] == 'grouped':
        slots = [(s, nm) for nm in names for s in order]
    else:
        slots = [(s, nm) for s in order for nm in names]
    guard = {'end': 'sequence-end', 'start': 'sequence-start', 'every': None}[o['where']]
    head = tag_head(mapping, names, o) + ('<dtml-if %s>' % guard if guard else '')
    body = stat_body(channel, slots)
    loop = head + body + ('</dtml-if>' if guard else '') + loop_end(o)
    if loops == 2:
        return loop + GAP + '<dtml-call "mut()">' + loop, slots
    return loop, slots


class Both(dict):
    """An element that is a mapping and offers its keys as attributes as well."""
    __hash__ = object.__hash__

    def __getattr__(self, name):
        try:
            return self[name]
        except KeyError:
            raise AttributeError(name)


class Seq:
    """A sequence in the narrow sense: subscription and length, nothing else."""

    def __init__(self, items):
        self._items = items

    def __getitem__(self, i):
        if not isinstance(i, int):
            raise TypeError(i)
        return self._items[i]

    def __len__(self):
        return len(self._items)


class Iterable:
    """Iteration only."""

    def __init__(self, items):
        self._items = items

    def __iter__(self):
        return iter(list(self._items))


# ---- element kinds: the ways an element can offer its variables ("The elements may be either instance or
# mapping objects"): with mapping the value is element[name], otherwise the attribute element.name
class Row:
    """A mapping object in the narrow sense: row['column'] (KeyError for anything else) and nothing more."""

    def __init__(self, values):
        self._cols = dict(values)

    def __getitem__(self, key):
        return self._cols[key]


class Record(collections.abc.Mapping):
    """A read-only mapping with the whole protocol derived from __getitem__ / __iter__ / __len__."""
    __hash__ = object.__hash__

    def __init__(self, values):
        self._cols = dict(values)

    def __getitem__(self, key):
        return self._cols[key]

    def __iter__(self):
        return iter(self._cols)

    def __len__(self):
        return len(self._cols)


_ABSENT = object()


class Derived(dict):
    """A dict whose columns are computed on access: row['x'] is made from what is stored under '=x'."""
    __hash__ = object.__hash__

    def __init__(self, values):
        dict.__init__(self, (('=' + k, v) for k, v in values.items()))

    def __missing__(self, key):
        v = dict.get(self, '=' + key, _ABSENT)
        if v is _ABSENT:
            raise KeyError(key)
        return v


class SumOfParts(dict):
    """A dict with derived columns: row['x'] is row['x.a'] + row['x.b'] (None when a part is None)."""
    __hash__ = object.__hash__

    def __init__(self, values):
        dict.__init__(self)
        for k, v in values.items():
            if type(v) is str:
                a, b = v[:len(v) // 2], v[len(v) // 2:]
            elif type(v) is int:
                a, b = v - 7, 7
            else:
                a, b = v, None          # floats, None, Missing.Value: handed through unchanged
            dict.__setitem__(self, k + '.a', a)
            dict.__setitem__(self, k + '.b', b)

    def __missing__(self, key):
        a = dict.get(self, key + '.a', _ABSENT)
        if a is _ABSENT:
            raise KeyError(key)
        b = dict.get(self, key + '.b')
        return a if b is None else a + b


class Hidden:
    """Attributes computed by __getattr__ from a private table."""

    def __init__(self, values):
        self.__dict__['_v'] = dict(values)

    def __getattr__(self, name):
        try:
            return self.__dict__['_v'][name]
        except KeyError:
            raise AttributeError(name)


class Props:
    """Attributes that are properties of the class (computed from a private table)."""

    def __init__(self, values):
        self._v = dict(values)


def _prop(name):
    def get(self):
        try:
            return self._v[name]
        except KeyError:
            raise AttributeError(name)
    return property(get)


for _n in NAMES + ('item', 'rank', 'tag'):
    setattr(Props, _n, _prop(_n))


class EmptyFolder(Item):
    """An attribute object that is false in a boolean context (a container without children)."""

    def __len__(self):
        return 0


_CLASSES = {}


def _slotted(fields):
    c = _CLASSES.get(('slots', fields))
    if c is None:
        c = _CLASSES[('slots', fields)] = type('Slotted', (), {'__slots__': fields})
    return c


def _tuple_class(fields):
    c = _CLASSES.get(('nt', fields))
    if c is None:
        c = _CLASSES[('nt', fields)] = collections.namedtuple('RowTuple', fields)
    return c


def _attrs(obj, values):
    for k, v in values.items():
        setattr(obj, k, v)
    return obj


def _namedtuple(values):
    fields = tuple(values)
    pad = tuple('pad%d' % i for i in range(max(0, 3 - len(fields))))    # never a (key, value) pair
    return _tuple_class(fields + pad)(*(list(values.values()) + [0] * len(pad)))


# kind: (read with mapping?, read by attribute?, maker)
ITEM_KINDS = {
    'dict': (True, False, dict),
    'item': (False, True, lambda values: _attrs(Item(), values)),
    'both': (True, True, lambda values: Both(values)),
    # mapping objects that are no plain dict
    'getitem': (True, False, Row),
    'record': (True, False, Record),
    'missing': (True, False, Derived),
    'parts': (True, False, SumOfParts),
    'userdict': (True, False, lambda values: collections.UserDict(values)),
    'chainmap': (True, False, lambda values: collections.ChainMap({}, dict(values))),
    'ordered': (True, False, lambda values: collections.OrderedDict(values)),
    'proxy': (True, False, lambda values: types.MappingProxyType(dict(values))),
    # instances that keep their attributes elsewhere than in a plain __dict__
    'slots': (False, True, lambda values: _attrs(_slotted(tuple(values))(), values)),
    'property': (False, True, Props),
    'getattr': (False, True, Hidden),
    'namedtuple': (False, True, _namedtuple),
    'namespace': (False, True, lambda values: types.SimpleNamespace(**values)),
    'falsy': (False, True, lambda values: _attrs(EmptyFolder(), values)),
}
OLD_KINDS = ('dict', 'item', 'both')
MAPPING_KINDS = tuple(k for k, v in ITEM_KINDS.items() if v[0] and k not in OLD_KINDS)
ATTR_KINDS = tuple(k for k, v in ITEM_KINDS.items() if v[1] and k not in OLD_KINDS)
# elements a set can hold without merging two of them (identity hash)
SET_OK = ('item', 'both', 'getitem', 'record', 'missing', 'parts', 'slots', 'property', 'getattr', 'falsy')
# elements whose value can be changed in place by the application
MUTABLE_KINDS = tuple(k for k in ITEM_KINDS if k not in ('proxy', 'namedtuple'))
# mapping objects without the dict method get(): the sort options (which ask for it) are not combined with them
NO_SORT = ('getitem',)


def new_item(kind, values):
    return ITEM_KINDS[kind][2](dict(values))


def set_value(kind, item, name, value):
    if kind in ('item', 'slots', 'namespace', 'falsy'):
        setattr(item, name, value)
    elif kind in ('getitem', 'record'):
        item._cols[name] = value
    elif kind == 'missing':
        dict.__setitem__(item, '=' + name, value)
    elif kind == 'parts':
        item.update(SumOfParts({name: value}))
    elif kind == 'chainmap':
        item.maps[1][name] = value
    elif kind in ('property', 'getattr'):
        item.__dict__['_v'][name] = value
    elif kind in MUTABLE_KINDS:
        item[name] = value
    else:
        raise ValueError('workload bug: %s elements cannot be changed in place' % kind)


def make_items(variables, kind, extra=None):
    """extra: {key: values} — further keys / attributes of the elements (sort keys no statistic is asked for).

    kind 'plain': the elements ARE the values of the one variable (asked for as statistic-item)."""
    if kind == 'plain':
        return list(variables[0][1])
    length = len(variables[0][1])
    cols = list(variables) + sorted((extra or {}).items())
    return [new_item(kind, {nm: vals[i] for nm, vals in cols}) for i in range(length)]


def make_container(kind, items):
    if kind == 'list':
        return items
    if kind == 'userlist':
        return collections.UserList(items)
    if kind == 'array':                     # plain numbers of one type only
        return array.array('q' if type(items[0]) is int else 'd', items)
    if kind == 'dictkeys':                  # plain (hashable) values only; equal values are one key
        return dict.fromkeys(items).keys()
    if kind == 'dictobj':                   # iterating a dict yields its keys
        return dict.fromkeys(items)
    if kind == 'tuple':
        return tuple(items)
    if kind == 'deque':
        return collections.deque(items)
    if kind == 'seqclass':
        return Seq(items)
    if kind == 'generator':
        return (it for it in items)
    if kind == 'iterator':
        return iter(items)
    if kind == 'map':
        return map(lambda it: it, items)
    if kind == 'dictvalues':
        return dict(enumerate(items)).values()
    if kind == 'set':
        return set(items)
    if kind == 'frozenset':
        return frozenset(items)
    if kind == 'iterclass':
        return Iterable(items)
    raise ValueError(kind)


class Unparseable(Exception):
    pass


def parse_blocks(text, nslots):
    """MARK v SEP v ... MARK, any number of times; nothing else."""
    if not isinstance(text, str):
        raise Unparseable(repr(text)[:200])
    parts = text.split(MARK)
    if len(parts) % 2 == 0 or any(parts[0::2]):
        raise Unparseable(repr(text[:200]))
    blocks = []
    for b in parts[1::2]:
        if b.count(SEP) != nslots - 1:
            raise Unparseable(repr(text[:200]))
        blocks.append(b.split(SEP))
    return blocks


class Env:
    def __init__(self, ctx):
        from DocumentTemplate import DT_InSV
        from DocumentTemplate.DT_HTML import HTML
        self.ctx = ctx
        self.HTML = HTML
        self.DT_InSV = DT_InSV
        self.cache = {}
        self.calls = []
        self.samples = {}
        self._other = None
        self.last = (None, None)

    def install(self):
        """Counting wrapper on the statistics entries of the real dispatch table (diagnosis only:
        which prefix led to the computation; the verdict never depends on it)."""
        sv = self.DT_InSV.sequence_variables
        real = getattr(sv, 'statistics', None)
        table = getattr(sv, 'special_prefixes', None)
        if real is None or not isinstance(table, dict):
            self.ctx.count('dispatch:table entries wrapped', 0)
            return
        calls = self.calls

        def statistics(self_, name, key):
            calls.append((name, key))
            return real(self_, name, key)
        statistics.__wrapped__ = real
        n = 0
        for k, v in list(table.items()):
            if v is real:
                table[k] = statistics
                n += 1
        self.ctx.count('dispatch:table entries wrapped', n)

    def template(self, channel, mapping, rot, names, opts=None, loops=1, fresh=False):
        src, slots = source(channel, mapping, rot, names, opts, loops)
        k = src                 # one compiled template per distinct source text
        t = None if fresh else self.cache.get(k)
        if t is None and not fresh and self.last[0] == k:
            t = self.last[1]            # the cache is full: at least the template just used is kept
        if t is None:
            t = (self.HTML(src), slots)
            if len(self.cache) < 4000:
                self.cache[k] = t
            self.ctx.count('templates compiled')
        self.last = (k, t)
        return t

    def compile(self, src):
        t = self.cache.get(('raw', src))
        if t is None:
            t = self.HTML(src)
            if len(self.cache) < 4000:
                self.cache[('raw', src)] = t
            self.ctx.count('templates compiled')
        return t

    def other(self):
        """An unrelated render in between (its own list, its own template)."""
        if self._other is None:
            self._other = self.HTML('<dtml-in seq mapping><dtml-if sequence-end>'
                                    '<dtml-var total-x>/<dtml-var count-x></dtml-if></dtml-in>')
        return self._other(seq=[{'x': 1}, {'x': 2}, {'x': 4}])

    def render(self, tmpl, slots, channel, seq, uses_mv, kw=None, mut=None):
        """Render once; returns the emitted blocks, one list per loop: [[{slot: raw}, ...], ...]."""
        ctx = self.ctx
        kw = dict(kw or {})
        got = {}
        groups = []

        def rec(k, v):
            got.setdefault(k, []).append(v)

        def cut():
            groups.append(dict(got))
            got.clear()

        if mut is not None:
            def mut_():
                cut()
                mut()
            kw['mut'] = mut_
        if channel == 'expr':
            kw['rec'] = rec
        del self.calls[:]
        if uses_mv:
            self.DT_InSV.mv = MISSING
            ctx.count('data:renders with the simulated Missing.Value')
        try:
            out = tmpl(seq=seq, **kw)
        finally:
            if uses_mv:
                self.DT_InSV.mv = None
        cut()
        if channel == 'var':
            texts = out.split(GAP) if isinstance(out, str) else [out]
            if len(texts) != len(groups):
                raise Unparseable(repr(out)[:200])
            return [[dict(zip(slots, b)) for b in parse_blocks(t, len(slots))] for t in texts]
        res = []
        for g in groups:
            if not g:
                res.append([])
                continue
            if set(g) != set(slots) or len({len(v) for v in g.values()}) != 1:
                raise Unparseable('recorder saw %r, expected every one of %r equally often'
                                  % (sorted((k, len(v)) for k, v in g.items()), slots))
            n = len(g[slots[0]])
            res.append([{k: g[k][j] for k in slots} for j in range(n)])
        return res


def digest(desc):
    return hashlib.blake2b(repr(desc).encode('utf-8', 'backslashreplace'), digest_size=5).hexdigest()


def dispatch_tables(ctx, env):
    seen = set()
    for nm, key in env.calls:
        if nm not in seen:      # first entry for this variable: the access that computed its ten values
            seen.add(nm)
            ctx.table('statistics() entered through prefix', key[:-len(nm) - 1] if nm else key)
    ctx.count('dispatch:statistics() calls', len(env.calls))


def option_tables(ctx, o, mapping, names, kind, part):
    """Coverage of the option dimension (which subsets / sort keys / spellings / reversals were compared)."""
    rel = sort_relation(o, names)
    rev = reversal_label(o)
    ctx.table('option subset', flag_set(o, mapping))
    ctx.table('option subset x element type', '%s | %s' % (flag_set(o, mapping), kind))
    ctx.table('option reversal', rev)
    ctx.table('option sort key', rel)
    ctx.table('option part', part)
    if rel != 'none':
        s = o['sort']
        keys = s['keys'] if s else [[names[0], None, None]]
        via = s['via'] if s else ('attr' if o['order'] == 'sort' else 'expr-lit')
        ctx.table('option sort given through', via)
        for k in keys:
            ctx.table('option sort spelling', spelling_label(k))
        first = keys[0]
        ctx.table('option sort key x spelling x reversal',
                  '%s | %s | %s' % (rel, spelling_label(first), 'reversed' if is_reversed(o) else 'not reversed'))
        ctx.table('option sort key x reversal kind', '%s | %s' % (rel, rev))
        if rel == 'multi':
            ctx.table('option multi-key sort', ' , '.join('stat' if k[0] in names else 'other' for k in keys))
    if o['prefix']:
        ctx.table('option prefix', o['prefix'])
    if o['shuffle'] is not None:
        ctx.count('option:attribute order permuted')
    if o['else']:
        ctx.count('option:loop with an else continuation')


def judge_blocks(ctx, case, desc, blocks, variables, models, channel, mapping, label=''):
    """Every emitted block against the model of every variable; True when all of them agree."""
    clean = True
    for j, raw in enumerate(blocks):
        for nm, vals in variables:
            m = models[nm]
            obs = {s: Obs(channel, raw[(s, nm)]) for s in STATS}
            problems = judge(m, obs, ctx.count)
            for stat, msg, mech in problems:
                clean = False
                ctx.count('problems:' + stat)
                ctx.violation('%s [x=%s, data %r, %s, %s%s%s]'
                              % (msg, nm, enc(vals), channel, 'mapping' if mapping else 'attributes',
                                 '' if len(blocks) == 1 else ', emission %d of %d' % (j + 1, len(blocks)),
                                 label),
                              case, mech=mech, key='%s_%s' % (stat, digest(desc)),
                              detail={'variable': nm, 'observed': {s: obs[s].show() for s in STATS}})
    return clean


def render_error(ctx, case, desc, e, encd, models, label=''):
    mech = None
    for m in models.values():
        mech = mech or classify_exception(e, m)
    ctx.count('renders that raised')
    ctx.violation('rendering the statistics of %r raised %s: %s%s'
                  % (encd, type(e).__name__, str(e)[:120], label), case, mech=mech,
                  key='raise_%s_%s' % (type(e).__name__, digest(desc)))


def evaluate(ctx, env, variables, mapping, channel, rot, container='list', origin='seeded', opts=None):
    """variables: [(name, values)] — one or more data variables of the same items.

    opts None: the plain loop of the first two parts (statistics on the last element); otherwise
    a dict with the keys of DEFAULT_OPTS (a "shape")."""
    shape = opts is not None
    o = full_opts(opts)
    kind = o['items'] or ('dict' if mapping else 'item')
    case_variables = [[nm, enc(vals)] for nm, vals in variables]
    seq = make_container(container, make_items(variables, kind, o['extra']))
    if kind == 'plain' and container in MERGING:
        # a set / the keys of a dict hold one of several equal values: the sequence is what the container holds
        variables = [(variables[0][0], list(seq))]
    names = tuple(nm for nm, _ in variables)
    models = {nm: model(vals) for nm, vals in variables}
    encd = [[nm, enc(vals)] for nm, vals in variables]
    if shape:
        desc = (repr(encd), mapping, channel, rot, container, repr(sorted(o.items())))
    else:
        desc = (repr(encd), mapping, channel, rot)
    case = {'variables': case_variables, 'mapping': mapping, 'channel': channel, 'rot': rot,
            'container': container, 'origin': origin}
    if shape:
        case['opts'] = o
    ctx.case(desc, any(m['n'] >= 2 for m in models.values()))
    tmpl, slots = env.template(channel, mapping, rot, names, opts)
    length = len(variables[0][1])
    uses_mv = any(v is MISSING for _, vals in variables for v in vals)
    kw = render_kw(o)
    try:
        groups = env.render(tmpl, slots, channel, seq, uses_mv, kw)
    except Unparseable as e:
        ctx.violation('unparseable output / record: %s' % (e,), case, key='parse_' + digest(desc))
        return
    except Exception as e:
        render_error(ctx, case, desc, e, encd, models)
        return
    blocks = groups[0]
    ctx.count('renders observed')
    ctx.table('mode', '%s/%s' % (channel, 'mapping' if mapping else 'attributes'))
    ctx.table('variables per render', len(variables))
    ctx.table('first-accessed statistic', slots[0][0])
    dispatch_tables(ctx, env)
    if o['where'] == 'every':
        want_blocks = len(blocks) >= 1 and (o['batch'] is not None or len(blocks) == length)
    else:
        want_blocks = len(blocks) == 1
    if not want_blocks:
        ctx.violation('the statistics were emitted %d times (where=%s, %d items, batch %r)'
                      % (len(blocks), o['where'], length, o['batch']), case, key='blocks_' + digest(desc))
        return
    if shape:
        lazy = container in LAZY + MORE_LAZY
        ctx.count('shape:renders compared')
        if kind == 'plain':
            pv = variables[0][1]
            ctx.count('plain:renders compared')
            ctx.count('plain:emissions judged', len(blocks))
            ctx.table('plain container', container)
            ctx.table('plain data class', models[names[0]]['cls'])
            if any(is_missing(v) for v in pv):
                ctx.count('plain:sequences holding missing values')
                ctx.table('plain container of a sequence holding missing values', container)
                for i, v in enumerate(pv):
                    if is_missing(v):
                        ctx.table('plain position of a missing value',
                                  'only' if len(pv) == 1 else 'first' if i == 0 else 'last' if i == len(pv) - 1
                                  else 'inner')
            if any(not is_missing(v) and not v for v in pv):
                ctx.count('plain:sequences holding 0 / 0.0 / empty text')
                ctx.table('plain container of a sequence holding 0 / 0.0 / empty text', container)
        elif kind not in OLD_KINDS:
            ctx.count('elements:renders compared')
            ctx.table('element kind', kind)
            ctx.table('element kind x container', '%s | %s' % (kind, 'wrapped' if lazy else 'subscriptable'))
        ctx.table('shape container', container)
        ctx.table('shape where', o['where'])
        ctx.table('shape order', order_label(o))
        option_tables(ctx, o, mapping, names, kind, origin)
        ctx.table('shape form', o['form'])
        ctx.table('shape layout x variables', '%s/%d' % (o['layout'], len(variables)))
        ctx.table('shape items', kind)
        ctx.table('shape batch', ('+'.join(k for k in BATCH_KEYS if k in o['batch'])
                                  + ('/by-name' if o['batch_names'] else '/literal')) if o['batch'] else 'none')
        ctx.count('shape:emissions judged', len(blocks))
        if lazy and o['batch'] and len(variables) > 1:
            ctx.count('shape:wrapped (non-subscriptable) container + batch + several variables')
            b = o['batch']
            if length > 2 and (b.get('size', 99) < length - 1 or b.get('end', 99) < length - 1):
                ctx.count('shape:... and the batch ends well before the sequence does')
        if lazy and o['batch']:
            ctx.count('shape:wrapped (non-subscriptable) container + batch')
    for nm, vals in variables:
        m = models[nm]
        ctx.table('data class x length', '%s/%d' % (m['cls'], length))
        ctx.table('non-missing count', m['n'])
        if any(is_missing(v) for v in vals):
            ctx.count('data:lists containing missing values')
    label = ''
    if shape:
        label = ', %s of %s elements, %s%s, statistics emitted on %s' % (
            container, kind, tag_head(mapping, names, o),
            ' called with %r' % ({k: v for k, v in kw.items() if k != 'mycmp'},) if kw else '',
            {'end': 'the last displayed element', 'start': 'the first displayed element',
             'every': 'every element'}[o['where']])
    clean = judge_blocks(ctx, case, desc, blocks, variables, models, channel, mapping, label)
    raw = blocks[0]
    kindk = ('shape:' if shape else '') + '+'.join(models[nm]['cls'] for nm in names)
    if clean and kindk not in env.samples and len(env.samples) < 5 and models[names[0]]['n'] >= 3:
        env.samples[kindk] = 1
        smp = {'variables': encd, 'mapping': mapping, 'channel': channel,
               'first_accessed': '%s-%s' % slots[0],
               'observed': {'%s-%s' % k: repr(v) for k, v in raw.items()}}
        if shape:
            smp['container'] = container
            smp['opts'] = o
        ctx.sample(smp)


def all_modes(ctx, env, variables, i, origin):
    for j, (channel, mapping) in enumerate(MODES):
        rot = (i + 3 * j) % len(STATS)
        container = 'tuple' if (i + j) % 3 == 0 else 'list'
        evaluate(ctx, env, variables, mapping, channel, rot, container, origin)


def with_mv(values):
    """Every other missing value (starting with the first) becomes the simulated Missing.Value."""
    out, k = [], 0
    for v in values:
        if v is None:
            out.append(MISSING if k % 2 == 0 else None)
            k += 1
        else:
            out.append(v)
    return out


# ---------------------------------------------------------------- histories
class Box:
    """The application's container object; it stays the same object while its content changes."""

    def __init__(self, kind, items):
        self.kind = kind
        self.items = items
        self.build()

    def build(self):
        k, items = self.kind, self.items
        if k == 'list':
            self.seq = items
        elif k == 'seqclass':
            self.seq = Seq(items)           # shares the list
        elif k == 'tuple':
            self.seq = tuple(items)
        elif k == 'deque':
            self.seq = collections.deque(items)
        elif k == 'dictvalues':
            self.d = dict(enumerate(items))
            self.seq = self.d.values()
        else:
            raise ValueError(k)

    def sync(self):
        """After a structural change of ``items``: the same container object follows where it can."""
        k = self.kind
        if k == 'tuple':
            self.seq = tuple(self.items)    # immutable: the application has to build another one
        elif k == 'deque':
            self.seq.clear()
            self.seq.extend(self.items)
        elif k == 'dictvalues':
            self.d.clear()
            self.d.update(enumerate(self.items))

    def rebuild(self):
        """A new container object holding the same elements."""
        self.items = list(self.items)
        self.build()


class History:
    def __init__(self, ctx, env, h):
        self.ctx, self.env, self.h = ctx, env, h
        self.names = list(h['names'])
        self.kind = h['itemkind']
        self.cur = {nm: dec(vals) for nm, vals in h['values']}
        self.box = Box(h['container'], make_items([(nm, self.cur[nm]) for nm in self.names], self.kind))
        self.uses_mv = "{'mv': 1}" in repr(h)

    def apply(self, op):
        cur, box, names = self.cur, self.box, self.names
        n = len(cur[names[0]])
        what = op[0]
        if what == 'set':
            i, nm, v = op[1] % n, op[2], dec([op[3]])[0]
            cur[nm][i] = v
            set_value(self.kind, box.items[i], nm, v)
        elif what == 'replace':
            i = op[1] % n
            vals = {nm: dec([op[2][nm]])[0] for nm in names}
            for nm in names:
                cur[nm][i] = vals[nm]
            box.items[i] = new_item(self.kind, vals)
            box.sync()
        elif what == 'append':
            vals = {nm: dec([op[1][nm]])[0] for nm in names}
            for nm in names:
                cur[nm].append(vals[nm])
            box.items.append(new_item(self.kind, vals))
            box.sync()
        elif what == 'pop':
            if n > 1:
                i = op[1] % n
                for nm in names:
                    cur[nm].pop(i)
                box.items.pop(i)
                box.sync()
        elif what == 'swap':
            i, j = op[1] % n, op[2] % n
            for nm in names:
                cur[nm][i], cur[nm][j] = cur[nm][j], cur[nm][i]
            box.items[i], box.items[j] = box.items[j], box.items[i]
            box.sync()
        elif what == 'rebuild':
            box.rebuild()
        elif what == 'other':
            self.env.other()
        elif what != 'none':
            raise ValueError(op)

    def run(self, origin):
        ctx, env, h = self.ctx, self.env, self.h
        changed = False
        for k, step in enumerate(h['steps']):
            op = step['op']
            self.apply(op)
            if op[0] not in ('none', 'other'):
                changed = True
            ask = tuple(step.get('ask') or self.names)
            mapping, channel, rot = step['mapping'], step['channel'], step['rot']
            inline = step.get('inline')
            opts = step.get('opts')
            desc = ('history', repr(h['values']), h['itemkind'], h['container'], repr(h['steps'][:k + 1]))
            case = {'history': h, 'failed_step': k, 'origin': origin}
            label = ', step %d of a history on one %s object (operations so far: %s)' % (
                k + 1, h['container'], ' '.join(s['op'][0] + ('+inline-' + s['inline'][0] if s.get('inline') else '')
                                                for s in h['steps'][:k + 1]))
            o = full_opts(opts)
            if opts:
                label += ', tag %s' % tag_head(mapping, ask, o)
            before = [(nm, list(self.cur[nm])) for nm in ask]
            models = {nm: model(vals) for nm, vals in before}
            ctx.case(desc, any(m['n'] >= 2 for m in models.values()))
            tmpl, slots = env.template(channel, mapping, rot, ask, opts, 2 if inline else 1,
                                       fresh=step.get('fresh', False))
            mut = (lambda: self.apply(inline)) if inline else None
            try:
                groups = env.render(tmpl, slots, channel, self.box.seq, self.uses_mv, render_kw(o), mut)
            except Unparseable as e:
                ctx.violation('unparseable output / record: %s%s' % (e, label), case, key='parse_' + digest(desc))
                return
            except Exception as e:
                render_error(ctx, case, desc, e, [[nm, enc(v)] for nm, v in before], models, label)
                return
            dispatch_tables(ctx, env)
            ctx.count('history:renders compared')
            ctx.table('history operation before the render', op[0])
            ctx.table('history container', h['container'])
            ctx.table('history items', h['itemkind'])
            ctx.table('history mode', '%s/%s' % (channel, 'mapping' if mapping else 'attributes'))
            ctx.table('first-accessed statistic', slots[0][0])
            if opts:
                option_tables(ctx, o, mapping, ask, h['itemkind'], 'history')
                if k and (o['sort'] or o['reverse'] or o['reverse_expr']):
                    ctx.count('history:renders with sort / reverse options after the first one')
            if changed:
                ctx.count('history:renders after an in-place change')
            if k and not step.get('fresh'):
                ctx.count('history:renders through an already used template')
            if k and step.get('fresh'):
                ctx.count('history:renders through a newly compiled template')
            after = [(nm, list(self.cur[nm])) for nm in ask]
            stages = [(before, models, '')]
            if inline:
                ctx.count('history:two dtml-in tags in one template with a change in between')
                ctx.table('history operation between two tags', inline[0])
                stages = [(before, models, ', first tag'),
                          (after, {nm: model(vals) for nm, vals in after}, ', second tag (after %s)' % inline[0])]
                if inline[0] not in ('none', 'other'):
                    changed = True
            if len(groups) != len(stages) or any(len(g) != 1 for g in groups):
                ctx.violation('the statistics were emitted %r times%s' % ([len(g) for g in groups], label),
                              case, key='blocks_' + digest(desc))
                return
            clean = True
            for blocks, (variables, mods, lab) in zip(groups, stages):
                clean = judge_blocks(ctx, case, desc, blocks, variables, mods, channel, mapping,
                                     label + lab) and clean
            if not clean:
                return      # later steps of a history that went wrong are not independent evidence
        if 'history' not in env.samples and len(h['steps']) >= 3 and origin == 'seeded':
            env.samples['history'] = 1
            ctx.sample({'history': h, 'verdict': 'every render agreed with the model of the current values'})


def hist_modes(itemkind):
    by_key, by_attr = ITEM_KINDS[itemkind][:2]
    return [(c, m) for c, m in MODES if (by_key if m else by_attr)]


def exhaustive_histories(tier):
    """[values] -> render -> one value changed in place -> render, over the small domains."""
    for dom in (DOM_NUM, DOM_STR):
        for L in range(1, EXH_HIST_LEN[tier] + 1):
            for t in itertools.product(dom, repeat=L):
                for i in range(L):
                    for v in dom:
                        if v != t[i]:
                            yield list(t), i, v


def count_exhaustive_histories(tier):
    return sum(1 for _ in exhaustive_histories(tier))


def gen_history(rng, kinds=('dict', 'item', 'both'), containers=HIST_CONTAINERS):
    nvars = 1 if rng.random() < 0.7 else 2
    names = rng.sample(NAMES, nvars)
    n = rng.randint(1, 8)
    pools, values, stat_vars = {}, [], []
    for nm in names:
        kind, vals = gen_list(rng, n)
        _, more = gen_list(rng, 10, kind)
        pools[nm] = enc(more)
        values.append([nm, enc(vals)])
        stat_vars.append((nm, 'str' if kind in ('str', 'numstr') else 'num'))
    if "{'mv': 1}" in repr((values, pools)):
        stat_vars = []          # no ordering is documented for Missing.Value: such histories are not sorted
    itemkind = rng.choice(list(kinds))
    container = rng.choice(containers)
    modes = hist_modes(itemkind)
    if itemkind in NO_SORT:
        stat_vars = []

    def row():
        return {nm: rng.choice(pools[nm]) for nm in names}

    def gen_op():
        what = rng.choice(HIST_OPS[1:]) if rng.random() < 0.9 else 'none'
        if what == 'set':
            nm = rng.choice(names)
            return ['set', rng.randrange(10), nm, rng.choice(pools[nm])]
        if what == 'replace':
            return ['replace', rng.randrange(10), row()]
        if what == 'append':
            return ['append', row()]
        if what == 'pop':
            return ['pop', rng.randrange(10)]
        if what == 'swap':
            return ['swap', rng.randrange(10), rng.randrange(10)]
        return [what]

    steps = []
    channel, mapping = rng.choice(modes)
    rot = rng.randrange(10)
    for k in range(rng.randint(2, 5)):
        if k and rng.random() < 0.4:        # another template: other channel / flag / first statistic
            channel, mapping = rng.choice(modes)
            rot = rng.randrange(10)
        step = {'op': ['none'] if k == 0 else gen_op(), 'mapping': mapping, 'channel': channel, 'rot': rot,
                'fresh': rng.random() < 0.25}
        if nvars == 2 and rng.random() < 0.3:
            step['ask'] = [rng.choice(names)]
        if rng.random() < 0.2:
            step['inline'] = gen_op()
            if container == 'tuple' and step['inline'][0] in STRUCTURAL:
                # a tuple cannot change under the running template; the application would have to
                # rebind the name, which is the next render of the history, not this one
                step['inline'] = ['set', rng.randrange(10), names[0], rng.choice(pools[names[0]])]
        r = rng.random()
        if r < 0.15:
            step['opts'] = {'where': 'start', 'order': rng.choice(['', 'reverse'])}
        elif r < 0.5:
            # an option subset; the sort keys are data variables of the elements (asked for or not)
            o = gen_options(rng, None, 0.5, others=(), stat_vars=stat_vars)
            o['where'] = rng.choice(('start', 'end'))
            if rng.random() < 0.3:
                o['batch'] = gen_batch(rng, n)
            step['opts'] = o
        steps.append(step)
    return {'names': names, 'values': values, 'itemkind': itemkind, 'container': container, 'steps': steps}


# ---------------------------------------------------------------- shapes and options
BATCH_KEYSETS = (('size',), ('size',), ('start',), ('end',), ('size', 'start'), ('size', 'start'),
                 ('start', 'end'), ('size', 'end'), ('size', 'start', 'end'))


def gen_batch(rng, n, keys=None):
    keys = keys or rng.choice(BATCH_KEYSETS)
    b = {}
    for k in keys:
        b[k] = rng.randint(1, n + 1) if k == 'size' else rng.randint(1, n + 2)
    if rng.random() < 0.3:
        b['orphan'] = rng.randint(0, 3)
    if rng.random() < 0.3:
        b['overlap'] = rng.randint(0, 2)
    return b


def sortable(variables):
    """[(name, 'num'|'str')] — the data variables a sort may name (no ordering is documented for the
    simulated Missing.Value, so a variable holding it is left out)."""
    out = []
    for nm, vals in variables:
        if any(v is MISSING for v in vals):
            continue
        out.append((nm, 'str' if any(type(v) is str for v in vals) else 'num'))
    return out


def gen_extra(rng, n):
    """Two further keys of every element: rank (ints, with ties now and then) and tag (mixed-case text)."""
    rank = list(range(n))
    rng.shuffle(rank)
    if n > 1 and rng.random() < 0.3:
        rank[rng.randrange(n)] = rank[rng.randrange(n)]
    return {'rank': rank, 'tag': [rng.choice(TAGS) for _ in range(n)]}


def gen_key(rng, var, kind, spelling=None):
    if spelling is None:
        spelling = rng.choice(SORT_SPELLINGS_STR if kind == 'str' else SORT_SPELLINGS_NUM)
    func, direction = spelling
    if func == 'alt':                   # the second comparison function that fits the data
        func = 'nocase' if kind == 'str' else 'mycmp'
    return [var, func, direction]


def gen_sort(rng, stat_vars, relation=None, spelling=None, via=None, others=EXTRA_KEYS):
    """A sort specification; None when the relation asked for cannot be built from these variables.

    relation: stat — one key, a variable whose statistics are asked; other — one key, none of them;
    multi — two or three keys, any mix (first key stat or other)."""
    relation = relation or rng.choice(SORT_RELATIONS)
    if relation in ('stat', 'multi') and not stat_vars:
        return None
    if relation == 'other' and not others:
        return None
    if relation == 'multi' and len(stat_vars) + len(others) < 2:
        return None
    if relation == 'stat':
        var, kind = rng.choice(stat_vars)
        keys = [gen_key(rng, var, kind, spelling)]
    elif relation == 'other':
        var, kind = rng.choice(others)
        keys = [gen_key(rng, var, kind, spelling)]
    else:
        pool = list(stat_vars) + list(others)
        first = rng.choice(stat_vars)       # at least one of the keys is a summarised variable
        rest = [p for p in pool if p != first]
        chosen = [first] + rng.sample(rest, min(len(rest), rng.randint(1, 2)))
        rng.shuffle(chosen)
        keys = [gen_key(rng, chosen[0][0], chosen[0][1], spelling)]
        keys += [gen_key(rng, v, k) for v, k in chosen[1:]]
    return {'keys': keys, 'via': via or rng.choice(SORT_VIAS), 'quoted': rng.random() < 0.5}


def gen_options(rng, variables, p=0.5, others=EXTRA_KEYS, stat_vars=None):
    """A random subset of the options that do not select what is summarised."""
    o = {}
    if rng.random() < p:
        sp = gen_sort(rng, sortable(variables) if stat_vars is None else stat_vars, others=others)
        if sp:
            o['sort'] = sp
    if rng.random() < p:
        o['reverse'], o['reverse_expr'] = rng.choice(REVERSALS[1:])
    if rng.random() < p * 0.6:
        o['no_push_item'] = True
    if rng.random() < p * 0.6:
        o['prefix'] = rng.choice(PREFIXES)
    if rng.random() < p * 0.4:
        o['skip_unauthorized'] = True
    if rng.random() < 0.5:
        o['shuffle'] = rng.randrange(1000)
    if rng.random() < 0.15:
        o['else'] = True
    return o


def gen_shape(rng, mapping, variables):
    n = len(variables[0][1])
    container = rng.choice(LAZY) if rng.random() < 0.7 else rng.choice(DIRECT)
    hashable = container in ('set', 'frozenset')
    if rng.random() < 0.25:
        items = 'both'
    elif mapping:
        items = 'both' if hashable else 'dict'
    else:
        items = 'item'
    opts = {'where': rng.choice(WHERES), 'items': items,
            'batch': gen_batch(rng, n) if rng.random() < 0.65 else None,
            'batch_names': rng.random() < 0.3,
            'form': rng.choice(FORMS) if rng.random() < 0.3 else 'name',
            'layout': rng.choice(['interleaved', 'grouped']),
            'extra': gen_extra(rng, n)}
    opts.update(gen_options(rng, variables, 0.45))
    return container, opts


def shape_case(ctx, env, rng, variables):
    channel, mapping = rng.choice(MODES)
    container, opts = gen_shape(rng, mapping, variables)
    evaluate(ctx, env, variables, mapping, channel, rng.randrange(10), container, 'shape', opts)


# ---- element kinds: the same loops over mapping objects that are no plain dict / instances that keep their
# attributes elsewhere than in a plain __dict__
def element_cases(ctx, env, rng, variables, kinds=None, origin='elements'):
    """One drawn shape per mapping flag, rendered over every kind given (default: one drawn kind)."""
    if kinds is None:
        kinds = [rng.choice(MAPPING_KINDS + ATTR_KINDS)]
    shapes = {}
    for kind in kinds:
        mapping = ITEM_KINDS[kind][0]
        if mapping not in shapes:
            shapes[mapping] = (rng.choice(('var', 'expr')), rng.randrange(10)) + gen_shape(rng, mapping, variables)
        channel, rot, container, opts = shapes[mapping]
        opts = dict(opts, items=kind)
        if rng.random() < 0.25:
            container = 'userlist'
        if container in MERGING and kind not in SET_OK:
            container = 'iterclass'
        if kind in NO_SORT:
            opts.pop('sort', None)
        evaluate(ctx, env, variables, mapping, channel, rot, container, origin, opts)


# ---- plain values: the elements of the sequence are the values themselves, summarised as statistic-item
DOM_FALSY_NUM = (0, 0.0, 2, None)
DOM_FALSY_STR = ('', 'a', 'b', None)


def plain_domains():
    for dom, top in ((DOM_NUM, 4), (DOM_STR, 4), (DOM_STR2, 3), (DOM_FALSY_NUM, 3), (DOM_FALSY_STR, 3)):
        for L in range(1, top + 1):
            for t in itertools.product(dom, repeat=L):
                yield list(t)


def count_plain_domains():
    return sum(1 for _ in plain_domains())


def gen_bigints(rng, n):
    """Whole numbers beyond 2**53 (sums and extremes stay exact; the derived statistics are floats)."""
    vals = [rng.randint(-10 ** 18, 10 ** 18) for _ in range(n)]
    return [None if rng.random() < 0.2 else v for v in vals]


def gen_plain(rng, vals):
    """Container and options for a sequence of plain values.  No option names a key of the elements (there
    is none): sort options are left out; batch / reversal / naming options in any combination."""
    n = len(vals)
    r = rng.random()
    if r < 0.6:
        container = rng.choice(LAZY + MORE_LAZY)
    else:
        container = rng.choice(DIRECT + MORE_DIRECT)
    present = {type(v) for v in vals}
    if container == 'array' and not (present in ({int}, {float}) and all(abs(v) < 2 ** 62 for v in vals)):
        container = 'userlist'
    o = {'where': rng.choice(WHERES), 'items': 'plain',
         'batch': gen_batch(rng, n) if rng.random() < 0.5 else None,
         'batch_names': rng.random() < 0.3,
         'form': rng.choice(FORMS) if rng.random() < 0.3 else 'name'}
    if rng.random() < 0.4:
        o['reverse'], o['reverse_expr'] = rng.choice(REVERSALS[1:])
    if rng.random() < 0.25:
        o['no_push_item'] = True
    if rng.random() < 0.25:
        o['prefix'] = rng.choice(PREFIXES)
    if rng.random() < 0.15:
        o['skip_unauthorized'] = True
    if rng.random() < 0.5:
        o['shuffle'] = rng.randrange(1000)
    if rng.random() < 0.15:
        o['else'] = True
    return container, o


def plain_case(ctx, env, rng, vals, origin='plain'):
    container, opts = gen_plain(rng, vals)
    evaluate(ctx, env, [('item', vals)], False, rng.choice(('var', 'expr')), rng.randrange(10), container,
             origin, opts)


# ---- the option grid: every subset of {mapping, no_push_item, prefix, skip_unauthorized, sort, reverse,
# batch} with every sort key relation / direction spelling and every way of asking for the reversal
GRID_SORTS = ((None, None),
              ('stat', (None, None)), ('stat', ('cmp', None)), ('stat', ('cmp', 'asc')),
              ('stat', ('cmp', 'desc')), ('stat', ('alt', None)), ('stat', ('alt', 'desc')),
              ('other', (None, None)), ('other', ('cmp', 'desc')),
              ('multi', (None, None)), ('multi', ('cmp', 'desc')))
GRID_REVERSALS = REVERSALS[:4] + REVERSALS[4:5] + REVERSALS[6:7]
GRID_BATCHES = (None, ('size',), ('size', 'start'), ('start', 'end'))
# per grid point: (data class of the first variable, plain element type?) - the first two renders use the
# element type the mapping flag stands for (dict / attribute object), later ones also the mixed type
OPTION_DATA = {'quick': (('num', True), ('str', True), ('any', False)),
               'thorough': (('num', True), ('str', True)) + (('num', False), ('str', False), ('any', False)) * 4}
GRID_KINDS = {'num': ['int', 'smallint', 'float', 'smallfloat', 'mix', 'dom-num'],
              'str': ['str', 'numstr', 'dom-str']}


def option_grid():
    for flags in itertools.product((False, True), repeat=4):
        for srt in GRID_SORTS:
            for rev in GRID_REVERSALS:
                for batch in GRID_BATCHES:
                    yield flags, srt, rev, batch


def count_option_grid():
    return 16 * len(GRID_SORTS) * len(GRID_REVERSALS) * len(GRID_BATCHES)


def grid_list(rng, kind, n):
    if kind.startswith('dom-'):
        dom = DOM_NUM if kind == 'dom-num' else rng.choice((DOM_STR, DOM_STR2))
        return [rng.choice(dom) for _ in range(n)]
    return gen_list(rng, n, kind)[1]


def option_case(ctx, env, rng, point, data, plain=True):
    """One render of one grid point: the systematic dimensions come from the point, data and the
    remaining presentation (channel, emission point, container, element type, names, ...) are drawn."""
    (mapping, npi, prefix, skip), (relation, spelling), (reverse, reverse_expr), batch_keys = point
    if data == 'any':
        data = rng.choice(('num', 'str'))
    n = rng.randint(2, 7)
    nvars = 1 if rng.random() < 0.6 else 2
    names = rng.sample(NAMES, nvars)
    variables = []
    for j, nm in enumerate(names):
        kind = rng.choice(GRID_KINDS[data if j == 0 else rng.choice(('num', 'str'))])
        vals = grid_list(rng, kind, n)
        if any(v is MISSING for v in vals):
            vals = [None if v is MISSING else v for v in vals]
        variables.append((nm, vals))
    opts = {'where': rng.choice(WHERES),
            'items': 'both' if not plain and rng.random() < 0.4 else ('dict' if mapping else 'item'),
            'batch': gen_batch(rng, n, batch_keys) if batch_keys else None,
            'batch_names': bool(batch_keys) and rng.random() < 0.3,
            'form': rng.choice(FORMS) if rng.random() < 0.3 else 'name',
            'layout': rng.choice(['interleaved', 'grouped']),
            'extra': gen_extra(rng, n),
            'reverse': reverse, 'reverse_expr': reverse_expr, 'no_push_item': npi,
            'prefix': rng.choice(PREFIXES) if prefix else None, 'skip_unauthorized': skip,
            'shuffle': rng.randrange(1000) if rng.random() < 0.5 else None}
    if relation:
        # the first variable is the one of the requested data class; a 'stat' key names it
        opts['sort'] = gen_sort(rng, sortable(variables[:1]) if relation == 'stat' else sortable(variables),
                                relation, spelling)
    container = rng.choice(DIRECT) if rng.random() < 0.8 else rng.choice(LAZY[:4])
    channel = rng.choice(('var', 'expr'))
    evaluate(ctx, env, variables, mapping, channel, rng.randrange(10), container, 'options', opts)


# ---- nested loops: the statistics asked inside a loop are those of that loop's sequence
def literal_only(o):
    """The inner loop of a nested pair spells its calculated options literally (the caller's names sk / rv /
    b_* belong to the outer loop)."""
    o = dict(o)
    if o.get('sort') and o['sort']['via'] == 'expr-name':
        o['sort'] = dict(o['sort'], via='expr-lit')
    if o.get('reverse_expr') and o['reverse_expr'][0] == 'name':
        o['reverse_expr'] = ['lit', o['reverse_expr'][1]]
    o['batch_names'] = False
    return o


def gen_nested(rng):
    nvars = 1 if rng.random() < 0.7 else 2
    names = rng.sample(NAMES, nvars)
    sides = []
    for side in range(2):
        n = rng.randint(1, 6)
        variables = []
        for nm in names:
            vals = gen_list(rng, n)[1]
            variables.append([nm, enc(vals)])
        mapping = rng.random() < 0.5
        decoded = [(nm, dec(vals)) for nm, vals in variables]
        o = gen_options(rng, decoded, 0.4)
        o['where'] = 'end'
        o['items'] = 'both' if rng.random() < 0.2 else ('dict' if mapping else 'item')
        o['extra'] = gen_extra(rng, n)
        if rng.random() < 0.3:
            o['batch'] = gen_batch(rng, n)
        if side:
            o = literal_only(o)
        sides.append({'variables': variables, 'mapping': mapping, 'opts': o,
                      'container': rng.choice(DIRECT) if rng.random() < 0.7 else rng.choice(LAZY[:4])})
    same = rng.random() < 0.15
    if same:
        # the inner loop runs over the very elements of the outer one (own container, own options)
        a, b = sides
        b['variables'] = a['variables']
        if a['mapping'] != b['mapping']:
            a['opts']['items'] = 'both'
        b['opts']['items'] = a['opts']['items']
        b['opts']['extra'] = a['opts']['extra']
        if b['opts'].get('sort'):
            b['opts'].pop('sort')       # drawn for other data (the comparison function may not fit)
    return {'names': names, 'outer': sides[0], 'inner': sides[1], 'channel': rng.choice(('var', 'expr')),
            'rot': rng.randrange(10), 'pre': rng.random() < 0.5, 'same': same}


def gen_cond(rng, names):
    if rng.random() < 0.75:
        return ['name', rng.choice(list(names) * 2 + list(COND_NAMES))]
    return ['expr', rng.choice(COND_EXPRS)]


def gen_snippet(rng, names, depth=0):
    what = rng.choice(SNIPPETS)
    if what == 'if':
        conds = [gen_cond(rng, names) for _ in range(rng.choice((1, 2, 2, 3)))]
        sub = [gen_snippet(rng, names, 1)] if depth == 0 and rng.random() < 0.25 else []
        return ['if', conds, rng.random() < 0.5, sub]
    if what == 'unless':
        return ['unless', gen_cond(rng, names)]
    return [what]


def gen_furnished(rng):
    """A nested pair whose loops carry other tags: conditionals (name / expression conditions, elif chains,
    else), unless, let, with, try, small loops - for every element of the inner loop (always), of the outer
    loop and between the inner loop and the last outer emission (now and then); the inner loop runs for
    every outer element in half of the pairs; the emissions sit inside another tag in a third of them."""
    nd = gen_nested(rng)
    names = nd['names']
    for side in ('outer', 'inner'):
        sd = nd[side]
        if rng.random() < 0.35 and not nd['same']:
            # element kinds beyond dict / attribute object
            kind = rng.choice(MAPPING_KINDS if sd['mapping'] else ATTR_KINDS)
            sd['opts']['items'] = kind
            if kind in NO_SORT:
                sd['opts'].pop('sort', None)
    f = {'inner': [gen_snippet(rng, names) for _ in range(rng.choice((1, 1, 2, 3)))]}
    if rng.random() < 0.4:
        f['outer'] = [gen_snippet(rng, names) for _ in range(rng.choice((1, 2)))]
    if rng.random() < 0.3:
        f['mid'] = [gen_snippet(rng, names)]
    nd['furniture'] = f
    nd['inner_every'] = rng.random() < 0.5
    if nd['inner_every'] and nd['inner']['container'] in ('generator', 'iterator', 'map'):
        nd['inner']['container'] = 'iterclass'     # the inner sequence is walked once per outer element
    nd['wrap'] = rng.choice(WRAPS) if rng.random() < 0.33 else None
    return nd


def nested_case(ctx, env, nd, origin='nested'):
    names = tuple(nd['names'])
    channel, rot = nd['channel'], nd['rot']
    a, b = nd['outer'], nd['inner']
    o_a, o_b = full_opts(a['opts']), full_opts(b['opts'])
    vars_a = [(nm, dec(vals)) for nm, vals in a['variables']]
    vars_b = [(nm, dec(vals)) for nm, vals in b['variables']]
    models_a = {nm: model(vals) for nm, vals in vars_a}
    models_b = {nm: model(vals) for nm, vals in vars_b}
    desc = ('nested', repr(nd))
    case = {'nested': nd, 'origin': origin}
    ctx.case(desc, any(m['n'] >= 2 for m in list(models_a.values()) + list(models_b.values())))
    pre = nd.get('pre', True)
    furniture, inner_every, wrap = nd.get('furniture'), nd.get('inner_every', False), nd.get('wrap')
    src, slots = nested_source(channel, rot, names, a['mapping'], o_a, b['mapping'], o_b, pre, furniture,
                               inner_every, wrap)
    label = ', nested loops %s over %s' % (tag_head(a['mapping'], names, o_a),
                                           tag_head(b['mapping'], names, o_b, 'seq2'))
    items_a = make_items(vars_a, o_a['items'], o_a['extra'])
    items_b = list(items_a) if nd.get('same') else make_items(vars_b, o_b['items'], o_b['extra'])
    seq_a = make_container(a['container'], items_a)
    seq_b = make_container(b['container'], items_b)
    uses_mv = any(v is MISSING for _, vals in vars_a + vars_b for v in vals)
    kw = render_kw(o_a)
    kw.update(render_kw(o_b))
    kw['seq2'] = seq_b
    ticks = []
    if furniture:
        kw['tick'] = ticks.append
    encd = [a['variables'], b['variables']]
    try:
        groups = env.render(env.compile(src), slots, channel, seq_a, uses_mv, kw)
    except Unparseable as e:
        ctx.violation('unparseable output / record: %s%s' % (e, label), case, key='parse_' + digest(desc))
        return
    except Exception as e:
        both = dict(('outer ' + k, v) for k, v in models_a.items())
        both.update(('inner ' + k, v) for k, v in models_b.items())
        render_error(ctx, case, desc, e, encd, both, label)
        return
    dispatch_tables(ctx, env)
    blocks = groups[0]
    shown = len(vars_a[0][1]) if not o_a['batch'] else None     # outer elements displayed (batch: some of them)
    if inner_every:
        good = len(blocks) == shown + 1 + pre if shown else len(blocks) >= 2 + pre
    else:
        good = len(blocks) == 2 + pre
    if not good:
        ctx.violation('the statistics were emitted %d times, expected %s%sinner / outer%s'
                      % (len(blocks), 'inner for every outer element but the last / ' if inner_every else '',
                         'outer / ' if pre else '', label), case, key='blocks_' + digest(desc))
        return
    ctx.count('nested:renders compared')
    if furniture:
        ctx.count('furniture:renders compared')
        ctx.count('furniture:tags rendered around the statistics (ticks)', len(ticks))
        for where in ('inner', 'outer', 'mid'):
            for sn in furniture.get(where) or ():
                ctx.table('furniture tag', '%s | %s' % (where, sn[0]))
                if sn[0] == 'if':
                    ctx.table('furniture conditional', '%d conditions (%s)%s%s' % (
                        len(sn[1]), '+'.join(sorted({c[0] for c in sn[1]})), ', else' if sn[2] else '',
                        ', tags inside' if sn[3] else ''))
        for t in set(ticks):
            ctx.table('furniture branch taken', t, ticks.count(t))
        if inner_every:
            ctx.count('furniture:inner loop run for every outer element')
            ctx.count('furniture:inner emissions before the last outer element', len(blocks) - 2 - pre)
        if wrap:
            ctx.table('furniture emission inside', wrap)
        for sd, oo in ((a, o_a), (b, o_b)):
            if oo['items'] not in OLD_KINDS:
                ctx.count('furniture:loops over further element kinds')
                ctx.table('element kind', oo['items'])
    ctx.count('nested:emissions judged', len(blocks))
    ctx.count('nested:outer statistics first asked %s the inner loop' % ('before' if pre else 'after'))
    if nd.get('same'):
        ctx.count('nested:both loops over the same elements')
    ctx.table('nested mapping flags (outer/inner)', '%s/%s' % ('mapping' if a['mapping'] else 'attributes',
                                                               'mapping' if b['mapping'] else 'attributes'))
    ctx.table('first-accessed statistic', slots[0][0])
    option_tables(ctx, o_a, a['mapping'], names, o_a['items'], 'nested (outer)')
    option_tables(ctx, o_b, b['mapping'], names, o_b['items'], 'nested (inner)')
    if flag_set(o_a, a['mapping']) != flag_set(o_b, b['mapping']):
        ctx.count('nested:the two loops carry different option subsets')
    clean = True
    if pre:
        clean = judge_blocks(ctx, case, desc, [blocks[-3]], vars_a, models_a, channel, a['mapping'],
                             label + ', outer loop before the inner one')
    early = blocks[:len(blocks) - 2 - pre]
    if early:
        clean = judge_blocks(ctx, case, desc, early, vars_b, models_b, channel, b['mapping'],
                             label + ', inner loop run for an earlier outer element') and clean
    clean = judge_blocks(ctx, case, desc, [blocks[-2]], vars_b, models_b, channel, b['mapping'],
                         label + ', inner loop') and clean
    clean = judge_blocks(ctx, case, desc, [blocks[-1]], vars_a, models_a, channel, a['mapping'],
                         label + ', outer loop after the inner one') and clean
    if clean and 'nested' not in env.samples:
        env.samples['nested'] = 1
        ctx.sample({'nested': nd, 'verdict': 'outer / inner / outer emissions agreed with the model of their '
                                             'own sequence'})


# ---------------------------------------------------------------- generators
ALPHA = 'ABCXYZabcxyz019 .-é'
KINDS = ['int', 'int', 'smallint', 'float', 'float', 'smallfloat', 'mix', 'mix', 'const-int',
         'const-float', 'const-float', 'near-const', 'str', 'str', 'numstr']


def gen_list(rng, n=None, kind=None):
    n = n or rng.randint(1, 10)
    kind = kind or rng.choice(KINDS)
    if kind == 'int':
        vals = [rng.randint(-10 ** 6, 10 ** 6) for _ in range(n)]
    elif kind == 'smallint':
        vals = [rng.randint(-5, 5) for _ in range(n)]
    elif kind == 'float':
        vals = [rng.randint(-10 ** 6, 10 ** 6) / 1000 for _ in range(n)]
    elif kind == 'smallfloat':
        vals = [rng.randint(-30, 30) / 10 for _ in range(n)]
    elif kind == 'mix':
        vals = [rng.randint(-1000, 1000) if rng.random() < 0.5 else rng.randint(-10 ** 5, 10 ** 5) / 100
                for _ in range(n)]
    elif kind == 'const-int':
        vals = [rng.randint(-10 ** 6, 10 ** 6)] * n
    elif kind == 'const-float':
        d = rng.choice([10, 100, 1000])
        vals = [rng.randint(-10 ** 6, 10 ** 6) / d] * n
    elif kind == 'near-const':
        c = rng.randint(-10 ** 6, 10 ** 6) / 1000
        vals = [round(c + rng.choice([0, 0, 0.001, -0.001, 0.01]), 3) for _ in range(n)]
    elif kind == 'str':
        pool = [''.join(rng.choice(ALPHA) for _ in range(rng.randint(1, 6)))
                for _ in range(rng.randint(1, n))]
        vals = [rng.choice(pool) for _ in range(n)]
        if rng.random() < 0.03:
            vals[rng.randrange(n)] = ''
    else:
        vals = [str(rng.choice([rng.randint(-50, 50), rng.randint(-500, 500) / 10])) for _ in range(n)]
    r = rng.random()
    if r < 0.35:
        vals = [None if rng.random() < 0.25 else v for v in vals]
    elif r < 0.37:
        vals = [None] * n
    if any(v is None for v in vals) and rng.random() < 0.2:
        vals = with_mv(vals)
    return kind, vals


def gen_variables(rng, maxvars=2, p_more=0.3):
    kind, vals = gen_list(rng)
    nm = rng.choice(NAMES)
    variables = [(nm, vals)]
    while len(variables) < maxvars and rng.random() < p_more:
        _, vals2 = gen_list(rng, len(vals))
        variables.append((rng.choice([x for x in NAMES if x not in [v[0] for v in variables]]), vals2))
    return variables


def exhaustive(tier):
    for dom in (DOM_NUM, DOM_STR, DOM_STR2):
        for L in range(1, EXH_LEN[tier] + 1):
            for t in itertools.product(dom, repeat=L):
                yield list(t)


def first_parts(ctx, env, rng):
    if os.environ.get('VERIF_C16_ONLY') == 'further':       # development aid (the run is inconclusive then)
        return
    for i, vals in enumerate(exhaustive(ctx.tier)):
        if i % ctx.nshards != ctx.shard:
            continue
        ctx.count('lists:exhaustive')
        if i % 7 == 3 and any(v is None for v in vals):
            vals = with_mv(vals)
        all_modes(ctx, env, [(NAMES[(i // ctx.nshards) % len(NAMES)], vals)], i, 'exhaustive')
    per = SEEDED[ctx.tier] // ctx.nshards
    for i in range(per):
        kind, vals = gen_list(rng)
        ctx.count('lists:seeded')
        ctx.table('seeded kind', kind)
        nm = rng.choice(NAMES)
        variables = [(nm, vals)]
        if rng.random() < 0.3:
            # a second data variable of the same items, summarised in the same loop
            kind2, vals2 = gen_list(rng, len(vals))
            ctx.count('lists:seeded (second variable of a render)')
            ctx.table('seeded kind', kind2)
            variables.append((rng.choice([x for x in NAMES if x != nm]), vals2))
        all_modes(ctx, env, variables, rng.randrange(10), 'seeded')

    # ---- shapes: other containers, batch options, emission points, orders, tag forms
    for i, vals in enumerate(exhaustive('quick')):
        if len(vals) < 2 or i % ctx.nshards != ctx.shard:
            continue
        ctx.count('shape:lists from the exhaustive domains')
        variables = [(NAMES[i % len(NAMES)], vals)]
        if i % 2:
            variables.append((NAMES[(i + 1 + i // 7 % 4) % len(NAMES)], vals[1:] + vals[:1]))
        shape_case(ctx, env, rng, variables)
    for i in range(SHAPES[ctx.tier] // ctx.nshards):
        ctx.count('shape:lists seeded')
        shape_case(ctx, env, rng, gen_variables(rng, maxvars=3, p_more=0.5))

    # ---- options: the full grid of option subsets x sort key / spelling x reversal x batch
    for i, point in enumerate(option_grid()):
        if i % ctx.nshards != ctx.shard:
            continue
        ctx.count('option:grid points')
        for data, plain in OPTION_DATA[ctx.tier]:
            ctx.count('option:grid renders requested')
            option_case(ctx, env, rng, point, data, plain)

    # ---- nested loops over two sequences with the same variable names
    for i in range(NESTED[ctx.tier] // ctx.nshards):
        ctx.count('nested:pairs generated')
        nested_case(ctx, env, gen_nested(rng))

    # ---- histories: one container object, changed in place between the renders
    for i, (vals, pos, v) in enumerate(exhaustive_histories(ctx.tier)):
        if i % ctx.nshards != ctx.shard:
            continue
        ctx.count('history:exhaustive single-change histories')
        j = i // ctx.nshards
        itemkind = ('dict', 'item', 'both')[j % 3]
        channel, mapping = hist_modes(itemkind)[(j // 3) % len(hist_modes(itemkind))]
        nm = NAMES[j % len(NAMES)]
        step = {'mapping': mapping, 'channel': channel, 'rot': j % 10, 'fresh': False}
        h = {'names': [nm], 'values': [[nm, enc(vals)]], 'itemkind': itemkind,
             'container': 'list' if j % 4 else 'seqclass',
             'steps': [dict(step, op=['none']), dict(step, op=['set', pos, nm, enc([v])[0]])]}
        History(ctx, env, h).run('exhaustive')
    for i in range(HISTORIES[ctx.tier] // ctx.nshards):
        ctx.count('history:seeded histories')
        History(ctx, env, gen_history(rng)).run('seeded')



def further_parts(ctx, env, rng):
    # ---- element kinds: every small list over every further kind of mapping object / instance; seeded lists
    for i, vals in enumerate(exhaustive('quick')):
        if len(vals) > 3 or i % ctx.nshards != ctx.shard:
            continue
        ctx.count('elements:lists from the exhaustive domains')
        if i % 5 == 2 and any(v is None for v in vals):
            vals = with_mv(vals)
        element_cases(ctx, env, rng, [(NAMES[i % len(NAMES)], vals)], MAPPING_KINDS + ATTR_KINDS)
    for i in range(ELEMENTS[ctx.tier] // ctx.nshards):
        ctx.count('elements:lists seeded')
        variables = gen_variables(rng, maxvars=3, p_more=0.4)
        if rng.random() < 0.1:
            variables[0] = ('item', variables[0][1])    # a data variable that happens to be called item
        element_cases(ctx, env, rng, variables)

    # ---- plain values: the sequence holds the values themselves (statistic-item)
    for i, vals in enumerate(plain_domains()):
        if i % ctx.nshards != ctx.shard:
            continue
        ctx.count('plain:lists from the exhaustive domains')
        if i % 7 == 3 and any(v is None for v in vals):
            vals = with_mv(vals)
        plain_case(ctx, env, rng, vals)
    for i in range(PLAIN[ctx.tier] // ctx.nshards):
        ctx.count('plain:lists seeded')
        if rng.random() < 0.08:
            kind, vals = 'bigint', gen_bigints(rng, rng.randint(1, 10))
        else:
            kind, vals = gen_list(rng)
        ctx.table('plain seeded kind', kind)
        plain_case(ctx, env, rng, vals)

    # ---- nested loops carrying other tags (conditionals, let, with, try, small loops)
    for i in range(FURNISHED[ctx.tier] // ctx.nshards):
        ctx.count('furniture:pairs generated')
        nested_case(ctx, env, gen_furnished(rng), 'furnished')

    # ---- histories over the further element kinds
    for i in range(HISTORIES2[ctx.tier] // ctx.nshards):
        ctx.count('history:seeded histories over further element kinds')
        kinds = [k for k in MAPPING_KINDS + ATTR_KINDS if k in MUTABLE_KINDS]
        History(ctx, env, gen_history(rng, kinds)).run('seeded-kinds')


def run(ctx, spec):
    from DocumentTemplate import DT_InSV
    from vlib.reach import Reach
    reach = Reach()
    sv = DT_InSV.sequence_variables
    for label in ('statistics', '__getitem__'):     # diagnosis: absent after a refactoring is no error
        f = getattr(sv, label, None)
        if f is not None:
            reach.watch('sequence_variables.' + label, f)
    reach.start()
    env = Env(ctx)
    env.install()
    rng = ctx.rng
    first_parts(ctx, env, rng)
    further_parts(ctx, env, rng)
    reach.stop()
    reach.report(ctx)


def finish(agg):
    c = agg['counters']
    t = agg['tables']
    tier = agg['tier']
    inc = []
    diag = []
    # -- diagnosis of engine internals: reported, never verdict-bearing while the outputs were compared
    for r in ('reach:sequence_variables.statistics', 'reach:sequence_variables.__getitem__'):
        if not c.get(r):
            diag.append('anchor never entered (renamed / rewired?): ' + r)
    if not c.get('dispatch:statistics() calls'):
        diag.append('the wrapper on the statistics dispatch entries never fired')
    if c.get('dispatch:table entries wrapped', 0) < len(STATS):
        diag.append('fewer than ten dispatch-table entries point at sequence_variables.statistics')
    for s in STATS:
        if not t.get('statistics() entered through prefix', {}).get(s):
            diag.append('statistics() never seen entered through prefix: ' + s)
    # -- deciding parts: the output comparisons
    if not c.get('renders observed'):
        inc.append('no render was observed')
    for s in STATS:
        if not t.get('first-accessed statistic', {}).get(s):
            inc.append('statistic never the first one accessed: ' + s)
        if not any(k.startswith('compared:%s ' % s) or k == 'compared:' + s for k in c):
            inc.append('statistic never compared: ' + s)
    for ch, mp in MODES:
        k = '%s/%s' % (ch, 'mapping' if mp else 'attributes')
        if not t.get('mode', {}).get(k):
            inc.append('mode never observed: ' + k)
        if not t.get('history mode', {}).get(k):
            inc.append('history mode never observed: ' + k)
    for k in ('compared:median (even count, must lie between the middle values)',
              'compared:median (text, even count)', 'compared:median (text, odd count)',
              'compared:total (must be empty, text data)', 'compared:total (exact)',
              'compared:total (tolerance)', 'compared:variance (tolerance)',
              'data:lists containing missing values', 'data:renders with the simulated Missing.Value',
              'shape:renders compared', 'shape:emissions judged',
              'shape:wrapped (non-subscriptable) container + batch',
              'shape:wrapped (non-subscriptable) container + batch + several variables',
              'shape:... and the batch ends well before the sequence does',
              'history:renders compared', 'history:renders after an in-place change',
              'history:renders through an already used template',
              'history:renders through a newly compiled template',
              'history:two dtml-in tags in one template with a change in between',
              'history:renders with sort / reverse options after the first one',
              'option:attribute order permuted', 'option:loop with an else continuation',
              'nested:renders compared', 'nested:the two loops carry different option subsets',
              'nested:outer statistics first asked before the inner loop',
              'nested:outer statistics first asked after the inner loop',
              'nested:both loops over the same elements'):
        if not c.get(k):
            inc.append('never evaluated: ' + k)
    for k in ('elements:renders compared', 'plain:renders compared', 'plain:emissions judged',
              'plain:sequences holding missing values', 'plain:sequences holding 0 / 0.0 / empty text',
              'furniture:renders compared', 'furniture:tags rendered around the statistics (ticks)',
              'furniture:inner loop run for every outer element',
              'furniture:inner emissions before the last outer element',
              'furniture:loops over further element kinds'):
        if not c.get(k):
            inc.append('never evaluated: ' + k)
    nplain = count_plain_domains()
    if c.get('plain:lists from the exhaustive domains', 0) != nplain:
        inc.append('plain values: exhaustive part incomplete: %s of %d lists'
                   % (c.get('plain:lists from the exhaustive domains'), nplain))
    for kind in MAPPING_KINDS + ATTR_KINDS:
        if not t.get('shape items', {}).get(kind):
            inc.append('element kind never compared in a single loop: ' + kind)
        for how in ('wrapped', 'subscriptable'):
            if not t.get('element kind x container', {}).get('%s | %s' % (kind, how)):
                inc.append('element kind never compared in a %s container: %s' % (how, kind))
        if kind in MUTABLE_KINDS and not t.get('history items', {}).get(kind):
            inc.append('element kind never compared in a history: ' + kind)
    for cont in DIRECT + MORE_DIRECT + LAZY + MORE_LAZY:
        if not t.get('plain container', {}).get(cont):
            inc.append('plain values never compared in container: ' + cont)
        if cont != 'array' and not t.get('plain container of a sequence holding missing values', {}).get(cont):
            inc.append('plain values with missing ones never compared in container: ' + cont)
        if not t.get('plain container of a sequence holding 0 / 0.0 / empty text', {}).get(cont):
            inc.append('plain values with 0 / 0.0 / empty text never compared in container: ' + cont)
    for pos in ('only', 'first', 'inner', 'last'):
        if not t.get('plain position of a missing value', {}).get(pos):
            inc.append('plain values: missing value never at position: ' + pos)
    for cls in ('int', 'float', 'int+float', 'str', 'all-missing'):
        if not t.get('plain data class', {}).get(cls):
            inc.append('plain values: data class never compared: ' + cls)
    for where in ('inner', 'outer', 'mid'):
        for sn in sorted(set(SNIPPETS)):
            if not t.get('furniture tag', {}).get('%s | %s' % (where, sn)):
                inc.append('furniture tag never rendered: %s | %s' % (where, sn))
    for w in WRAPS:
        if not t.get('furniture emission inside', {}).get(w):
            inc.append('statistics never emitted from inside: ' + w)
    for b in ('branch 1', 'branch 2', 'else branch', 'unless', 'except', 'finally', 'small loop', 'let', 'with'):
        if not t.get('furniture branch taken', {}).get(b):
            inc.append('furniture branch never taken: ' + b)
    if not any(k.startswith(('2 conditions (name)', '3 conditions (name)'))
               for k in t.get('furniture conditional', {})):
        inc.append('no conditional with several name conditions was rendered')
    if not t.get('seeded kind', {}).get('const-float'):
        inc.append('no constant float list generated')
    if not t.get('variables per render', {}).get('2'):
        inc.append('no render summarised two variables at once')
    for name, keys in (('shape container', DIRECT + LAZY), ('shape where', WHERES),
                       ('shape order', tuple(o or 'plain' for o in ORDERS)), ('shape form', FORMS),
                       ('shape items', ('dict', 'item', 'both')),
                       ('history operation before the render', HIST_OPS),
                       ('history operation between two tags', ('set', 'replace', 'append')),
                       ('history container', tuple(set(HIST_CONTAINERS))),
                       ('history items', ('dict', 'item', 'both'))):
        for k in keys:
            if not t.get(name, {}).get(k):
                inc.append('%s never evaluated: %s' % (name, k))
    # -- the option dimension: every subset, over the element type that makes the subset matter, every
    #    sort key relation x direction spelling x reversal, every way of asking for sort / reversal
    ngrid = count_option_grid()
    if c.get('option:grid points', 0) != ngrid:
        inc.append('option grid incomplete: %s of %d points' % (c.get('option:grid points'), ngrid))
    for part in ('options', 'shape', 'history', 'nested (outer)', 'nested (inner)'):
        if not t.get('option part', {}).get(part):
            inc.append('option subsets never compared in part: ' + part)
    for bits in itertools.product((False, True), repeat=len(FLAG_NAMES)):
        sub = '+'.join(f for f, b in zip(FLAG_NAMES, bits) if b) or '(none)'
        kind = 'dict' if bits[0] else 'item'
        if not t.get('option subset x element type', {}).get('%s | %s' % (sub, kind)):
            inc.append('option subset never compared over %s elements: %s' % (kind, sub))
    alt = ('x/nocase', 'x/nocase/desc', 'x/mycmp', 'x/mycmp/desc')
    for rel, spellings in (('stat', ('x', 'x/cmp', 'x/cmp/asc', 'x/cmp/desc') + alt),
                           ('other', ('x', 'x/cmp/desc')), ('multi', ('x', 'x/cmp/desc'))):
        for sp in spellings:
            for rv in ('reversed', 'not reversed'):
                k = '%s | %s | %s' % (rel, sp, rv)
                if not t.get('option sort key x spelling x reversal', {}).get(k):
                    inc.append('sort key / spelling / reversal never compared: ' + k)
    for rel in SORT_RELATIONS:
        for fl, rx in GRID_REVERSALS:
            k = '%s | %s' % (rel, reversal_label(full_opts({'reverse': fl, 'reverse_expr': rx})))
            if not t.get('option sort key x reversal kind', {}).get(k):
                inc.append('sort key x reversal kind never compared: ' + k)
    for via in SORT_VIAS:
        if not t.get('option sort given through', {}).get(via):
            inc.append('sort specification never given through: ' + via)
    multi = t.get('option multi-key sort', {})
    for first in ('stat', 'other'):
        if not any(k.startswith(first + ' ,') for k in multi):
            inc.append('multi-key sort never compared with the first key being: ' + first)
    if os.environ.get('VERIF_C16_TABLES'):         # development aid: the coverage tables go to the evidence only
        for name in sorted(t):
            if name.startswith(os.environ['VERIF_C16_TABLES']):
                print('TABLE %s' % name)
                for k in sorted(t[name]):
                    print('   %-70s %d' % (k, t[name][k]))
    nexh = sum(len(d) ** L for d in (DOM_NUM, DOM_STR, DOM_STR2) for L in range(1, EXH_LEN[tier] + 1))
    if c.get('lists:exhaustive', 0) != nexh:
        inc.append('exhaustive part incomplete: %s of %d lists' % (c.get('lists:exhaustive'), nexh))
    nhist = count_exhaustive_histories(tier)
    if c.get('history:exhaustive single-change histories', 0) != nhist:
        inc.append('exhaustive histories incomplete: %s of %d'
                   % (c.get('history:exhaustive single-change histories'), nhist))
    return {'inconclusive': inc,
            'coverage': {'exhaustive': True,
                         'exhaustive_scope': 'all lists of length 1..%d over %r, %r and %r, each in 4 modes; all '
                                             'render / change-one-value-in-place / render histories on lists '
                                             'of length 1..%d over the first two domains'
                                             % (EXH_LEN[tier], DOM_NUM, DOM_STR, DOM_STR2, EXH_HIST_LEN[tier]),
                         'exhaustive_lists': nexh,
                         'exhaustive_histories': nhist,
                         'seeded_lists': c.get('lists:seeded', 0)
                         + c.get('lists:seeded (second variable of a render)', 0),
                         'shape_renders': c.get('shape:renders compared', 0),
                         'history_renders': c.get('history:renders compared', 0),
                         'internals_diagnosis': diag,
                         'explanation': 'exhaustive inside the stated domains; seeded lists, shapes and '
                                        'histories are extra'}}


def replay(ctx, rep):
    c = rep['case']
    env = Env(ctx)
    env.install()
    if 'history' in c:
        History(ctx, env, c['history']).run(c.get('origin', 'replay'))
        return
    if 'nested' in c:
        nested_case(ctx, env, c['nested'], c.get('origin', 'replay'))
        return
    variables = [(nm, dec(vals)) for nm, vals in c['variables']]
    evaluate(ctx, env, variables, c['mapping'], c['channel'], c['rot'],
             c.get('container', 'list'), c.get('origin', 'replay'), c.get('opts'))
