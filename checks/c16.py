"""C16 — summary statistics inside dtml-in equal independently computed values.

Monitor: a dtml-in body that, on the last element, emits all ten statistics of one data
variable — once through ``<dtml-var stat-name>`` (rendered text) and once through the
expression ``_['stat-name']`` handed to a recording callable (the real objects) — with and
without ``mapping``; the order of the ten accesses is rotated so that every statistic name is
the *first* one asked for (only the first access runs the real ``statistics``; the others read
its cache).  A counting wrapper on the dispatch table entries records which prefix entered
``sequence_variables.statistics``.
Oracle: exact rational arithmetic (``fractions.Fraction``) written from the "Summary
statistics" section of the DT_In docstring and the property statement.

Two further parts generalise *how* the list reaches the tag and *what happened before*:

* shapes — the same items handed over as a tuple, deque, plain ``__getitem__``/``__len__`` class,
  generator, iterator, ``map``, dict-values view, set/frozenset or ``__iter__``-only class, looped
  with batch options (size/start/end/orphan/overlap, literal or by name), ``reverse`` / ``sort`` /
  ``reverse_expr`` / ``sort_expr``, the name or the expression form of the tag, one to three data
  variables (accesses interleaved or grouped), and the statistics emitted on the first displayed
  element, the last one, or on every one (each emission is judged).
* histories — one container object rendered again and again in the same process (same compiled
  template or a new one, other channel / rotation / mapping flag) while the application changes
  it in place between the renders (a value of an element, an element, append / pop / swap, a new
  container of the same elements, an unrelated render in between), or between two dtml-in tags of
  the same template; every render is judged against the model of the values at that moment.
"""
import collections
import hashlib
import itertools
import math
import numbers
import re
from fractions import Fraction

ID = 'C16'
LEVEL = 'exploration'
RULE = ('exhaustive lists of length 1..4 (thorough 1..5) over {-2,0,1,3,0.5,2.5,None}, over '
        "{'a','b','c',None} and over the distinctive spelling {'K1','M2','P3',None}; seeded lists of "
        'length 1..10 (ints |v|<=10^6, floats with <=3 decimals, int/float mixes, constant and '
        'near-constant lists, strings; None sprinkled in; Missing.Value simulated); every list is '
        'rendered in the four modes {var,expression} x {mapping,attributes} with the first-accessed '
        'statistic rotated over all ten names and the variable name drawn from {x,n,age,count,value}; '
        '30% of the seeded renders summarise a second, independently generated variable of the same '
        'items with interleaved accesses. SHAPES: every exhaustive list of length 2..4 and 4000 (thorough '
        '120000) seeded lists with 1..3 variables are rendered once more with a drawn container (list, tuple, '
        'deque, __getitem__/__len__ class, generator, iterator, map, dict values view, set, frozenset, '
        '__iter__-only class), element type (dict, attribute object, both), batch options (subsets of '
        'size/start/end with orphan/overlap, literal or by name; 65%), order (reverse, sort, reverse_expr, '
        'sort_expr), tag form (name, "expr", expr="..."), access layout (interleaved / grouped by variable) '
        'and emission point (first displayed element, last displayed element, every element - each emission '
        'is judged). HISTORIES: all [render, change one value in place, render] histories on lists of length '
        '1..2 (thorough 1..3) over the first two domains, and 800 (thorough 30000) seeded histories of 2..5 '
        'renders of ONE container object (list, tuple, deque, sequence class, dict values view; elements dict / '
        'attribute object / both) with an operation before each render drawn from {set a value, replace an '
        'element, append, pop, swap, new container of the same elements, unrelated render, nothing}, the '
        'render going through the same compiled template, another one (other channel / mapping flag / first '
        'statistic / subset of the variables) or a newly compiled one; 20% of the renders use a template with '
        'two dtml-in tags over the sequence and the operation applied by a call between them; every render is '
        'judged against the model of the values at that moment. A case is non-trivial when at least two values '
        'of a variable are non-missing; distinct = distinct (variable names with their typed value lists, '
        'mapping, channel, rotation[, container and options | history prefix])')
ASSUMPTIONS = [
    'only all-numeric(+None) or all-string(+None) lists are generated (the mixes the documentation defines)',
    'ints: count/total/min/max/odd median are demanded exactly; floats and all derived statistics within '
    'relative 1e-9 + absolute 1e-12 + a first-order forward-error bound of floating-point evaluation '
    '(total: 2n*u*sum|x|; variance: 4(n+3)*u*(E[x^2]+mean^2), u=2^-53), fixed before any run',
    'statement silent, not asserted: sample variance / standard deviation for a single value; every statistic '
    'but count when all values are missing; the wording of the even-count text median (it only has to '
    'contain both middle values); which value inside the two middle values an even-count median takes',
    'a standard deviation is accepted when it lies between the roots of (variance -/+ its tolerance)',
    'the Missing package is not installed in /venv: Missing.Value is simulated by binding DT_InSV.mv to a '
    'sentinel that absorbs arithmetic like the real one',
    'the statistics summarise the x values of the sequence given to the tag: with batch options (which only '
    'select the displayed part), under sort / reverse (same values, other order) and for every kind of '
    'iterable the tag accepts, the expected values are those of all elements; the same holds at whatever '
    'element of the loop the statistic is asked for',
    'a render reports the values the elements have when that dtml-in tag runs: earlier renders of the same '
    'objects (by any template of the process) must not show through; what a statistic asked twice INSIDE one '
    'loop returns after the data changed during that loop is not asserted (changes are applied between tags)',
    'not generated (statement silent): sequences of (key, value) pairs, elements lacking the variable, '
    'previous / next renders, sort on data holding the simulated Missing.Value',
    'the wrappers on sequence_variables.statistics / the dispatch table and the reach anchors are diagnosis '
    '(coverage.internals_diagnosis); the verdict and inconclusive rest on the compared outputs only',
]
SHARD_TIMEOUT = {'quick': 600, 'thorough': 3000}
NSHARDS = {'quick': 16, 'thorough': 48}
SEEDED = {'quick': 5000, 'thorough': 200000}
EXH_LEN = {'quick': 4, 'thorough': 5}
SHAPES = {'quick': 4000, 'thorough': 120000}
HISTORIES = {'quick': 800, 'thorough': 30000}
EXH_HIST_LEN = {'quick': 2, 'thorough': 3}

STATS = ('total', 'count', 'min', 'max', 'median', 'mean', 'variance', 'variance-n',
         'standard-deviation', 'standard-deviation-n')
NUMERIC_ONLY = ('total', 'mean', 'variance', 'variance-n', 'standard-deviation',
                'standard-deviation-n')
NAMES = ('x', 'n', 'age', 'count', 'value')
MODES = (('var', True), ('var', False), ('expr', True), ('expr', False))
SEP = '\x1f'
MARK = '\x1e'
U = 2.0 ** -53

DOM_NUM = (-2, 0, 1, 3, 0.5, 2.5, None)
DOM_STR = ('a', 'b', 'c', None)
DOM_STR2 = ('K1', 'M2', 'P3', None)

MECH_SQRT = 'sqrt-of-negative-rounding-residue'
MECH_MEDIAN = 'even-median-floor-division-of-floats'


def plan(tier, seed):
    return [{} for _ in range(NSHARDS[tier])]


# ---------------------------------------------------------------- data
class _MissingValue:
    """Stand-in for Missing.Value (bound to DT_InSV.mv while a case using it renders).

    Like the real one it absorbs arithmetic (any operation gives the missing value again), so an
    engine that forgot to set it aside would poison its sums instead of tripping over a TypeError.
    """

    def __repr__(self):
        return 'Missing.Value'

    def _absorb(self, *other):
        return self
    __add__ = __radd__ = __sub__ = __rsub__ = __mul__ = __rmul__ = _absorb
    __truediv__ = __rtruediv__ = __floordiv__ = __rfloordiv__ = __pow__ = __neg__ = _absorb


MISSING = _MissingValue()


class Item:
    """An element whose data variables are plain attributes."""


def enc(values):
    return [{'mv': 1} if v is MISSING else v for v in values]


def dec(values):
    return [MISSING if isinstance(v, dict) else v for v in values]


def is_missing(v):
    return v is None or v is MISSING


# ---------------------------------------------------------------- observation
INT_RE = re.compile(r'^-?\d+$')


class Obs:
    """One observed statistic: rendered text (var channel) or the object (expr channel)."""

    def __init__(self, channel, raw):
        self.channel = channel
        self.raw = raw

    def empty(self):
        return isinstance(self.raw, str) and self.raw == ''

    def number(self):
        r = self.raw
        if self.channel == 'var':
            if INT_RE.match(r):
                return int(r)
            try:
                f = float(r)
            except ValueError:
                return None
            return f if math.isfinite(f) else None
        if isinstance(r, bool):
            return None
        if isinstance(r, numbers.Real):
            try:
                return r if math.isfinite(r) else None
            except Exception:
                return None
        return None

    def is_text(self, want):
        return isinstance(self.raw, str) and self.raw == want

    def text(self):
        return self.raw if isinstance(self.raw, str) else None

    def show(self):
        return repr(self.raw)


# ---------------------------------------------------------------- oracle
def model(values):
    """Exact expectations from the documentation; None where the statement is silent."""
    present = [v for v in values if not is_missing(v)]
    n = len(present)
    m = {'n': n, 'present': present}
    if n == 0:
        m['cls'] = 'all-missing'
        return m
    if all(type(v) in (int, float) for v in present):
        F = [Fraction(v) for v in present]
        allint = all(type(v) is int for v in present)
        allfloat = all(type(v) is float for v in present)
        m['cls'] = 'int' if allint else ('float' if allfloat else 'int+float')
        m['numeric'] = True
        m['allint'] = allint
        total = sum(F)
        mean = total / n
        ss = sum((f - mean) ** 2 for f in F)
        m['total'] = total
        m['mean'] = mean
        m['varn'] = ss / n
        m['var'] = ss / (n - 1) if n > 1 else None
        s = sorted(F)
        m['min'], m['max'] = s[0], s[-1]
        if n % 2:
            m['median'] = s[n // 2]
        else:
            m['mid'] = (s[n // 2 - 1], s[n // 2])
        A = float(sum(abs(f) for f in F))
        Q = float(sum(f * f for f in F) / n)
        m['A'] = A
        m['fwd_total'] = 0.0 if allint else 2 * n * U * A
        m['fwd_mean'] = 2 * (n + 1) * U * A / n
        m['fwd_var'] = 4 * (n + 3) * U * (Q + float(mean * mean))
    elif all(type(v) is str for v in present):
        m['cls'] = 'str'
        m['numeric'] = False
        s = sorted(present)
        m['min'], m['max'] = s[0], s[-1]
        if n % 2:
            m['median'] = s[n // 2]
        else:
            m['mid'] = (s[n // 2 - 1], s[n // 2])
    else:
        raise ValueError('workload bug: mixed numeric/text list %r' % (values,))
    return m


def tol(want, fwd):
    return Fraction(1e-9) * abs(want) + Fraction(1e-12) + Fraction(fwd)


def strict(want):
    return Fraction(1e-9) * abs(want) + Fraction(1e-12)


def names_both(text, a, b):
    """Both strings occur in text without overlapping (the format itself is not specified)."""
    def occ(s):
        out, i = [], text.find(s)
        while i >= 0:
            out.append((i, i + len(s)))
            i = text.find(s, i + 1)
        return out
    if a == '' or b == '':
        return a in text and b in text
    for (s1, e1) in occ(a):
        for (s2, e2) in occ(b):
            if e1 <= s2 or e2 <= s1:
                return True
    return False


def judge(m, obs, note):
    """Compare the ten observations with the model; returns [(stat, message, mechanism|None)]."""
    probs = []

    def bad(stat, msg, mech=None):
        probs.append((stat, msg, mech))

    n = m['n']
    c = obs['count'].number()
    note('compared:count')
    if c is None or Fraction(c) != n:
        bad('count', 'count-x is %s, %d values are non-missing' % (obs['count'].show(), n))
    if n == 0:
        note('silent:all values missing (only count asserted)')
        return probs
    if not m['numeric']:
        for s in NUMERIC_ONLY:
            note('compared:%s (must be empty, text data)' % s)
            if not obs[s].empty():
                bad(s, '%s-x is %s for non-numeric data, expected empty' % (s, obs[s].show()))
        for s in ('min', 'max'):
            note('compared:%s (text)' % s)
            if not obs[s].is_text(m[s]):
                bad(s, '%s-x is %s, expected %r' % (s, obs[s].show(), m[s]))
        if 'median' in m:
            note('compared:median (text, odd count)')
            if not obs['median'].is_text(m['median']):
                bad('median', 'median-x is %s, expected the middle value %r'
                    % (obs['median'].show(), m['median']))
        else:
            lo, hi = m['mid']
            note('compared:median (text, even count)')
            t = obs['median'].text()
            if lo == hi and t == lo:
                pass        # the common middle value itself is "between" them
            elif t is None or not names_both(t, lo, hi):
                bad('median', 'median-x is %s, expected a text naming %r and %r'
                    % (obs['median'].show(), lo, hi))
        return probs

    # ---- numeric data
    def num(stat):
        v = obs[stat].number()
        if v is None:
            bad(stat, '%s-x is %s, expected a number' % (stat, obs[stat].show()))
        return v

    def near(stat, want, fwd, exact=False):
        note('compared:%s (%s)' % (stat, 'exact' if exact else 'tolerance'))
        v = num(stat)
        if v is None:
            return
        err = abs(Fraction(v) - want)
        if exact:
            if err:
                bad(stat, '%s-x is %s, expected exactly %s' % (stat, obs[stat].show(), show_frac(want)))
            return
        if err > tol(want, fwd):
            bad(stat, '%s-x is %s, expected %s (error %.3g > tolerance %.3g)'
                % (stat, obs[stat].show(), show_frac(want), float(err), float(tol(want, fwd))))
        elif err > strict(want):
            note('tolerance:%s error beyond 1e-9/1e-12 but inside the forward-error bound' % stat)

    near('total', m['total'], m['fwd_total'], exact=m['allint'])
    near('min', m['min'], 0, exact=True)
    near('max', m['max'], 0, exact=True)
    near('mean', m['mean'], m['fwd_mean'])
    near('variance-n', m['varn'], m['fwd_var'])

    def root(stat, want_var, fwd):
        note('compared:%s (tolerance)' % stat)
        v = num(stat)
        if v is None:
            return
        t = float(tol(want_var, fwd))
        w = float(want_var)
        lo = math.sqrt(max(0.0, w - t)) * (1 - 1e-9) - 1e-12
        hi = math.sqrt(w + t) * (1 + 1e-9) + 1e-12
        if not lo <= v <= hi:
            bad(stat, '%s-x is %s, expected sqrt(%s)=%r' % (stat, obs[stat].show(), show_frac(want_var),
                                                           math.sqrt(w)))
        elif abs(v - math.sqrt(w)) > 1e-9 * math.sqrt(w) + 1e-12:
            note('tolerance:%s error beyond 1e-9/1e-12 but inside the forward-error bound' % stat)

    root('standard-deviation-n', m['varn'], m['fwd_var'])
    if n > 1:
        fwd = m['fwd_var'] * n / (n - 1) * 1.01
        near('variance', m['var'], fwd)
        root('standard-deviation', m['var'], fwd)
    else:
        note('silent:sample variance of a single value (observed %s)'
             % ('empty' if obs['variance'].empty() else 'non-empty'))

    if 'median' in m:
        near('median', m['median'], 0, exact=True)
    else:
        lo, hi = m['mid']
        note('compared:median (even count, must lie between the middle values)')
        v = num('median')
        if v is not None:
            fv = Fraction(v)
            if lo <= fv <= hi:
                if fv * 2 != lo + hi:
                    note('median:even count, inside the middle values but not their midpoint')
                else:
                    note('median:even count, the midpoint')
            else:
                mech = None
                floaty = any(type(x) is float for x in m['present'] if Fraction(x) in (lo, hi))
                if floaty and fv == math.floor((lo + hi) / 2):
                    mech = MECH_MEDIAN
                bad('median', 'median-x is %s, outside the two middle values %s and %s'
                    % (obs['median'].show(), show_frac(lo), show_frac(hi)), mech)
    return probs


def show_frac(f):
    f = Fraction(f)
    return str(f.numerator) if f.denominator == 1 else '%s (=%r)' % (f, float(f))


def classify_exception(exc, m):
    """Mechanism of a render error, from the data alone."""
    if (type(exc) is ValueError and 'math domain error' in str(exc) and m.get('numeric')
            and float(m['varn']) <= m['fwd_var']):
        # the true variance is (next to) zero relative to the magnitude of the data, so a one-pass
        # floating-point evaluation can land below zero; sqrt() of that residue raises
        return MECH_SQRT
    return None


# ---------------------------------------------------------------- harness
GAP = '\x1d'
BATCH_KEYS = ('size', 'start', 'end', 'orphan', 'overlap')
DEFAULT_OPTS = {'where': 'end', 'batch': None, 'batch_names': False, 'order': '', 'form': 'name',
                'layout': 'interleaved', 'items': None}
WHERES = ('end', 'start', 'every')
ORDERS = ('', 'reverse', 'sort', 'reverse_expr', 'sort_expr')
FORMS = ('name', 'expr', 'expr=')
# containers the tag subscripts directly / containers it has to wrap (no __getitem__)
DIRECT = ('list', 'tuple', 'deque', 'seqclass')
LAZY = ('generator', 'iterator', 'map', 'dictvalues', 'set', 'frozenset', 'iterclass')
HIST_CONTAINERS = ('list', 'list', 'list', 'tuple', 'deque', 'seqclass', 'dictvalues')
HIST_OPS = ('none', 'set', 'replace', 'append', 'pop', 'swap', 'rebuild', 'other')
STRUCTURAL = ('replace', 'append', 'pop', 'swap')


def full_opts(opts):
    o = dict(DEFAULT_OPTS)
    o.update(opts or {})
    return o


def source(channel, mapping, rot, names, opts=None, loops=1):
    """All ten statistics of each variable; with several variables the accesses are interleaved
    (or grouped by variable).  loops=2: the same loop twice with a call of ``mut`` in between."""
    o = full_opts(opts)
    order = STATS[rot:] + STATS[:rot]
    if o['layout'] == 'grouped':
        slots = [(s, nm) for nm in names for s in order]
    else:
        slots = [(s, nm) for s in order for nm in names]
    ref = {'name': 'seq', 'expr': '"seq"', 'expr=': 'expr="seq"'}[o['form']]
    attrs = ' mapping' if mapping else ''
    for k in BATCH_KEYS:
        if o['batch'] and k in o['batch']:
            attrs += ' %s=%s' % (k, 'b_' + k if o['batch_names'] else o['batch'][k])
    attrs += {'': '', 'reverse': ' reverse', 'sort': ' sort=%s' % names[0],
              'reverse_expr': ' reverse_expr="1"', 'sort_expr': ' sort_expr="\'%s\'"' % names[0]}[o['order']]
    guard = {'end': 'sequence-end', 'start': 'sequence-start', 'every': None}[o['where']]
    head = '<dtml-in %s%s>' % (ref, attrs) + ('<dtml-if %s>' % guard if guard else '')
    if channel == 'var':
        body = MARK + SEP.join('<dtml-var %s-%s>' % (s, nm) for s, nm in slots) + MARK
    else:
        body = ''.join('<dtml-call "rec((\'%s\', \'%s\'), _[\'%s-%s\'])">' % (s, nm, s, nm)
                       for s, nm in slots)
    loop = head + body + ('</dtml-if>' if guard else '') + '</dtml-in>'
    if loops == 2:
        return loop + GAP + '<dtml-call "mut()">' + loop, slots
    return loop, slots


class Both(dict):
    """An element that is a mapping and offers its keys as attributes as well."""
    __hash__ = object.__hash__

    def __getattr__(self, name):
        try:
            return self[name]
        except KeyError:
            raise AttributeError(name)


class Seq:
    """A sequence in the narrow sense: subscription and length, nothing else."""

    def __init__(self, items):
        self._items = items

    def __getitem__(self, i):
        if not isinstance(i, int):
            raise TypeError(i)
        return self._items[i]

    def __len__(self):
        return len(self._items)


class Iterable:
    """Iteration only."""

    def __init__(self, items):
        self._items = items

    def __iter__(self):
        return iter(list(self._items))


def new_item(kind, values):
    if kind == 'dict':
        return dict(values)
    if kind == 'both':
        return Both(values)
    it = Item()
    for k, v in values.items():
        setattr(it, k, v)
    return it


def set_value(kind, item, name, value):
    if kind == 'item':
        setattr(item, name, value)
    else:
        item[name] = value


def make_items(variables, kind):
    length = len(variables[0][1])
    return [new_item(kind, {nm: vals[i] for nm, vals in variables}) for i in range(length)]


def make_container(kind, items):
    if kind == 'list':
        return items
    if kind == 'tuple':
        return tuple(items)
    if kind == 'deque':
        return collections.deque(items)
    if kind == 'seqclass':
        return Seq(items)
    if kind == 'generator':
        return (it for it in items)
    if kind == 'iterator':
        return iter(items)
    if kind == 'map':
        return map(lambda it: it, items)
    if kind == 'dictvalues':
        return dict(enumerate(items)).values()
    if kind == 'set':
        return set(items)
    if kind == 'frozenset':
        return frozenset(items)
    if kind == 'iterclass':
        return Iterable(items)
    raise ValueError(kind)


class Unparseable(Exception):
    pass


def parse_blocks(text, nslots):
    """MARK v SEP v ... MARK, any number of times; nothing else."""
    if not isinstance(text, str):
        raise Unparseable(repr(text)[:200])
    parts = text.split(MARK)
    if len(parts) % 2 == 0 or any(parts[0::2]):
        raise Unparseable(repr(text[:200]))
    blocks = []
    for b in parts[1::2]:
        if b.count(SEP) != nslots - 1:
            raise Unparseable(repr(text[:200]))
        blocks.append(b.split(SEP))
    return blocks


class Env:
    def __init__(self, ctx):
        from DocumentTemplate import DT_InSV
        from DocumentTemplate.DT_HTML import HTML
        self.ctx = ctx
        self.HTML = HTML
        self.DT_InSV = DT_InSV
        self.cache = {}
        self.calls = []
        self.samples = {}
        self._other = None

    def install(self):
        """Counting wrapper on the statistics entries of the real dispatch table (diagnosis only:
        which prefix led to the computation; the verdict never depends on it)."""
        sv = self.DT_InSV.sequence_variables
        real = getattr(sv, 'statistics', None)
        table = getattr(sv, 'special_prefixes', None)
        if real is None or not isinstance(table, dict):
            self.ctx.count('dispatch:table entries wrapped', 0)
            return
        calls = self.calls

        def statistics(self_, name, key):
            calls.append((name, key))
            return real(self_, name, key)
        statistics.__wrapped__ = real
        n = 0
        for k, v in list(table.items()):
            if v is real:
                table[k] = statistics
                n += 1
        self.ctx.count('dispatch:table entries wrapped', n)

    def template(self, channel, mapping, rot, names, opts=None, loops=1, fresh=False):
        if opts is None and loops == 1:
            k = (channel, mapping, rot, names)
        else:
            o = full_opts(opts)
            k = (channel, mapping, rot, names, loops, o['where'], o['batch_names'], o['order'], o['form'],
                 o['layout'], tuple(sorted((o['batch'] or {}).items())))
        t = None if fresh else self.cache.get(k)
        if t is None:
            src, slots = source(channel, mapping, rot, names, opts, loops)
            t = (self.HTML(src), slots)
            if len(self.cache) < 4000:
                self.cache[k] = t
            self.ctx.count('templates compiled')
        return t

    def other(self):
        """An unrelated render in between (its own list, its own template)."""
        if self._other is None:
            self._other = self.HTML('<dtml-in seq mapping><dtml-if sequence-end>'
                                    '<dtml-var total-x>/<dtml-var count-x></dtml-if></dtml-in>')
        return self._other(seq=[{'x': 1}, {'x': 2}, {'x': 4}])

    def render(self, tmpl, slots, channel, seq, uses_mv, kw=None, mut=None):
        """Render once; returns the emitted blocks, one list per loop: [[{slot: raw}, ...], ...]."""
        ctx = self.ctx
        kw = dict(kw or {})
        got = {}
        groups = []

        def rec(k, v):
            got.setdefault(k, []).append(v)

        def cut():
            groups.append(dict(got))
            got.clear()

        if mut is not None:
            def mut_():
                cut()
                mut()
            kw['mut'] = mut_
        if channel == 'expr':
            kw['rec'] = rec
        del self.calls[:]
        if uses_mv:
            self.DT_InSV.mv = MISSING
            ctx.count('data:renders with the simulated Missing.Value')
        try:
            out = tmpl(seq=seq, **kw)
        finally:
            if uses_mv:
                self.DT_InSV.mv = None
        cut()
        if channel == 'var':
            texts = out.split(GAP) if isinstance(out, str) else [out]
            if len(texts) != len(groups):
                raise Unparseable(repr(out)[:200])
            return [[dict(zip(slots, b)) for b in parse_blocks(t, len(slots))] for t in texts]
        res = []
        for g in groups:
            if not g:
                res.append([])
                continue
            if set(g) != set(slots) or len({len(v) for v in g.values()}) != 1:
                raise Unparseable('recorder saw %r, expected every one of %r equally often'
                                  % (sorted((k, len(v)) for k, v in g.items()), slots))
            n = len(g[slots[0]])
            res.append([{k: g[k][j] for k in slots} for j in range(n)])
        return res


def digest(desc):
    return hashlib.blake2b(repr(desc).encode('utf-8', 'backslashreplace'), digest_size=5).hexdigest()


def dispatch_tables(ctx, env):
    seen = set()
    for nm, key in env.calls:
        if nm not in seen:      # first entry for this variable: the access that computed its ten values
            seen.add(nm)
            ctx.table('statistics() entered through prefix', key[:-len(nm) - 1] if nm else key)
    ctx.count('dispatch:statistics() calls', len(env.calls))


def judge_blocks(ctx, case, desc, blocks, variables, models, channel, mapping, label=''):
    """Every emitted block against the model of every variable; True when all of them agree."""
    clean = True
    for j, raw in enumerate(blocks):
        for nm, vals in variables:
            m = models[nm]
            obs = {s: Obs(channel, raw[(s, nm)]) for s in STATS}
            problems = judge(m, obs, ctx.count)
            for stat, msg, mech in problems:
                clean = False
                ctx.count('problems:' + stat)
                ctx.violation('%s [x=%s, data %r, %s, %s%s%s]'
                              % (msg, nm, enc(vals), channel, 'mapping' if mapping else 'attributes',
                                 '' if len(blocks) == 1 else ', emission %d of %d' % (j + 1, len(blocks)),
                                 label),
                              case, mech=mech, key='%s_%s' % (stat, digest(desc)),
                              detail={'variable': nm, 'observed': {s: obs[s].show() for s in STATS}})
    return clean


def render_error(ctx, case, desc, e, encd, models, label=''):
    mech = None
    for m in models.values():
        mech = mech or classify_exception(e, m)
    ctx.count('renders that raised')
    ctx.violation('rendering the statistics of %r raised %s: %s%s'
                  % (encd, type(e).__name__, str(e)[:120], label), case, mech=mech,
                  key='raise_%s_%s' % (type(e).__name__, digest(desc)))


def evaluate(ctx, env, variables, mapping, channel, rot, container='list', origin='seeded', opts=None):
    """variables: [(name, values)] — one or more data variables of the same items.

    opts None: the plain loop of the first two parts (statistics on the last element); otherwise
    a dict with the keys of DEFAULT_OPTS (a "shape")."""
    names = tuple(nm for nm, _ in variables)
    models = {nm: model(vals) for nm, vals in variables}
    encd = [[nm, enc(vals)] for nm, vals in variables]
    shape = opts is not None
    o = full_opts(opts)
    if shape:
        desc = (repr(encd), mapping, channel, rot, container, repr(sorted(o.items())))
    else:
        desc = (repr(encd), mapping, channel, rot)
    case = {'variables': encd, 'mapping': mapping, 'channel': channel, 'rot': rot,
            'container': container, 'origin': origin}
    if shape:
        case['opts'] = o
    ctx.case(desc, any(m['n'] >= 2 for m in models.values()))
    tmpl, slots = env.template(channel, mapping, rot, names, opts)
    length = len(variables[0][1])
    kind = o['items'] or ('dict' if mapping else 'item')
    seq = make_container(container, make_items(variables, kind))
    uses_mv = any(v is MISSING for _, vals in variables for v in vals)
    kw = {}
    if o['batch'] and o['batch_names']:
        kw = {'b_' + k: v for k, v in o['batch'].items()}
    try:
        groups = env.render(tmpl, slots, channel, seq, uses_mv, kw)
    except Unparseable as e:
        ctx.violation('unparseable output / record: %s' % (e,), case, key='parse_' + digest(desc))
        return
    except Exception as e:
        render_error(ctx, case, desc, e, encd, models)
        return
    blocks = groups[0]
    ctx.count('renders observed')
    ctx.table('mode', '%s/%s' % (channel, 'mapping' if mapping else 'attributes'))
    ctx.table('variables per render', len(variables))
    ctx.table('first-accessed statistic', slots[0][0])
    dispatch_tables(ctx, env)
    if o['where'] == 'every':
        want_blocks = len(blocks) >= 1 and (o['batch'] is not None or len(blocks) == length)
    else:
        want_blocks = len(blocks) == 1
    if not want_blocks:
        ctx.violation('the statistics were emitted %d times (where=%s, %d items, batch %r)'
                      % (len(blocks), o['where'], length, o['batch']), case, key='blocks_' + digest(desc))
        return
    if shape:
        lazy = container in LAZY
        ctx.count('shape:renders compared')
        ctx.table('shape container', container)
        ctx.table('shape where', o['where'])
        ctx.table('shape order', o['order'] or 'plain')
        ctx.table('shape form', o['form'])
        ctx.table('shape layout x variables', '%s/%d' % (o['layout'], len(variables)))
        ctx.table('shape items', kind)
        ctx.table('shape batch', ('+'.join(k for k in BATCH_KEYS if k in o['batch'])
                                  + ('/by-name' if o['batch_names'] else '/literal')) if o['batch'] else 'none')
        ctx.count('shape:emissions judged', len(blocks))
        if lazy and o['batch'] and len(variables) > 1:
            ctx.count('shape:wrapped (non-subscriptable) container + batch + several variables')
            b = o['batch']
            if length > 2 and (b.get('size', 99) < length - 1 or b.get('end', 99) < length - 1):
                ctx.count('shape:... and the batch ends well before the sequence does')
        if lazy and o['batch']:
            ctx.count('shape:wrapped (non-subscriptable) container + batch')
    for nm, vals in variables:
        m = models[nm]
        ctx.table('data class x length', '%s/%d' % (m['cls'], length))
        ctx.table('non-missing count', m['n'])
        if any(is_missing(v) for v in vals):
            ctx.count('data:lists containing missing values')
    label = ''
    if shape:
        label = ', %s of %s elements, <dtml-in %s%s%s>, statistics emitted on %s' % (
            container, kind, o['form'],
            ''.join(' %s=%s' % (k, o['batch'][k]) for k in BATCH_KEYS if o['batch'] and k in o['batch']),
            ' ' + o['order'] if o['order'] else '',
            {'end': 'the last displayed element', 'start': 'the first displayed element',
             'every': 'every element'}[o['where']])
    clean = judge_blocks(ctx, case, desc, blocks, variables, models, channel, mapping, label)
    raw = blocks[0]
    kindk = ('shape:' if shape else '') + '+'.join(models[nm]['cls'] for nm in names)
    if clean and kindk not in env.samples and len(env.samples) < 5 and models[names[0]]['n'] >= 3:
        env.samples[kindk] = 1
        smp = {'variables': encd, 'mapping': mapping, 'channel': channel,
               'first_accessed': '%s-%s' % slots[0],
               'observed': {'%s-%s' % k: repr(v) for k, v in raw.items()}}
        if shape:
            smp['container'] = container
            smp['opts'] = o
        ctx.sample(smp)


def all_modes(ctx, env, variables, i, origin):
    for j, (channel, mapping) in enumerate(MODES):
        rot = (i + 3 * j) % len(STATS)
        container = 'tuple' if (i + j) % 3 == 0 else 'list'
        evaluate(ctx, env, variables, mapping, channel, rot, container, origin)


def with_mv(values):
    """Every other missing value (starting with the first) becomes the simulated Missing.Value."""
    out, k = [], 0
    for v in values:
        if v is None:
            out.append(MISSING if k % 2 == 0 else None)
            k += 1
        else:
            out.append(v)
    return out


# ---------------------------------------------------------------- histories
class Box:
    """The application's container object; it stays the same object while its content changes."""

    def __init__(self, kind, items):
        self.kind = kind
        self.items = items
        self.build()

    def build(self):
        k, items = self.kind, self.items
        if k == 'list':
            self.seq = items
        elif k == 'seqclass':
            self.seq = Seq(items)           # shares the list
        elif k == 'tuple':
            self.seq = tuple(items)
        elif k == 'deque':
            self.seq = collections.deque(items)
        elif k == 'dictvalues':
            self.d = dict(enumerate(items))
            self.seq = self.d.values()
        else:
            raise ValueError(k)

    def sync(self):
        """After a structural change of ``items``: the same container object follows where it can."""
        k = self.kind
        if k == 'tuple':
            self.seq = tuple(self.items)    # immutable: the application has to build another one
        elif k == 'deque':
            self.seq.clear()
            self.seq.extend(self.items)
        elif k == 'dictvalues':
            self.d.clear()
            self.d.update(enumerate(self.items))

    def rebuild(self):
        """A new container object holding the same elements."""
        self.items = list(self.items)
        self.build()


class History:
    def __init__(self, ctx, env, h):
        self.ctx, self.env, self.h = ctx, env, h
        self.names = list(h['names'])
        self.kind = h['itemkind']
        self.cur = {nm: dec(vals) for nm, vals in h['values']}
        self.box = Box(h['container'], make_items([(nm, self.cur[nm]) for nm in self.names], self.kind))
        self.uses_mv = "{'mv': 1}" in repr(h)

    def apply(self, op):
        cur, box, names = self.cur, self.box, self.names
        n = len(cur[names[0]])
        what = op[0]
        if what == 'set':
            i, nm, v = op[1] % n, op[2], dec([op[3]])[0]
            cur[nm][i] = v
            set_value(self.kind, box.items[i], nm, v)
        elif what == 'replace':
            i = op[1] % n
            vals = {nm: dec([op[2][nm]])[0] for nm in names}
            for nm in names:
                cur[nm][i] = vals[nm]
            box.items[i] = new_item(self.kind, vals)
            box.sync()
        elif what == 'append':
            vals = {nm: dec([op[1][nm]])[0] for nm in names}
            for nm in names:
                cur[nm].append(vals[nm])
            box.items.append(new_item(self.kind, vals))
            box.sync()
        elif what == 'pop':
            if n > 1:
                i = op[1] % n
                for nm in names:
                    cur[nm].pop(i)
                box.items.pop(i)
                box.sync()
        elif what == 'swap':
            i, j = op[1] % n, op[2] % n
            for nm in names:
                cur[nm][i], cur[nm][j] = cur[nm][j], cur[nm][i]
            box.items[i], box.items[j] = box.items[j], box.items[i]
            box.sync()
        elif what == 'rebuild':
            box.rebuild()
        elif what == 'other':
            self.env.other()
        elif what != 'none':
            raise ValueError(op)

    def run(self, origin):
        ctx, env, h = self.ctx, self.env, self.h
        changed = False
        for k, step in enumerate(h['steps']):
            op = step['op']
            self.apply(op)
            if op[0] not in ('none', 'other'):
                changed = True
            ask = tuple(step.get('ask') or self.names)
            mapping, channel, rot = step['mapping'], step['channel'], step['rot']
            inline = step.get('inline')
            opts = step.get('opts')
            desc = ('history', repr(h['values']), h['itemkind'], h['container'], repr(h['steps'][:k + 1]))
            case = {'history': h, 'failed_step': k, 'origin': origin}
            label = ', step %d of a history on one %s object (operations so far: %s)' % (
                k + 1, h['container'], ' '.join(s['op'][0] + ('+inline-' + s['inline'][0] if s.get('inline') else '')
                                                for s in h['steps'][:k + 1]))
            before = [(nm, list(self.cur[nm])) for nm in ask]
            models = {nm: model(vals) for nm, vals in before}
            ctx.case(desc, any(m['n'] >= 2 for m in models.values()))
            tmpl, slots = env.template(channel, mapping, rot, ask, opts, 2 if inline else 1,
                                       fresh=step.get('fresh', False))
            mut = (lambda: self.apply(inline)) if inline else None
            try:
                groups = env.render(tmpl, slots, channel, self.box.seq, self.uses_mv, None, mut)
            except Unparseable as e:
                ctx.violation('unparseable output / record: %s%s' % (e, label), case, key='parse_' + digest(desc))
                return
            except Exception as e:
                render_error(ctx, case, desc, e, [[nm, enc(v)] for nm, v in before], models, label)
                return
            dispatch_tables(ctx, env)
            ctx.count('history:renders compared')
            ctx.table('history operation before the render', op[0])
            ctx.table('history container', h['container'])
            ctx.table('history items', h['itemkind'])
            ctx.table('history mode', '%s/%s' % (channel, 'mapping' if mapping else 'attributes'))
            ctx.table('first-accessed statistic', slots[0][0])
            if changed:
                ctx.count('history:renders after an in-place change')
            if k and not step.get('fresh'):
                ctx.count('history:renders through an already used template')
            if k and step.get('fresh'):
                ctx.count('history:renders through a newly compiled template')
            after = [(nm, list(self.cur[nm])) for nm in ask]
            stages = [(before, models, '')]
            if inline:
                ctx.count('history:two dtml-in tags in one template with a change in between')
                ctx.table('history operation between two tags', inline[0])
                stages = [(before, models, ', first tag'),
                          (after, {nm: model(vals) for nm, vals in after}, ', second tag (after %s)' % inline[0])]
                if inline[0] not in ('none', 'other'):
                    changed = True
            if len(groups) != len(stages) or any(len(g) != 1 for g in groups):
                ctx.violation('the statistics were emitted %r times%s' % ([len(g) for g in groups], label),
                              case, key='blocks_' + digest(desc))
                return
            clean = True
            for blocks, (variables, mods, lab) in zip(groups, stages):
                clean = judge_blocks(ctx, case, desc, blocks, variables, mods, channel, mapping,
                                     label + lab) and clean
            if not clean:
                return      # later steps of a history that went wrong are not independent evidence
        if 'history' not in env.samples and len(h['steps']) >= 3 and origin == 'seeded':
            env.samples['history'] = 1
            ctx.sample({'history': h, 'verdict': 'every render agreed with the model of the current values'})


def hist_modes(itemkind):
    return [(c, m) for c, m in MODES if itemkind == 'both' or m == (itemkind == 'dict')]


def exhaustive_histories(tier):
    """[values] -> render -> one value changed in place -> render, over the small domains."""
    for dom in (DOM_NUM, DOM_STR):
        for L in range(1, EXH_HIST_LEN[tier] + 1):
            for t in itertools.product(dom, repeat=L):
                for i in range(L):
                    for v in dom:
                        if v != t[i]:
                            yield list(t), i, v


def count_exhaustive_histories(tier):
    return sum(1 for _ in exhaustive_histories(tier))


def gen_history(rng):
    nvars = 1 if rng.random() < 0.7 else 2
    names = rng.sample(NAMES, nvars)
    n = rng.randint(1, 8)
    pools, values = {}, []
    for nm in names:
        kind, vals = gen_list(rng, n)
        _, more = gen_list(rng, 10, kind)
        pools[nm] = enc(more)
        values.append([nm, enc(vals)])
    itemkind = rng.choice(['dict', 'item', 'both'])
    container = rng.choice(HIST_CONTAINERS)
    modes = hist_modes(itemkind)

    def row():
        return {nm: rng.choice(pools[nm]) for nm in names}

    def gen_op():
        what = rng.choice(HIST_OPS[1:]) if rng.random() < 0.9 else 'none'
        if what == 'set':
            nm = rng.choice(names)
            return ['set', rng.randrange(10), nm, rng.choice(pools[nm])]
        if what == 'replace':
            return ['replace', rng.randrange(10), row()]
        if what == 'append':
            return ['append', row()]
        if what == 'pop':
            return ['pop', rng.randrange(10)]
        if what == 'swap':
            return ['swap', rng.randrange(10), rng.randrange(10)]
        return [what]

    steps = []
    channel, mapping = rng.choice(modes)
    rot = rng.randrange(10)
    for k in range(rng.randint(2, 5)):
        if k and rng.random() < 0.4:        # another template: other channel / flag / first statistic
            channel, mapping = rng.choice(modes)
            rot = rng.randrange(10)
        step = {'op': ['none'] if k == 0 else gen_op(), 'mapping': mapping, 'channel': channel, 'rot': rot,
                'fresh': rng.random() < 0.25}
        if nvars == 2 and rng.random() < 0.3:
            step['ask'] = [rng.choice(names)]
        if rng.random() < 0.2:
            step['inline'] = gen_op()
            if container == 'tuple' and step['inline'][0] in STRUCTURAL:
                # a tuple cannot change under the running template; the application would have to
                # rebind the name, which is the next render of the history, not this one
                step['inline'] = ['set', rng.randrange(10), names[0], rng.choice(pools[names[0]])]
        if rng.random() < 0.15:
            step['opts'] = {'where': 'start', 'order': rng.choice(['', 'reverse'])}
        steps.append(step)
    return {'names': names, 'values': values, 'itemkind': itemkind, 'container': container, 'steps': steps}


# ---------------------------------------------------------------- shapes
def gen_batch(rng, n):
    keys = rng.choice([('size',), ('size',), ('start',), ('end',), ('size', 'start'), ('size', 'start'),
                       ('start', 'end'), ('size', 'end'), ('size', 'start', 'end')])
    b = {}
    for k in keys:
        b[k] = rng.randint(1, n + 1) if k == 'size' else rng.randint(1, n + 2)
    if rng.random() < 0.3:
        b['orphan'] = rng.randint(0, 3)
    if rng.random() < 0.3:
        b['overlap'] = rng.randint(0, 2)
    return b


def gen_shape(rng, mapping, n, uses_mv):
    container = rng.choice(LAZY) if rng.random() < 0.7 else rng.choice(DIRECT)
    hashable = container in ('set', 'frozenset')
    if rng.random() < 0.25:
        items = 'both'
    elif mapping:
        items = 'both' if hashable else 'dict'
    else:
        items = 'item'
    opts = {'where': rng.choice(WHERES), 'items': items,
            'batch': gen_batch(rng, n) if rng.random() < 0.65 else None,
            'batch_names': rng.random() < 0.3,
            'order': rng.choice(ORDERS) if rng.random() < 0.4 else '',
            'form': rng.choice(FORMS) if rng.random() < 0.3 else 'name',
            'layout': rng.choice(['interleaved', 'grouped'])}
    if uses_mv and opts['order'] in ('sort', 'sort_expr'):
        opts['order'] = 'reverse'       # no ordering is documented for Missing.Value
    return container, opts


def shape_case(ctx, env, rng, variables):
    uses_mv = any(v is MISSING for _, vals in variables for v in vals)
    channel, mapping = rng.choice(MODES)
    container, opts = gen_shape(rng, mapping, len(variables[0][1]), uses_mv)
    evaluate(ctx, env, variables, mapping, channel, rng.randrange(10), container, 'shape', opts)


# ---------------------------------------------------------------- generators
ALPHA = 'ABCXYZabcxyz019 .-é'
KINDS = ['int', 'int', 'smallint', 'float', 'float', 'smallfloat', 'mix', 'mix', 'const-int',
         'const-float', 'const-float', 'near-const', 'str', 'str', 'numstr']


def gen_list(rng, n=None, kind=None):
    n = n or rng.randint(1, 10)
    kind = kind or rng.choice(KINDS)
    if kind == 'int':
        vals = [rng.randint(-10 ** 6, 10 ** 6) for _ in range(n)]
    elif kind == 'smallint':
        vals = [rng.randint(-5, 5) for _ in range(n)]
    elif kind == 'float':
        vals = [rng.randint(-10 ** 6, 10 ** 6) / 1000 for _ in range(n)]
    elif kind == 'smallfloat':
        vals = [rng.randint(-30, 30) / 10 for _ in range(n)]
    elif kind == 'mix':
        vals = [rng.randint(-1000, 1000) if rng.random() < 0.5 else rng.randint(-10 ** 5, 10 ** 5) / 100
                for _ in range(n)]
    elif kind == 'const-int':
        vals = [rng.randint(-10 ** 6, 10 ** 6)] * n
    elif kind == 'const-float':
        d = rng.choice([10, 100, 1000])
        vals = [rng.randint(-10 ** 6, 10 ** 6) / d] * n
    elif kind == 'near-const':
        c = rng.randint(-10 ** 6, 10 ** 6) / 1000
        vals = [round(c + rng.choice([0, 0, 0.001, -0.001, 0.01]), 3) for _ in range(n)]
    elif kind == 'str':
        pool = [''.join(rng.choice(ALPHA) for _ in range(rng.randint(1, 6)))
                for _ in range(rng.randint(1, n))]
        vals = [rng.choice(pool) for _ in range(n)]
        if rng.random() < 0.03:
            vals[rng.randrange(n)] = ''
    else:
        vals = [str(rng.choice([rng.randint(-50, 50), rng.randint(-500, 500) / 10])) for _ in range(n)]
    r = rng.random()
    if r < 0.35:
        vals = [None if rng.random() < 0.25 else v for v in vals]
    elif r < 0.37:
        vals = [None] * n
    if any(v is None for v in vals) and rng.random() < 0.2:
        vals = with_mv(vals)
    return kind, vals


def gen_variables(rng, maxvars=2, p_more=0.3):
    kind, vals = gen_list(rng)
    nm = rng.choice(NAMES)
    variables = [(nm, vals)]
    while len(variables) < maxvars and rng.random() < p_more:
        _, vals2 = gen_list(rng, len(vals))
        variables.append((rng.choice([x for x in NAMES if x not in [v[0] for v in variables]]), vals2))
    return variables


def exhaustive(tier):
    for dom in (DOM_NUM, DOM_STR, DOM_STR2):
        for L in range(1, EXH_LEN[tier] + 1):
            for t in itertools.product(dom, repeat=L):
                yield list(t)


def run(ctx, spec):
    from DocumentTemplate import DT_InSV
    from vlib.reach import Reach
    reach = Reach()
    sv = DT_InSV.sequence_variables
    for label in ('statistics', '__getitem__'):     # diagnosis: absent after a refactoring is no error
        f = getattr(sv, label, None)
        if f is not None:
            reach.watch('sequence_variables.' + label, f)
    reach.start()
    env = Env(ctx)
    env.install()
    for i, vals in enumerate(exhaustive(ctx.tier)):
        if i % ctx.nshards != ctx.shard:
            continue
        ctx.count('lists:exhaustive')
        if i % 7 == 3 and any(v is None for v in vals):
            vals = with_mv(vals)
        all_modes(ctx, env, [(NAMES[(i // ctx.nshards) % len(NAMES)], vals)], i, 'exhaustive')
    rng = ctx.rng
    per = SEEDED[ctx.tier] // ctx.nshards
    for i in range(per):
        kind, vals = gen_list(rng)
        ctx.count('lists:seeded')
        ctx.table('seeded kind', kind)
        nm = rng.choice(NAMES)
        variables = [(nm, vals)]
        if rng.random() < 0.3:
            # a second data variable of the same items, summarised in the same loop
            kind2, vals2 = gen_list(rng, len(vals))
            ctx.count('lists:seeded (second variable of a render)')
            ctx.table('seeded kind', kind2)
            variables.append((rng.choice([x for x in NAMES if x != nm]), vals2))
        all_modes(ctx, env, variables, rng.randrange(10), 'seeded')

    # ---- shapes: other containers, batch options, emission points, orders, tag forms
    for i, vals in enumerate(exhaustive('quick')):
        if len(vals) < 2 or i % ctx.nshards != ctx.shard:
            continue
        ctx.count('shape:lists from the exhaustive domains')
        variables = [(NAMES[i % len(NAMES)], vals)]
        if i % 2:
            variables.append((NAMES[(i + 1 + i // 7 % 4) % len(NAMES)], vals[1:] + vals[:1]))
        shape_case(ctx, env, rng, variables)
    for i in range(SHAPES[ctx.tier] // ctx.nshards):
        ctx.count('shape:lists seeded')
        shape_case(ctx, env, rng, gen_variables(rng, maxvars=3, p_more=0.5))

    # ---- histories: one container object, changed in place between the renders
    for i, (vals, pos, v) in enumerate(exhaustive_histories(ctx.tier)):
        if i % ctx.nshards != ctx.shard:
            continue
        ctx.count('history:exhaustive single-change histories')
        j = i // ctx.nshards
        itemkind = ('dict', 'item', 'both')[j % 3]
        channel, mapping = hist_modes(itemkind)[(j // 3) % len(hist_modes(itemkind))]
        nm = NAMES[j % len(NAMES)]
        step = {'mapping': mapping, 'channel': channel, 'rot': j % 10, 'fresh': False}
        h = {'names': [nm], 'values': [[nm, enc(vals)]], 'itemkind': itemkind,
             'container': 'list' if j % 4 else 'seqclass',
             'steps': [dict(step, op=['none']), dict(step, op=['set', pos, nm, enc([v])[0]])]}
        History(ctx, env, h).run('exhaustive')
    for i in range(HISTORIES[ctx.tier] // ctx.nshards):
        ctx.count('history:seeded histories')
        History(ctx, env, gen_history(rng)).run('seeded')
    reach.stop()
    reach.report(ctx)


def finish(agg):
    c = agg['counters']
    t = agg['tables']
    tier = agg['tier']
    inc = []
    diag = []
    # -- diagnosis of engine internals: reported, never verdict-bearing while the outputs were compared
    for r in ('reach:sequence_variables.statistics', 'reach:sequence_variables.__getitem__'):
        if not c.get(r):
            diag.append('anchor never entered (renamed / rewired?): ' + r)
    if not c.get('dispatch:statistics() calls'):
        diag.append('the wrapper on the statistics dispatch entries never fired')
    if c.get('dispatch:table entries wrapped', 0) < len(STATS):
        diag.append('fewer than ten dispatch-table entries point at sequence_variables.statistics')
    for s in STATS:
        if not t.get('statistics() entered through prefix', {}).get(s):
            diag.append('statistics() never seen entered through prefix: ' + s)
    # -- deciding parts: the output comparisons
    if not c.get('renders observed'):
        inc.append('no render was observed')
    for s in STATS:
        if not t.get('first-accessed statistic', {}).get(s):
            inc.append('statistic never the first one accessed: ' + s)
        if not any(k.startswith('compared:%s ' % s) or k == 'compared:' + s for k in c):
            inc.append('statistic never compared: ' + s)
    for ch, mp in MODES:
        k = '%s/%s' % (ch, 'mapping' if mp else 'attributes')
        if not t.get('mode', {}).get(k):
            inc.append('mode never observed: ' + k)
        if not t.get('history mode', {}).get(k):
            inc.append('history mode never observed: ' + k)
    for k in ('compared:median (even count, must lie between the middle values)',
              'compared:median (text, even count)', 'compared:median (text, odd count)',
              'compared:total (must be empty, text data)', 'compared:total (exact)',
              'compared:total (tolerance)', 'compared:variance (tolerance)',
              'data:lists containing missing values', 'data:renders with the simulated Missing.Value',
              'shape:renders compared', 'shape:emissions judged',
              'shape:wrapped (non-subscriptable) container + batch',
              'shape:wrapped (non-subscriptable) container + batch + several variables',
              'shape:... and the batch ends well before the sequence does',
              'history:renders compared', 'history:renders after an in-place change',
              'history:renders through an already used template',
              'history:renders through a newly compiled template',
              'history:two dtml-in tags in one template with a change in between'):
        if not c.get(k):
            inc.append('never evaluated: ' + k)
    if not t.get('seeded kind', {}).get('const-float'):
        inc.append('no constant float list generated')
    if not t.get('variables per render', {}).get('2'):
        inc.append('no render summarised two variables at once')
    for name, keys in (('shape container', DIRECT + LAZY), ('shape where', WHERES),
                       ('shape order', tuple(o or 'plain' for o in ORDERS)), ('shape form', FORMS),
                       ('shape items', ('dict', 'item', 'both')),
                       ('history operation before the render', HIST_OPS),
                       ('history operation between two tags', ('set', 'replace', 'append')),
                       ('history container', tuple(set(HIST_CONTAINERS))),
                       ('history items', ('dict', 'item', 'both'))):
        for k in keys:
            if not t.get(name, {}).get(k):
                inc.append('%s never evaluated: %s' % (name, k))
    nexh = sum(len(d) ** L for d in (DOM_NUM, DOM_STR, DOM_STR2) for L in range(1, EXH_LEN[tier] + 1))
    if c.get('lists:exhaustive', 0) != nexh:
        inc.append('exhaustive part incomplete: %s of %d lists' % (c.get('lists:exhaustive'), nexh))
    nhist = count_exhaustive_histories(tier)
    if c.get('history:exhaustive single-change histories', 0) != nhist:
        inc.append('exhaustive histories incomplete: %s of %d'
                   % (c.get('history:exhaustive single-change histories'), nhist))
    return {'inconclusive': inc,
            'coverage': {'exhaustive': True,
                         'exhaustive_scope': 'all lists of length 1..%d over %r, %r and %r, each in 4 modes; all '
                                             'render / change-one-value-in-place / render histories on lists '
                                             'of length 1..%d over the first two domains'
                                             % (EXH_LEN[tier], DOM_NUM, DOM_STR, DOM_STR2, EXH_HIST_LEN[tier]),
                         'exhaustive_lists': nexh,
                         'exhaustive_histories': nhist,
                         'seeded_lists': c.get('lists:seeded', 0)
                         + c.get('lists:seeded (second variable of a render)', 0),
                         'shape_renders': c.get('shape:renders compared', 0),
                         'history_renders': c.get('history:renders compared', 0),
                         'internals_diagnosis': diag,
                         'explanation': 'exhaustive inside the stated domains; seeded lists, shapes and '
                                        'histories are extra'}}


def replay(ctx, rep):
    c = rep['case']
    env = Env(ctx)
    env.install()
    if 'history' in c:
        History(ctx, env, c['history']).run(c.get('origin', 'replay'))
        return
    variables = [(nm, dec(vals)) for nm, vals in c['variables']]
    evaluate(ctx, env, variables, c['mapping'], c['channel'], c['rot'],
             c.get('container', 'list'), c.get('origin', 'replay'), c.get('opts'))
