"""C16 — summary statistics inside dtml-in equal independently computed values.

Monitor: a dtml-in body that, on the last element, emits all ten statistics of one data
variable — once through ``<dtml-var stat-name>`` (rendered text) and once through the
expression ``_['stat-name']`` handed to a recording callable (the real objects) — with and
without ``mapping``; the order of the ten accesses is rotated so that every statistic name is
the *first* one asked for (only the first access runs the real ``statistics``; the others read
its cache).  A counting wrapper on the dispatch table entries records which prefix entered
``sequence_variables.statistics``.
Oracle: exact rational arithmetic (``fractions.Fraction``) written from the "Summary
statistics" section of the DT_In docstring and the property statement.
"""
import hashlib
import itertools
import math
import numbers
import re
from fractions import Fraction

ID = 'C16'
LEVEL = 'exploration'
RULE = ('exhaustive lists of length 1..4 (thorough 1..5) over {-2,0,1,3,0.5,2.5,None}, over '
        "{'a','b','c',None} and over the distinctive spelling {'K1','M2','P3',None}; seeded lists of "
        'length 1..10 (ints |v|<=10^6, floats with <=3 decimals, int/float mixes, constant and '
        'near-constant lists, strings; None sprinkled in; Missing.Value simulated); every list is '
        'rendered in the four modes {var,expression} x {mapping,attributes} with the first-accessed '
        'statistic rotated over all ten names and the variable name drawn from {x,n,age,count,value}; '
        '30% of the seeded renders summarise a second, independently generated variable of the same '
        'items with interleaved accesses; a case is non-trivial when at least two values of a variable '
        'are non-missing; distinct = distinct (variable names with their typed value lists, mapping, '
        'channel, rotation)')
ASSUMPTIONS = [
    'only all-numeric(+None) or all-string(+None) lists are generated (the mixes the documentation defines)',
    'ints: count/total/min/max/odd median are demanded exactly; floats and all derived statistics within '
    'relative 1e-9 + absolute 1e-12 + a first-order forward-error bound of floating-point evaluation '
    '(total: 2n*u*sum|x|; variance: 4(n+3)*u*(E[x^2]+mean^2), u=2^-53), fixed before any run',
    'statement silent, not asserted: sample variance / standard deviation for a single value; every statistic '
    'but count when all values are missing; the wording of the even-count text median (it only has to '
    'contain both middle values); which value inside the two middle values an even-count median takes',
    'a standard deviation is accepted when it lies between the roots of (variance -/+ its tolerance)',
    'the Missing package is not installed in /venv: Missing.Value is simulated by binding DT_InSV.mv to a '
    'sentinel that absorbs arithmetic like the real one',
]
SHARD_TIMEOUT = {'quick': 600, 'thorough': 3000}
NSHARDS = {'quick': 16, 'thorough': 48}
SEEDED = {'quick': 5000, 'thorough': 200000}
EXH_LEN = {'quick': 4, 'thorough': 5}

STATS = ('total', 'count', 'min', 'max', 'median', 'mean', 'variance', 'variance-n',
         'standard-deviation', 'standard-deviation-n')
NUMERIC_ONLY = ('total', 'mean', 'variance', 'variance-n', 'standard-deviation',
                'standard-deviation-n')
NAMES = ('x', 'n', 'age', 'count', 'value')
MODES = (('var', True), ('var', False), ('expr', True), ('expr', False))
SEP = '\x1f'
MARK = '\x1e'
U = 2.0 ** -53

DOM_NUM = (-2, 0, 1, 3, 0.5, 2.5, None)
DOM_STR = ('a', 'b', 'c', None)
DOM_STR2 = ('K1', 'M2', 'P3', None)

MECH_SQRT = 'sqrt-of-negative-rounding-residue'
MECH_MEDIAN = 'even-median-floor-division-of-floats'


def plan(tier, seed):
    return [{} for _ in range(NSHARDS[tier])]


# ---------------------------------------------------------------- data
class _MissingValue:
    """Stand-in for Missing.Value (bound to DT_InSV.mv while a case using it renders).

    Like the real one it absorbs arithmetic (any operation gives the missing value again), so an
    engine that forgot to set it aside would poison its sums instead of tripping over a TypeError.
    """

    def __repr__(self):
        return 'Missing.Value'

    def _absorb(self, *other):
        return self
    __add__ = __radd__ = __sub__ = __rsub__ = __mul__ = __rmul__ = _absorb
    __truediv__ = __rtruediv__ = __floordiv__ = __rfloordiv__ = __pow__ = __neg__ = _absorb


MISSING = _MissingValue()


class Item:
    """An element whose data variables are plain attributes."""


def enc(values):
    return [{'mv': 1} if v is MISSING else v for v in values]


def dec(values):
    return [MISSING if isinstance(v, dict) else v for v in values]


def is_missing(v):
    return v is None or v is MISSING


# ---------------------------------------------------------------- observation
INT_RE = re.compile(r'^-?\d+$')


class Obs:
    """One observed statistic: rendered text (var channel) or the object (expr channel)."""

    def __init__(self, channel, raw):
        self.channel = channel
        self.raw = raw

    def empty(self):
        return isinstance(self.raw, str) and self.raw == ''

    def number(self):
        r = self.raw
        if self.channel == 'var':
            if INT_RE.match(r):
                return int(r)
            try:
                f = float(r)
            except ValueError:
                return None
            return f if math.isfinite(f) else None
        if isinstance(r, bool):
            return None
        if isinstance(r, numbers.Real):
            try:
                return r if math.isfinite(r) else None
            except Exception:
                return None
        return None

    def is_text(self, want):
        return isinstance(self.raw, str) and self.raw == want

    def text(self):
        return self.raw if isinstance(self.raw, str) else None

    def show(self):
        return repr(self.raw)


# ---------------------------------------------------------------- oracle
def model(values):
    """Exact expectations from the documentation; None where the statement is silent."""
    present = [v for v in values if not is_missing(v)]
    n = len(present)
    m = {'n': n, 'present': present}
    if n == 0:
        m['cls'] = 'all-missing'
        return m
    if all(type(v) in (int, float) for v in present):
        F = [Fraction(v) for v in present]
        allint = all(type(v) is int for v in present)
        allfloat = all(type(v) is float for v in present)
        m['cls'] = 'int' if allint else ('float' if allfloat else 'int+float')
        m['numeric'] = True
        m['allint'] = allint
        total = sum(F)
        mean = total / n
        ss = sum((f - mean) ** 2 for f in F)
        m['total'] = total
        m['mean'] = mean
        m['varn'] = ss / n
        m['var'] = ss / (n - 1) if n > 1 else None
        s = sorted(F)
        m['min'], m['max'] = s[0], s[-1]
        if n % 2:
            m['median'] = s[n // 2]
        else:
            m['mid'] = (s[n // 2 - 1], s[n // 2])
        A = float(sum(abs(f) for f in F))
        Q = float(sum(f * f for f in F) / n)
        m['A'] = A
        m['fwd_total'] = 0.0 if allint else 2 * n * U * A
        m['fwd_mean'] = 2 * (n + 1) * U * A / n
        m['fwd_var'] = 4 * (n + 3) * U * (Q + float(mean * mean))
    elif all(type(v) is str for v in present):
        m['cls'] = 'str'
        m['numeric'] = False
        s = sorted(present)
        m['min'], m['max'] = s[0], s[-1]
        if n % 2:
            m['median'] = s[n // 2]
        else:
            m['mid'] = (s[n // 2 - 1], s[n // 2])
    else:
        raise ValueError('workload bug: mixed numeric/text list %r' % (values,))
    return m


def tol(want, fwd):
    return Fraction(1e-9) * abs(want) + Fraction(1e-12) + Fraction(fwd)


def strict(want):
    return Fraction(1e-9) * abs(want) + Fraction(1e-12)


def names_both(text, a, b):
    """Both strings occur in text without overlapping (the format itself is not specified)."""
    def occ(s):
        out, i = [], text.find(s)
        while i >= 0:
            out.append((i, i + len(s)))
            i = text.find(s, i + 1)
        return out
    if a == '' or b == '':
        return a in text and b in text
    for (s1, e1) in occ(a):
        for (s2, e2) in occ(b):
            if e1 <= s2 or e2 <= s1:
                return True
    return False


def judge(m, obs, note):
    """Compare the ten observations with the model; returns [(stat, message, mechanism|None)]."""
    probs = []

    def bad(stat, msg, mech=None):
        probs.append((stat, msg, mech))

    n = m['n']
    c = obs['count'].number()
    note('compared:count')
    if c is None or Fraction(c) != n:
        bad('count', 'count-x is %s, %d values are non-missing' % (obs['count'].show(), n))
    if n == 0:
        note('silent:all values missing (only count asserted)')
        return probs
    if not m['numeric']:
        for s in NUMERIC_ONLY:
            note('compared:%s (must be empty, text data)' % s)
            if not obs[s].empty():
                bad(s, '%s-x is %s for non-numeric data, expected empty' % (s, obs[s].show()))
        for s in ('min', 'max'):
            note('compared:%s (text)' % s)
            if not obs[s].is_text(m[s]):
                bad(s, '%s-x is %s, expected %r' % (s, obs[s].show(), m[s]))
        if 'median' in m:
            note('compared:median (text, odd count)')
            if not obs['median'].is_text(m['median']):
                bad('median', 'median-x is %s, expected the middle value %r'
                    % (obs['median'].show(), m['median']))
        else:
            lo, hi = m['mid']
            note('compared:median (text, even count)')
            t = obs['median'].text()
            if lo == hi and t == lo:
                pass        # the common middle value itself is "between" them
            elif t is None or not names_both(t, lo, hi):
                bad('median', 'median-x is %s, expected a text naming %r and %r'
                    % (obs['median'].show(), lo, hi))
        return probs

    # ---- numeric data
    def num(stat):
        v = obs[stat].number()
        if v is None:
            bad(stat, '%s-x is %s, expected a number' % (stat, obs[stat].show()))
        return v

    def near(stat, want, fwd, exact=False):
        note('compared:%s (%s)' % (stat, 'exact' if exact else 'tolerance'))
        v = num(stat)
        if v is None:
            return
        err = abs(Fraction(v) - want)
        if exact:
            if err:
                bad(stat, '%s-x is %s, expected exactly %s' % (stat, obs[stat].show(), show_frac(want)))
            return
        if err > tol(want, fwd):
            bad(stat, '%s-x is %s, expected %s (error %.3g > tolerance %.3g)'
                % (stat, obs[stat].show(), show_frac(want), float(err), float(tol(want, fwd))))
        elif err > strict(want):
            note('tolerance:%s error beyond 1e-9/1e-12 but inside the forward-error bound' % stat)

    near('total', m['total'], m['fwd_total'], exact=m['allint'])
    near('min', m['min'], 0, exact=True)
    near('max', m['max'], 0, exact=True)
    near('mean', m['mean'], m['fwd_mean'])
    near('variance-n', m['varn'], m['fwd_var'])

    def root(stat, want_var, fwd):
        note('compared:%s (tolerance)' % stat)
        v = num(stat)
        if v is None:
            return
        t = float(tol(want_var, fwd))
        w = float(want_var)
        lo = math.sqrt(max(0.0, w - t)) * (1 - 1e-9) - 1e-12
        hi = math.sqrt(w + t) * (1 + 1e-9) + 1e-12
        if not lo <= v <= hi:
            bad(stat, '%s-x is %s, expected sqrt(%s)=%r' % (stat, obs[stat].show(), show_frac(want_var),
                                                           math.sqrt(w)))
        elif abs(v - math.sqrt(w)) > 1e-9 * math.sqrt(w) + 1e-12:
            note('tolerance:%s error beyond 1e-9/1e-12 but inside the forward-error bound' % stat)

    root('standard-deviation-n', m['varn'], m['fwd_var'])
    if n > 1:
        fwd = m['fwd_var'] * n / (n - 1) * 1.01
        near('variance', m['var'], fwd)
        root('standard-deviation', m['var'], fwd)
    else:
        note('silent:sample variance of a single value (observed %s)'
             % ('empty' if obs['variance'].empty() else 'non-empty'))

    if 'median' in m:
        near('median', m['median'], 0, exact=True)
    else:
        lo, hi = m['mid']
        note('compared:median (even count, must lie between the middle values)')
        v = num('median')
        if v is not None:
            fv = Fraction(v)
            if lo <= fv <= hi:
                if fv * 2 != lo + hi:
                    note('median:even count, inside the middle values but not their midpoint')
                else:
                    note('median:even count, the midpoint')
            else:
                mech = None
                floaty = any(type(x) is float for x in m['present'] if Fraction(x) in (lo, hi))
                if floaty and fv == math.floor((lo + hi) / 2):
                    mech = MECH_MEDIAN
                bad('median', 'median-x is %s, outside the two middle values %s and %s'
                    % (obs['median'].show(), show_frac(lo), show_frac(hi)), mech)
    return probs


def show_frac(f):
    f = Fraction(f)
    return str(f.numerator) if f.denominator == 1 else '%s (=%r)' % (f, float(f))


def classify_exception(exc, m):
    """Mechanism of a render error, from the data alone."""
    if (type(exc) is ValueError and 'math domain error' in str(exc) and m.get('numeric')
            and float(m['varn']) <= m['fwd_var']):
        # the true variance is (next to) zero relative to the magnitude of the data, so a one-pass
        # floating-point evaluation can land below zero; sqrt() of that residue raises
        return MECH_SQRT
    return None


# ---------------------------------------------------------------- harness
def source(channel, mapping, rot, names):
    """All ten statistics of each variable; with two variables the accesses are interleaved."""
    order = STATS[rot:] + STATS[:rot]
    slots = [(s, nm) for s in order for nm in names]
    head = '<dtml-in seq%s><dtml-if sequence-end>' % (' mapping' if mapping else '')
    if channel == 'var':
        body = MARK + SEP.join('<dtml-var %s-%s>' % (s, nm) for s, nm in slots) + MARK
    else:
        body = ''.join('<dtml-call "rec((\'%s\', \'%s\'), _[\'%s-%s\'])">' % (s, nm, s, nm)
                       for s, nm in slots)
    return head + body + '</dtml-if></dtml-in>', slots


class Env:
    def __init__(self, ctx):
        from DocumentTemplate import DT_InSV
        from DocumentTemplate.DT_HTML import HTML
        self.ctx = ctx
        self.HTML = HTML
        self.DT_InSV = DT_InSV
        self.cache = {}
        self.calls = []
        self.samples = {}

    def install(self):
        """Counting wrapper on the statistics entries of the real dispatch table."""
        sv = self.DT_InSV.sequence_variables
        real = sv.statistics
        calls = self.calls

        def statistics(self_, name, key):
            calls.append((name, key))
            return real(self_, name, key)
        statistics.__wrapped__ = real
        n = 0
        for k, v in list(sv.special_prefixes.items()):
            if v is real:
                sv.special_prefixes[k] = statistics
                n += 1
        self.ctx.count('dispatch:table entries wrapped', n)

    def template(self, channel, mapping, rot, names):
        k = (channel, mapping, rot, names)
        t = self.cache.get(k)
        if t is None:
            src, slots = source(channel, mapping, rot, names)
            t = self.cache[k] = (self.HTML(src), slots)
        return t


def digest(desc):
    return hashlib.blake2b(repr(desc).encode('utf-8', 'backslashreplace'), digest_size=5).hexdigest()


def evaluate(ctx, env, variables, mapping, channel, rot, container='list', origin='seeded'):
    """variables: [(name, values)] — one or two data variables of the same items."""
    names = tuple(nm for nm, _ in variables)
    models = {nm: model(vals) for nm, vals in variables}
    encd = [[nm, enc(vals)] for nm, vals in variables]
    desc = (repr(encd), mapping, channel, rot)
    case = {'variables': encd, 'mapping': mapping, 'channel': channel, 'rot': rot,
            'container': container, 'origin': origin}
    ctx.case(desc, any(m['n'] >= 2 for m in models.values()))
    tmpl, slots = env.template(channel, mapping, rot, names)
    length = len(variables[0][1])
    items = []
    for i in range(length):
        if mapping:
            items.append({nm: vals[i] for nm, vals in variables})
        else:
            it = Item()
            for nm, vals in variables:
                setattr(it, nm, vals[i])
            items.append(it)
    seq = tuple(items) if container == 'tuple' else items
    uses_mv = any(v is MISSING for _, vals in variables for v in vals)
    got = {}
    del env.calls[:]
    if uses_mv:
        env.DT_InSV.mv = MISSING
        ctx.count('data:renders with the simulated Missing.Value')
    try:
        try:
            if channel == 'var':
                out = tmpl(seq=seq)
            else:
                out = tmpl(seq=seq, rec=got.__setitem__)
        finally:
            if uses_mv:
                env.DT_InSV.mv = None
    except Exception as e:
        mech = None
        for m in models.values():
            mech = mech or classify_exception(e, m)
        ctx.count('renders that raised')
        ctx.violation('rendering the statistics of %r raised %s: %s'
                      % (encd, type(e).__name__, str(e)[:120]), case, mech=mech,
                      key='raise_%s_%s' % (type(e).__name__, digest(desc)))
        return
    ctx.count('renders observed')
    ctx.table('mode', '%s/%s' % (channel, 'mapping' if mapping else 'attributes'))
    ctx.table('variables per render', len(variables))
    ctx.table('first-accessed statistic', slots[0][0])
    seen = set()
    for nm, key in env.calls:
        if nm not in seen:      # first entry for this variable: the access that computed its ten values
            seen.add(nm)
            ctx.table('statistics() entered through prefix', key[:-len(nm) - 1] if nm else key)
    ctx.count('dispatch:statistics() calls', len(env.calls))
    if channel == 'var':
        if not (isinstance(out, str) and out.startswith(MARK) and out.endswith(MARK)
                and out.count(SEP) == len(slots) - 1):
            ctx.violation('unparseable output %r' % (out[:200] if isinstance(out, str) else out,), case,
                          key='parse_' + digest(desc))
            return
        raw = dict(zip(slots, out[1:-1].split(SEP)))
    else:
        if set(got) != set(slots):
            ctx.violation('recorder saw %r, expected every statistic of %r' % (sorted(got), names), case,
                          key='rec_' + digest(desc))
            return
        raw = got
    clean = True
    for nm, vals in variables:
        m = models[nm]
        obs = {s: Obs(channel, raw[(s, nm)]) for s in STATS}
        ctx.table('data class x length', '%s/%d' % (m['cls'], length))
        ctx.table('non-missing count', m['n'])
        if any(is_missing(v) for v in vals):
            ctx.count('data:lists containing missing values')
        problems = judge(m, obs, ctx.count)
        for stat, msg, mech in problems:
            clean = False
            ctx.count('problems:' + stat)
            ctx.violation('%s [x=%s, data %r, %s, %s]' % (msg, nm, enc(vals), channel,
                                                         'mapping' if mapping else 'attributes'),
                          case, mech=mech, key='%s_%s' % (stat, digest(desc)),
                          detail={'variable': nm, 'observed': {s: obs[s].show() for s in STATS}})
    kind = '+'.join(models[nm]['cls'] for nm in names)
    if clean and kind not in env.samples and len(env.samples) < 5 and models[names[0]]['n'] >= 3:
        env.samples[kind] = 1
        ctx.sample({'variables': encd, 'mapping': mapping, 'channel': channel,
                    'first_accessed': '%s-%s' % slots[0],
                    'observed': {'%s-%s' % k: repr(v) for k, v in raw.items()}})


def all_modes(ctx, env, variables, i, origin):
    for j, (channel, mapping) in enumerate(MODES):
        rot = (i + 3 * j) % len(STATS)
        container = 'tuple' if (i + j) % 3 == 0 else 'list'
        evaluate(ctx, env, variables, mapping, channel, rot, container, origin)


def with_mv(values):
    """Every other missing value (starting with the first) becomes the simulated Missing.Value."""
    out, k = [], 0
    for v in values:
        if v is None:
            out.append(MISSING if k % 2 == 0 else None)
            k += 1
        else:
            out.append(v)
    return out


# ---------------------------------------------------------------- generators
ALPHA = 'ABCXYZabcxyz019 .-é'
KINDS = ['int', 'int', 'smallint', 'float', 'float', 'smallfloat', 'mix', 'mix', 'const-int',
         'const-float', 'const-float', 'near-const', 'str', 'str', 'numstr']


def gen_list(rng, n=None):
    n = n or rng.randint(1, 10)
    kind = rng.choice(KINDS)
    if kind == 'int':
        vals = [rng.randint(-10 ** 6, 10 ** 6) for _ in range(n)]
    elif kind == 'smallint':
        vals = [rng.randint(-5, 5) for _ in range(n)]
    elif kind == 'float':
        vals = [rng.randint(-10 ** 6, 10 ** 6) / 1000 for _ in range(n)]
    elif kind == 'smallfloat':
        vals = [rng.randint(-30, 30) / 10 for _ in range(n)]
    elif kind == 'mix':
        vals = [rng.randint(-1000, 1000) if rng.random() < 0.5 else rng.randint(-10 ** 5, 10 ** 5) / 100
                for _ in range(n)]
    elif kind == 'const-int':
        vals = [rng.randint(-10 ** 6, 10 ** 6)] * n
    elif kind == 'const-float':
        d = rng.choice([10, 100, 1000])
        vals = [rng.randint(-10 ** 6, 10 ** 6) / d] * n
    elif kind == 'near-const':
        c = rng.randint(-10 ** 6, 10 ** 6) / 1000
        vals = [round(c + rng.choice([0, 0, 0.001, -0.001, 0.01]), 3) for _ in range(n)]
    elif kind == 'str':
        pool = [''.join(rng.choice(ALPHA) for _ in range(rng.randint(1, 6)))
                for _ in range(rng.randint(1, n))]
        vals = [rng.choice(pool) for _ in range(n)]
        if rng.random() < 0.03:
            vals[rng.randrange(n)] = ''
    else:
        vals = [str(rng.choice([rng.randint(-50, 50), rng.randint(-500, 500) / 10])) for _ in range(n)]
    r = rng.random()
    if r < 0.35:
        vals = [None if rng.random() < 0.25 else v for v in vals]
    elif r < 0.37:
        vals = [None] * n
    if any(v is None for v in vals) and rng.random() < 0.2:
        vals = with_mv(vals)
    return kind, vals


def exhaustive(tier):
    for dom in (DOM_NUM, DOM_STR, DOM_STR2):
        for L in range(1, EXH_LEN[tier] + 1):
            for t in itertools.product(dom, repeat=L):
                yield list(t)


def run(ctx, spec):
    from DocumentTemplate import DT_InSV
    from vlib.reach import Reach
    reach = Reach()
    reach.watch('sequence_variables.statistics', DT_InSV.sequence_variables.statistics)
    reach.watch('sequence_variables.__getitem__', DT_InSV.sequence_variables.__getitem__)
    reach.start()
    env = Env(ctx)
    env.install()
    for i, vals in enumerate(exhaustive(ctx.tier)):
        if i % ctx.nshards != ctx.shard:
            continue
        ctx.count('lists:exhaustive')
        if i % 7 == 3 and any(v is None for v in vals):
            vals = with_mv(vals)
        all_modes(ctx, env, [(NAMES[(i // ctx.nshards) % len(NAMES)], vals)], i, 'exhaustive')
    rng = ctx.rng
    per = SEEDED[ctx.tier] // ctx.nshards
    for i in range(per):
        kind, vals = gen_list(rng)
        ctx.count('lists:seeded')
        ctx.table('seeded kind', kind)
        nm = rng.choice(NAMES)
        variables = [(nm, vals)]
        if rng.random() < 0.3:
            # a second data variable of the same items, summarised in the same loop
            kind2, vals2 = gen_list(rng, len(vals))
            ctx.count('lists:seeded (second variable of a render)')
            ctx.table('seeded kind', kind2)
            variables.append((rng.choice([x for x in NAMES if x != nm]), vals2))
        all_modes(ctx, env, variables, rng.randrange(10), 'seeded')
    reach.stop()
    reach.report(ctx)


def finish(agg):
    c = agg['counters']
    t = agg['tables']
    inc = []
    for r in ('reach:sequence_variables.statistics', 'reach:sequence_variables.__getitem__'):
        if not c.get(r):
            inc.append('anchor never entered: ' + r)
    if not c.get('dispatch:statistics() calls'):
        inc.append('the wrapper on the statistics dispatch entries never fired')
    if c.get('dispatch:table entries wrapped', 0) < len(STATS):
        inc.append('fewer than ten dispatch-table entries point at statistics()')
    for s in STATS:
        if not t.get('first-accessed statistic', {}).get(s):
            inc.append('statistic never the first one accessed: ' + s)
        if not t.get('statistics() entered through prefix', {}).get(s):
            inc.append('statistics() never entered through prefix: ' + s)
        if not any(k.startswith('compared:%s ' % s) or k == 'compared:' + s for k in c):
            inc.append('statistic never compared: ' + s)
    for ch, mp in MODES:
        k = '%s/%s' % (ch, 'mapping' if mp else 'attributes')
        if not t.get('mode', {}).get(k):
            inc.append('mode never observed: ' + k)
    for k in ('compared:median (even count, must lie between the middle values)',
              'compared:median (text, even count)', 'compared:median (text, odd count)',
              'compared:total (must be empty, text data)', 'compared:total (exact)',
              'compared:total (tolerance)', 'compared:variance (tolerance)',
              'data:lists containing missing values', 'data:renders with the simulated Missing.Value'):
        if not c.get(k):
            inc.append('never evaluated: ' + k)
    if not t.get('seeded kind', {}).get('const-float'):
        inc.append('no constant float list generated')
    if not t.get('variables per render', {}).get('2'):
        inc.append('no render summarised two variables at once')
    nexh = sum(len(d) ** L for d in (DOM_NUM, DOM_STR, DOM_STR2) for L in range(1, EXH_LEN[agg['tier']] + 1))
    if c.get('lists:exhaustive', 0) != nexh:
        inc.append('exhaustive part incomplete: %s of %d lists' % (c.get('lists:exhaustive'), nexh))
    return {'inconclusive': inc,
            'coverage': {'exhaustive': True,
                         'exhaustive_scope': 'all lists of length 1..%d over %r, %r and %r, each in 4 modes'
                                             % (EXH_LEN[agg['tier']], DOM_NUM, DOM_STR, DOM_STR2),
                         'exhaustive_lists': nexh,
                         'seeded_lists': c.get('lists:seeded', 0)
                         + c.get('lists:seeded (second variable of a render)', 0),
                         'explanation': 'exhaustive inside the stated domains; seeded lists are extra'}}


def replay(ctx, rep):
    c = rep['case']
    env = Env(ctx)
    env.install()
    variables = [(nm, dec(vals)) for nm, vals in c['variables']]
    evaluate(ctx, env, variables, c['mapping'], c['channel'], c['rot'],
             c.get('container', 'list'), c.get('origin', 'replay'))
