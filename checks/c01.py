"""C01 — text outside tags is reproduced verbatim, in order, and rendering composes.

Monitors: the return value of the real HTML / String classes and the cooked block tree
(``template._v_blocks`` through vlib.normal) for generated sources whose literal text is rich in
near-tag fragments.  Oracles (DESIGN 4 "C01"):
  (a) sources that the independent lexer ``reflex`` (vlib.c01_util.lex, written from the module
      docstrings) finds tag-free must cook to literal blocks concatenating to the source and render
      to themselves — exhaustive over all strings of <= 5 symbols of six 8-symbol near-tag alphabets
      plus seeded near-tag soups;
  (b) abstract templates with trivial tag semantics: output == structural expectation (literal text
      minus exactly the permitted eol run, interleaved with the insertions, bodies rendered as often
      as the documentation says);
  (c) conservation on the cooked tree: literal blocks per nesting level == the AST's Text nodes of
      that level minus exactly the permitted eol run (independent of tag semantics, also on the full
      vlib.tast generator);
  (d) composition render(A+B) == render(A)+render(B) on every top-level split, except where A ends in
      a block tag and B starts with blanks + newline.
Every printed source is self-checked: lex(print(ast)) must give back exactly the printer's tag
boundaries, otherwise the case is discarded and counted.
"""
import itertools
import json

from vlib import c01_util as U
from vlib import normal
from vlib import printer
from vlib import tast

ID = 'C01'
LEVEL = 'exploration'
RULE = ('(i) exhaustive: every string of <= L symbols (L=5 for the A alphabets, 4 for the B alphabets in '
        'the quick tier; 6 / 5 in thorough) over six 8-symbol near-tag alphabets (html-A/B, ssi-A/B through '
        'HTML, epfs-A/B through String; the A alphabets also through the other class), kept when the '
        'independent lexer finds the whole source tag-free; (ii) seeded near-tag soups of 6..30 fragments; '
        '(iii) seeded abstract templates (<= 12 nodes, block nesting <= 4) with trivial tag semantics '
        '(var/entity tokens incl. expr=, html_quote, missing="..>..)..", if/unless with known truth, in over '
        '0..3 items, with, let, try/except/else/finally with raisers, comment) and (iv) templates of the full vlib.tast generator, both with '
        'literal text of near-tag fragments, a near-tag fragment forced next to tags and line-end runs '
        'forced after block tags, printed in html, ssi and epfs syntax with random style; composition on '
        'every top-level split.  A case is one source; distinct by (class, source); non-trivial when the '
        'source contains at least one of < & % (tag-free parts) or at least one tag (AST parts)')
ASSUMPTIONS = [
    'well-formed = the independent lexer recovers exactly the token boundaries the printer intended; '
    'sources with an unterminated / non-letter opener (<!--# without -->, <dtml- + non-letter, ...) are '
    'discarded and counted (DESIGN C01 Traps), as are &dtml.-name; and EPFS argument strings with a '
    'quoted string directly after the single separating blank',
    'the eol run [ \\t]*\\n directly after a block open / continuation / close tag is dropped exactly '
    'once (DESIGN: "minus exactly the permitted eol run"); not dropping it is reported as well',
    'cooked literal blocks are compared by concatenation per nesting level: empty or split literal '
    'blocks are not a violation of the statement',
    'values are str; composition is only checked for templates without return / raise / tree and when '
    'all three renders succeed',
]
SHARD_TIMEOUT = {'quick': 900, 'thorough': 3400}
NSHARDS = {'quick': 16, 'thorough': 48}
N_SIMPLE = {'quick': 3000, 'thorough': 150000}      # accepted sources per syntax
N_RICH = {'quick': 1200, 'thorough': 30000}         # accepted sources per syntax
N_SOUP = {'quick': 16000, 'thorough': 400000}       # soups per class
EXH_LEN = {'quick': {'A': 5, 'B': 4}, 'thorough': {'A': 6, 'B': 5}}
TAGFREE_NS = {'v': '<V>', 'x': '<X>', 'v1': '<V1>', 't1': 1}
CLASS_OF = printer.TEMPLATE_CLASS


def plan(tier, seed):
    return [{} for _ in range(NSHARDS[tier])]


def classes():
    from DocumentTemplate.DT_HTML import HTML
    from DocumentTemplate.DT_String import String
    import TreeDisplay.TreeTag  # noqa: F401  registers the tree tag (full generator)
    return {'HTML': HTML, 'String': String}


def short(s, n=160):
    r = repr(s)
    return r if len(r) <= n else r[:n] + '...(%d)' % len(s)


def first_diff(a, b):
    n = min(len(a), len(b))
    i = 0
    while i < n and a[i] == b[i]:
        i += 1
    return 'at offset %d: expected %s, got %s' % (i, short(a[max(0, i - 12):i + 40], 90),
                                                  short(b[max(0, i - 12):i + 40], 90))


def mechanism(case, exc=None):
    """Classifier of known findings (none at present: the one suspected defect of this property,
    IndexError for a source ending in '&dtml', is fixed in /repo by 6935cf8)."""
    return None


# ---------------------------------------------------------------- (a) tag-free sources
def check_tagfree(ctx, K, klass, src, part):
    verdict, info = U.classify(src, klass)
    ctx.table('lexer verdicts', '%s:%s' % (part, verdict))
    if verdict != 'tagfree':
        if verdict == 'unclassifiable':
            ctx.table('unclassifiable reasons', ''.join(c for c in info if not c.isdigit())[:60])
        return
    near = ('<' in src) or ('&' in src) or ('%' in src)
    ctx.case(('tagfree', klass, src), near)
    ctx.count('tagfree:evaluated:' + klass)
    case = {'part': 'tagfree', 'klass': klass, 'src': src, 'from': part}
    key = 'tagfree_%s_%s' % (klass, src.encode('utf-8', 'replace').hex()[:40])
    try:
        t = K[klass](src)
        t.cook()
        blocks = list(t._v_blocks)
    except Exception as e:
        ctx.violation('tag-free source %s failed to cook in %s: %s: %s'
                      % (short(src, 60), klass, type(e).__name__, str(e)[:120]),
                      case, mech=mechanism(case, e), key=key)
        return
    if not all(isinstance(b, str) for b in blocks):
        ctx.violation('tag-free source %s cooked to non-literal blocks %s' % (short(src, 60), short(blocks, 120)),
                      case, mech=mechanism(case), key=key)
        return
    if ''.join(blocks) != src:
        ctx.violation('tag-free source %s cooked to literal blocks %s' % (short(src, 60), short(blocks, 120)),
                      case, mech=mechanism(case), key=key)
        return
    if blocks == ([src] if src else []):
        ctx.count('tagfree:cooked to exactly [src]')
    try:
        out = t(**TAGFREE_NS)
    except Exception as e:
        ctx.violation('tag-free source %s failed to render in %s: %s: %s'
                      % (short(src, 60), klass, type(e).__name__, str(e)[:120]),
                      case, mech=mechanism(case, e), key=key)
        return
    if not isinstance(out, str) or out != src:
        ctx.violation('tag-free source %s rendered to %s' % (short(src, 60), short(out, 120)),
                      case, mech=mechanism(case), key=key)


def exhaustive(ctx, K):
    lens = EXH_LEN[ctx.tier]
    idx = 0
    for name in sorted(U.ALPHABETS):
        klass, symbols = U.ALPHABETS[name]
        maxlen = lens[name[-1]]
        other = 'String' if klass == 'HTML' else 'HTML'
        for n in range(maxlen + 1):
            for combo in itertools.product(symbols, repeat=n):
                idx += 1
                if idx % ctx.nshards != ctx.shard:
                    continue
                src = ''.join(combo)
                ctx.count('exhaustive strings')
                check_tagfree(ctx, K, klass, src, 'exh:' + name)
                if name[-1] == 'A':
                    check_tagfree(ctx, K, other, src, 'exh:%s/%s' % (name, other))


def soups(ctx, K):
    n = N_SOUP[ctx.tier] // ctx.nshards
    rng = ctx.rng
    for klass in ('HTML', 'String'):
        for i in range(n):
            src = U.gen_soup(rng, klass)
            ctx.count('soup strings')
            check_tagfree(ctx, K, klass, src, 'soup:' + klass)
            if i < 3 and ctx.shard == 0:
                v, _ = U.classify(src, klass)
                if v == 'tagfree':
                    ctx.sample({'part': 'soup', 'class': klass, 'source': src,
                                'rendered_equals_source': K[klass](src)(**TAGFREE_NS) == src})


# ---------------------------------------------------------------- AST sources: building a record
def neutral(body):
    """Copy of `body` with every Text replaced by a plain word (same structure, same printing style)."""
    obj = json.loads(json.dumps(tast.to_obj(body)))

    def fix(o):
        if isinstance(o, list):
            if len(o) == 2 and o[0] == 'text' and isinstance(o[1], str):
                o[1] = 'w'
                return
            for x in o:
                fix(x)
    fix(obj)
    return tast.from_obj(obj)


def node_spans(body, p):
    """(start, end) source span of each top-level node."""
    spans = []
    top_texts = iter([t for t in p.texts if t.depth == 0])
    for n in body:
        if n.kind == 'text':
            ti = next(top_texts)
            spans.append((ti.start, ti.end))
        else:
            mine = [t for t in p.tags if t.node is n]
            spans.append((min(t.start for t in mine), max(t.end for t in mine)))
    return spans


def build(ctx, body, syntax, rng, gen, nsid):
    """Print `body`, self-check the printing with the independent lexer and derive the expectations.
    Returns a JSON-able record or None (discarded, counted)."""
    klass = CLASS_OF[syntax]
    state = rng.getstate()
    try:
        p = printer.print_template(body, syntax, rng)
    except ValueError:
        ctx.count('discarded_unprintable')
        return None
    src = p.source
    try:
        toks = U.lex(src, klass)
    except U.Unclassifiable as e:
        ctx.count('discarded_unclassifiable')
        ctx.table('discard reasons', ''.join(c for c in str(e) if not c.isdigit())[:60])
        return None
    ltags = [(t.start, t.end, t.name, t.role == 'close') for t in toks if t.kind == 'tag']
    ptags = [(t.start, t.end, t.node.name if t.role == 'entity' else t.name, t.role == 'close')
             for t in p.tags]
    if ltags != ptags:
        ctx.count('discarded_ambiguous')
        return None
    # where may an eol run be dropped: decided from the lexer's tokens, cross-checked with the printer
    after = {}
    for t in toks:
        if t.kind == 'tag':
            after[t.end] = t
    kept = []
    for ti in p.texts:
        prev = after.get(ti.start)
        mine = bool(prev is not None and prev.after_block())
        if mine != bool(ti.after_block):
            ctx.inconclusive('harness: lexer and printer disagree on "directly after a block tag" for %r'
                             % src[max(0, ti.start - 30):ti.start + 10])
            return None
        k = U.strip_eol(ti.text) if mine else ti.text
        kept.append(k)
        if mine and k != ti.text and not ti.in_comment:
            ptag = next(t for t in p.tags if t.end == ti.start)
            ctx.table('eol run dropped after', '%s:%s' % (syntax, ptag.role))
            ctx.table('eol run dropped after command', ptag.name if ptag.role != 'single' else 'var')
        if mine and ti.text[:2] == '\r\n':
            ctx.count('eol:\\r\\n directly after a block tag (must be kept)')
    # near-tag fragment directly adjacent to a real tag
    near = sorted(set(U.near_fragments(klass)), key=lambda f: -len(f))
    starts = {t.start for t in p.tags}
    ends = {t.end for t in p.tags}
    adjacent = 0
    for ti in p.texts:
        if ti.start in ends:
            for f in near:
                if ti.text.startswith(f):
                    adjacent += 1
                    ctx.table('near fragment directly after a tag', f)
                    break
        if ti.end in starts:
            for f in near:
                if ti.text.endswith(f):
                    adjacent += 1
                    ctx.table('near fragment directly before a tag', f)
                    break
    rec = {'part': 'ast', 'gen': gen, 'syntax': syntax, 'klass': klass, 'source': src, 'ns': nsid,
           'ast': tast.to_obj(body), 'kept': kept, 'adjacent': adjacent,
           'tree': U.expected_tree(body, kept)}
    # the same printing with neutral text (to tell "rejected because of its literal text" apart)
    st2 = rng.getstate()
    rng.setstate(state)
    rec['neutral_source'] = printer.print_template(neutral(body), syntax, rng).source
    rng.setstate(st2)
    kinds_ = set(tast.kinds(body))
    rec['kinds'] = sorted(kinds_)
    rec['top_kept'] = [k for k, ti in zip(kept, p.texts) if ti.depth == 0 and k]
    if gen == 'simple':
        rec['expect'] = U.Expect(body, kept).output()
    else:
        rec['expect'] = None
    # composition splits
    splits = []
    if len(body) > 1 and not (kinds_ & {'return', 'raise', 'tree'} and gen != 'simple'):
        spans = node_spans(body, p)
        for i in range(1, len(body)):
            off = spans[i][0]
            excluded = bool(body[i - 1].block and U.strip_eol(src[off:]) != src[off:])
            splits.append([off, excluded])
    rec['splits'] = splits
    for sname in p.styles_used:
        ctx.table('style variations', '%s:%s' % (syntax, sname))
    return rec


# ---------------------------------------------------------------- AST sources: the checks
def make_ns(nsid):
    if nsid == 'simple':
        return U.simple_namespace()
    return tast.namespace(int(nsid))


def render(K, klass, src, nsid):
    """('ok', value) | ('raise', 'Type: message')"""
    try:
        t = K[klass](src)
        r = t(None, make_ns(nsid))
        return 'ok', r
    except Exception as e:
        return 'raise', '%s: %s' % (type(e).__name__, str(e)[:160])


def check_record(ctx, K, rec, want_sample=False):
    klass, src, gen, sx = rec['klass'], rec['source'], rec['gen'], rec['syntax']
    ntags = sum(1 for k in rec['kinds'] if k != 'text')
    ctx.case(('ast', klass, src), ntags > 0)
    ctx.count('ast sources:%s:%s' % (gen, sx))
    ctx.count('ast sources')
    if rec['adjacent']:
        ctx.count('ast sources with a near-tag fragment directly adjacent to a tag')
    for k in rec['kinds']:
        ctx.table('node kinds:' + gen, k)
    case = {k: rec[k] for k in ('part', 'gen', 'syntax', 'klass', 'source', 'ns', 'ast', 'kept', 'tree',
                                'neutral_source', 'kinds', 'top_kept', 'expect', 'splits', 'adjacent')}
    h = '%08x' % (abs(hash(src)) % (1 << 32))

    def bad(what, tag, detail=None):
        ctx.violation('%s/%s: %s' % (gen, sx, what), case, mech=mechanism(case), key='%s_%s_%s' % (tag, sx, h),
                      detail=detail)

    # ---- cook
    try:
        t = K[klass](src)
        t.cook()
    except Exception as e:
        try:
            tn = K[klass](rec['neutral_source'])
            tn.cook()
        except Exception:
            if gen == 'simple':
                # the trivial-semantics templates are valid by construction: nothing can be decided
                # about their text if the tag recogniser refuses them
                bad('well-formed template of documented trivial tags failed to cook: %s: %s; source %s'
                    % (type(e).__name__, str(e)[:160], short(src, 200)), 'cookany')
                return
            ctx.count('rejected irrespective of literal text (not C01)')
            ctx.table('rejected irrespective of text', '%s:%s' % (gen, str(e).split(', for tag')[0][:60]))
            return
        bad('well-formed template failed to cook because of its literal text: %s: %s; source %s'
            % (type(e).__name__, str(e)[:160], short(src, 200)), 'cook')
        return
    # ---- (c) conservation on the cooked tree
    ctx.count('conservation:trees compared')
    got = U.fuse(normal.literal_tree(normal.normal(t._v_blocks)))
    d = U.tree_diff(rec['tree'], got)
    if d is not None:
        path, want, have = d
        if isinstance(want, str) and isinstance(have, str):
            what = 'literal text of level %s not conserved, %s' % (path, first_diff(want, have))
        else:
            what = 'literal blocks of level %s differ: expected %s, cooked %s' % (path, short(want, 120),
                                                                                  short(have, 120))
        bad(what + '; source %s' % short(src, 200), 'conserve')
        return
    ctx.count('conservation:literal blocks compared', sum(1 for _ in _strings(got)))
    # ---- (b) output
    kind, out = render(K, klass, src, rec['ns'])
    ctx.count('renders')
    ctx.count('render outcome:%s:%s' % (gen, kind))
    if gen == 'simple':
        ctx.count('output:structural expectations compared')
        if kind != 'ok':
            bad('render raised %s; expected output %s; source %s' % (out, short(rec['expect'], 120),
                                                                      short(src, 200)), 'render')
            return
        if not isinstance(out, str) or out != rec['expect']:
            bad('output differs from the structural expectation, %s; source %s'
                % (first_diff(rec['expect'], out if isinstance(out, str) else repr(out)), short(src, 200)),
                'output', detail={'expected': rec['expect'], 'observed': out})
            return
    elif kind == 'ok' and isinstance(out, str) and 'return' not in rec['kinds']:
        # top-level text must appear once each, in source order
        ctx.count('output:top-level order checks')
        pos = 0
        for s in rec['top_kept']:
            i = out.find(s, pos)
            if i < 0:
                bad('top-level text %s missing (or out of order) in the output %s; source %s'
                    % (short(s, 60), short(out, 160), short(src, 200)), 'toplevel')
                return
            pos = i + len(s)
    # ---- (d) composition
    if kind == 'ok' and isinstance(out, str):
        for off, excluded in rec['splits']:
            if excluded:
                ctx.count('composition:excluded (B starts with a line end right after a block tag)')
                continue
            a_src, b_src = src[:off], src[off:]
            try:
                na = sum(1 for x in U.lex(a_src, klass) if x.kind == 'tag')
                nb = sum(1 for x in U.lex(b_src, klass) if x.kind == 'tag')
            except U.Unclassifiable:
                ctx.count('composition:skipped (a half is not well-formed alone)')
                continue
            if na + nb != len([1 for x in U.lex(src, klass) if x.kind == 'tag']):
                ctx.count('composition:skipped (a half is not well-formed alone)')
                continue
            ka, oa = render(K, klass, a_src, rec['ns'])
            kb, ob = render(K, klass, b_src, rec['ns'])
            if ka != 'ok' or kb != 'ok' or not isinstance(oa, str) or not isinstance(ob, str):
                if gen == 'simple':
                    bad('a half of a rendering template failed to render alone: %s | %s; split at %d of %s'
                        % (oa if ka != 'ok' else 'ok', ob if kb != 'ok' else 'ok', off, short(src, 200)),
                        'compose', detail={'split': off})
                    return
                ctx.count('composition:skipped (a half raises alone)')
                continue
            ctx.count('composition:splits compared')
            ctx.count('composition:splits compared:' + gen)
            if oa + ob != out:
                bad('render(A+B) != render(A)+render(B) for the split at %d, %s; A=%s B=%s'
                    % (off, first_diff(out, oa + ob), short(a_src, 120), short(b_src, 120)), 'compose',
                    detail={'split': off, 'whole': out, 'a': oa, 'b': ob})
                return
    if want_sample:
        ctx.sample({'generator': gen, 'syntax': sx, 'source': src, 'expected_literal_tree': rec['tree'],
                    'observed_output': out if kind == 'ok' else 'raise ' + str(out),
                    'expected_output': rec['expect'], 'splits_checked': rec['splits']})


def _strings(tree):
    for x in tree:
        if isinstance(x, str):
            yield x
        else:
            for b in x:
                for s in _strings(b):
                    yield s


def ast_part(ctx, K, gen):
    rng = ctx.rng
    want = (N_SIMPLE if gen == 'simple' else N_RICH)[ctx.tier] // ctx.nshards
    focus_cycle = list(tast.ALL_KINDS)
    for sx in printer.SYNTAXES:
        klass = CLASS_OF[sx]
        done = 0
        attempts = 0
        while done < want and attempts < want * 6:
            attempts += 1
            if gen == 'simple':
                body = U.gen_simple(rng, klass)
                nsid = 'simple'
            else:
                text = U.near_fragments(klass) + U.WORDS + U.EOLS
                focus = focus_cycle[(attempts + ctx.shard) % len(focus_cycle)] if attempts % 3 == 0 else None
                body = tast.gen_template(rng, max_nodes=12, max_depth=4, text=text, focus=focus)
                nsid = attempts % tast.NAMESPACE_VARIANTS
            if attempts % 4 != 3:          # one case in four keeps the generator's own text placement
                U.boost(body, rng, klass)
            ctx.count('ast sources generated')
            rec = build(ctx, body, sx, rng, gen, nsid)
            if rec is None:
                continue
            done += 1
            check_record(ctx, K, rec, want_sample=(done in (2, 9) and ctx.shard < 2 and sx != 'ssi'))


# ---------------------------------------------------------------- run / finish / replay
def watch(reach, K):
    from DocumentTemplate import DT_HTML
    from DocumentTemplate import _DocumentTemplate
    S, H = K['String'], K['HTML']
    reach.watch('String.parse', S.parse)
    reach.watch('String.parse_block', S.parse_block)
    reach.watch('String.skip_eol', S.skip_eol)
    reach.watch('String.tagre', S.tagre)
    reach.watch('dtml_re_class.search', DT_HTML.dtml_re_class.search)
    reach.watch('render_blocks_', _DocumentTemplate.render_blocks_)
    reach.watch('join_unicode', _DocumentTemplate.join_unicode)


def run(ctx, spec):
    from vlib.reach import Reach
    K = classes()
    reach = Reach()
    watch(reach, K)
    reach.start()
    exhaustive(ctx, K)
    soups(ctx, K)
    ast_part(ctx, K, 'simple')
    ast_part(ctx, K, 'rich')
    reach.stop()
    reach.report(ctx)


def finish(agg):
    c = agg['counters']
    t = agg['tables']
    inc = []
    for r in ('reach:String.parse', 'reach:String.parse_block', 'reach:String.skip_eol',
              'reach:String.tagre', 'reach:dtml_re_class.search', 'reach:render_blocks_',
              'reach:join_unicode'):
        if not c.get(r):
            inc.append('anchor never entered: ' + r)
    for k in ('tagfree:evaluated:HTML', 'tagfree:evaluated:String', 'conservation:trees compared',
              'output:structural expectations compared', 'composition:splits compared:simple',
              'composition:splits compared:rich', 'output:top-level order checks',
              'eol:\\r\\n directly after a block tag (must be kept)'):
        if not c.get(k):
            inc.append('deciding monitor never evaluated: ' + k)
    n = c.get('ast sources', 0)
    adj = c.get('ast sources with a near-tag fragment directly adjacent to a tag', 0)
    if n and adj * 100 < 30 * n:
        inc.append('only %d of %d AST sources have a near-tag fragment directly adjacent to a tag (< 30%%)'
                   % (adj, n))
    eol = t.get('eol run dropped after', {})
    for sx in printer.SYNTAXES:
        for role in ('open', 'cont', 'close'):
            if not eol.get('%s:%s' % (sx, role)):
                inc.append('no eol run directly after a block %s tag in syntax %s' % (role, sx))
        if not c.get('ast sources:simple:' + sx) or not c.get('ast sources:rich:' + sx):
            inc.append('no AST source in syntax ' + sx)
    rej = c.get('rejected irrespective of literal text (not C01)', 0)
    if n and rej * 100 > 5 * n:
        inc.append('%d of %d generated templates were rejected at cook time irrespective of their literal '
                   'text: nothing is decided for them' % (rej, n))
    verdicts = t.get('lexer verdicts', {})
    for name in U.ALPHABETS:
        if not verdicts.get('exh:%s:tagfree' % name):
            inc.append('no tag-free string over alphabet ' + name)
    lens = EXH_LEN[agg['tier']]
    return {'inconclusive': inc,
            'coverage': {
                'exhaustive': True,
                'exhaustive_part': {name: {'class': U.ALPHABETS[name][0], 'symbols': list(U.ALPHABETS[name][1]),
                                           'max_symbols': lens[name[-1]],
                                           'strings': sum(8 ** i for i in range(lens[name[-1]] + 1))}
                                    for name in sorted(U.ALPHABETS)},
                'adjacent_share_percent': round(100.0 * adj / n, 1) if n else 0,
                'tagfree_sources_not_cooked_to_exactly_[src]': (
                    c.get('tagfree:evaluated:HTML', 0) + c.get('tagfree:evaluated:String', 0)
                    - c.get('tagfree:cooked to exactly [src]', 0)),
                'explanation': 'exhaustive only for the listed alphabets and lengths (part i); soups and '
                               'AST sources are seeded samples; lexer verdicts other than tagfree are '
                               'counted in tables["lexer verdicts"] and not evaluated'}}


def replay(ctx, rep):
    K = classes()
    c = rep['case']
    if c.get('part') == 'tagfree':
        check_tagfree(ctx, K, c['klass'], c['src'], c.get('from', 'replay'))
        return
    check_record(ctx, K, c)
