"""C09 — if/elif/else/unless render the first true branch, lazily, evaluating once; call
evaluates once and emits nothing.

Monitor: every condition is observable — names bound to probe callables / functions / bound
methods / sub-templates, names served by a logging mapping, expressions calling
``probe('c3')`` — and all of them append to one Recorder, so the ordered evaluation trace of
a render is known.  Bodies re-reference the evaluated names through every insertion form,
nested up to three tags deep.
Oracle: vlib.c09_util.predict, a small reference interpreter of conditional chains written
from the DT_If docstring and the property statement; it predicts (output, ordered trace).
Histories (vlib.c09_util.predict_script): several templates over the same fresh names in one
process, several conditionals per template, several renders per template with changing
bindings (callables returning value sequences), conditionals left by exceptions / dtml-return;
the model judges every render on its own, so anything an engine carries over from an earlier
compile, render or conditional (or a condition compiled as something its spelling does not
say) shows as an output / trace difference.
Namespace sources (vlib.c09_util, 'ns' cases): the same conditionals rendered in namespaces built
from several sources of several kinds -- creation defaults, the mapping argument (real and
lookalike mappings that word their KeyError in different ways), one or two client objects (with
__getattr__ raising differently worded AttributeErrors), template variables, keyword arguments,
and sources pushed by tags around the conditional (with / with mapping / with only / in over
mappings or objects / let / _.namespace / a sub-template).  The model never looks at the kind
of a source: a name no source has is undefined and counts as false.
"""
import itertools
import json

from vlib import c09_util as U
from vlib.common import Recorder

ID = 'C09'
LEVEL = 'exploration'
RULE = ('exhaustive: every chain of 1..N conditions (N=4 quick, 5 thorough) x each condition in '
        '{probe callable, plain value, logging-mapping value, probe() expression} x {true,false} or '
        'undefined name x else in {absent, <dtml-else>, <dtml-else NAME> (the documented long form; '
        'only when the if tests a name)}; per case ctx.rng draws the values, attribute spelling, tag '
        'syntax, end tag with/without the name, literal text around the conditional or none, the '
        'enclosing tag (none, in, the conditional written twice, with, let, if, try), the type of every '
        'body (text+references, text only, completely empty, blanks only, references only) and the '
        're-references (11 insertion forms nested in 0..3 of 7 wrapper tags); exhaustive body types: '
        'chains of 1..3 (thorough 1..4) conditions x every body in {empty, blank, text, '
        'text+references} in every position x else absent or one of the four; exhaustive repeated '
        'names: chains of 2..3 (thorough 2..4) positions over two names / expressions x every binding; '
        'exhaustive body shapes: every form x every wrapper stack of depth 0..2 (quick) / 0..3 '
        '(thorough) x every kind of defined named condition x true/false; seeded: length-5 chains '
        '(quick), chains with functions, bound methods, sub-templates, _[name] expressions, repeated '
        'names and later conditions armed to raise; unless (with its if twin, all body types) and call '
        'over every kind x every value x every enclosing tag. Histories (scripts): 1..3 templates, each '
        '1..3 conditionals (chain of 1..3 / unless / call, all enclosing tags and body types as above) '
        'over a pool of 1..3 names that are fresh in the process, each condition spelled as the name, as '
        'the expression consisting of that one identifier, probe() or _[name]; compiled all first or '
        'each before its first render; rendered 1..6 times in 1..3 rounds of bindings (kind and values '
        'of every name change between rounds, callables return a sequence of values inside one render, '
        'a template may be compiled again); some conditionals are left by an exception raised by the '
        'rendered body or by a last elif condition inside dtml-try, or by dtml-return in a sub-template '
        'sharing the namespace, and are followed by conditionals over the same names; every render is '
        'compared (output, ordered trace) with the model, which carries nothing over. Exhaustive '
        'spelling histories: two templates over one fresh identifier x tag position {if, elif, unless, '
        'call} x {name, identifier expression} for each x 8 bindings x both compile orders, rendered '
        'alternately in two rounds; exhaustive exception histories: 5 ways of leaving a conditional x '
        'the tag testing the name next x 6 kinds of binding x truth x second evaluation same/opposite. '
        'Namespace sources: exhaustive 27 source layouts (mapping argument alone, with defaults / keyword '
        'arguments / template variables / one or two clients around it, with / with mapping / with only / '
        'with mapping only / in mapping / in over objects / let / _.namespace / sub-template with and without '
        'defaults inside) x 12 mapping styles (dict, dict subclass, ChainMap, UserDict with __missing__, and '
        'lookalikes raising KeyError of the key, the case-folded key, a message, nothing, a pair, another key, '
        'a subclass, a tuple; objects: 5 AttributeError wordings) x an undefined mixed-case name in {if, elif '
        'before a true condition, last elif, tested twice, unless, call}; seeded: chains of 1..4 / unless / '
        'call over every condition kind with undefined names frequent, in drawn namespaces of 1..10 sources, '
        'every defined name bound in a drawn source (logged values in a mapping that reports lookups), all '
        'body types, references, enclosing tags and armed later conditions as in the other families; 40 % of '
        'the seeded histories deliver the bindings of each round through other sources (one mapping of a drawn '
        'style as the only source, a mapping of a drawn style under the keyword arguments, a client object). '
        'distinct = distinct full case descriptions; non-trivial = at least one condition whose '
        'evaluation is observable (event or undefined name) or a rendered body re-reference')
ASSUMPTIONS = [
    'body references are generated only to names the conditional has evaluated and found defined at or '
    'before the branch (that is what the statement speaks about); undefined names are never referenced',
    'an expression condition that is reached is expected to be evaluated exactly once (title: '
    '"evaluating once"); expressions are never expected to be remembered',
    'a lookup in the caller-supplied mapping is the evaluation event of a plain (non-callable) named value',
    'a named condition occurring twice in one chain is expected to be evaluated once ("at most once per '
    'conditional") and to have the same truth both times',
    'dtml-call of an undefined name: only "emits nothing" is demanded when it returns; raising is not judged, '
    'except that it may not depend on the kind of the namespace sources: a call that raises in a namespace of '
    'lookalike mappings / objects but returns when every source is an ordinary dict / object is reported',
    'a name is undefined when no source of the namespace has it; a mapping says so by raising KeyError '
    '(any subclass, any arguments), an object by raising AttributeError (any subclass, any arguments); '
    'sources that say it in another way (NameError, returning a default) are not generated',
    'namespace sources: each defined name is bound in exactly one source (the order in which sources shadow '
    'each other is another property); inside <dtml-with .. only> every name the conditional and its bodies '
    'use is bound in that one source; there is at most one `only` per case',
    'a blank body is blanks and tabs without a newline: blanks + newline right after a block tag are '
    'skipped by the parser by design (skip_eol), which is not this property',
    'the deprecated standalone <dtml-else name>...</dtml-else> block (an unless synonym) is not exercised',
    'every rendering of a conditional (each dtml-in iteration, each of two copies side by side) is a new '
    'conditional: a reached named condition is evaluated again, nothing is carried over',
    'histories: the same holds between conditionals of one template, between renders of one compiled '
    'template and between templates of one process; a conditional left by an exception (or by dtml-return) '
    'has ended; what a condition means depends on its own spelling only',
    'the expression "x" denotes the object bound to x: it is not called (only inserted *names* are, says the '
    'module docstring) and a probe object is true; once the conditional has evaluated the name x, "x" inside '
    'it is the remembered value (DT_If note); identifier expressions are generated over plain values and '
    'callables only (not over logging-mapping values: the number of lookups an expression makes is not stated)',
    'histories: bodies reference only names that are bound in every round; dtml-call of a name is generated '
    'only over such names; a raising body raises with its first tag and the conditional is the only content '
    'of the dtml-try block, so that the text of the handled block is "EXC" whatever a try block does with '
    'partial output; of dtml-return only "ends the rendering of the sub-template" is used (the sub-template is '
    'invoked by dtml-call, its text / return value is not judged)',
]
SHARD_TIMEOUT = {'quick': 600, 'thorough': 3000}
NSHARDS = {'quick': 16, 'thorough': 32}
MAXN = {'quick': 4, 'thorough': 5}
SEEDED_N5 = {'quick': 8000, 'thorough': 0}          # quick samples the length-5 chains
SEEDED_EXT = {'quick': 12000, 'thorough': 120000}
UNLESS_SHAPES = {'quick': 6, 'thorough': 40}
SHAPE_DEPTH = {'quick': 2, 'thorough': 3}
GRID_N = {'quick': 3, 'thorough': 4}
GRID_OPTS = (('nc', True), ('nc', False), ('ex', True), ('ex', False), ('un', None))
GRID_OPTS_LONG = (('nc', True), ('nc', False), ('un', None))       # length 4 (thorough)
DUP_N = {'quick': 3, 'thorough': 4}
DUP_BIND = (('nc', True), ('nc', False), ('nm', True), ('nm', False), ('un', None))
SCRIPTS = {'quick': 8000, 'thorough': 80000}        # seeded histories
POSITIONS = ('if', 'elif', 'unless', 'call')        # where a history grid puts the condition on its name
SPELL_BIND = tuple((k, t) for k in U.EV_KINDS for t in (True, False))
NS_SEEDED = {'quick': 7000, 'thorough': 70000}     # seeded namespace-source cases
NS_KINDS = ('nc', 'nf', 'nb', 'nt', 'nm', 'np', 'ex', 'ei') + ('un',) * 5      # undefined names are frequent
NS_POSITIONS = ('if', 'elif', 'last elif', 'twice', 'unless', 'call')
EXC_FIRST = (('chain', 'body'), ('chain', 'cond'), ('unless', 'body'), ('chain', 'ret'), ('unless', 'ret'))

# the options of one condition in the exhaustive family
OPTS = [('nc', True), ('nc', False), ('np', True), ('np', False), ('nm', True), ('nm', False),
        ('ex', True), ('ex', False), ('un', None)]
EXT_KINDS = ('nc', 'nf', 'nb', 'nt', 'nm', 'np', 'un', 'ex', 'ei')


def plan(tier, seed):
    return [{} for _ in range(NSHARDS[tier])]


# ---------------------------------------------------------------- generation
def make_cond(rng, kind, truth, name):
    c = {'k': kind, 'n': name, 't': truth, 'v': 0, 'a': rng.randrange(6)}
    if kind == 'un':
        c['t'] = None
    elif kind != 'nt':
        c['v'] = rng.randrange(len(U.TRUE if truth else U.FALSE))
    return c


def make_refs(rng, names, atleast=0):
    if not names:
        return []
    refs = []
    for _ in range(max(atleast, rng.choice((0, 1, 1, 2)))):
        depth = rng.randrange(4)
        refs.append([rng.choice(names), rng.choice(U.FORMS),
                     [rng.choice(U.WRAPPERS) for _ in range(depth)]])
    return refs


# seeded body types: mostly text + references, but every degenerate shape is frequent
BTYPE_DRAW = ('full',) * 11 + ('empty',) * 4 + ('ws',) * 2 + ('refsonly',) * 3
# the body-type grid spells text-only and text+references apart
GRID_BTYPES = ('empty', 'ws', 'text', 'refs')


def make_body(rng, names, btype):
    """-> (stored body type, references) for a drawn / enumerated body type."""
    if btype in ('empty', 'ws'):
        return btype, []
    if btype == 'text':
        return 'full', []
    if btype == 'refs':
        return 'full', make_refs(rng, names, atleast=1)
    if btype == 'refsonly':
        return 'refsonly', make_refs(rng, names, atleast=1)
    return 'full', make_refs(rng, names)


def finish_case(rng, fam, conds, has_else, outers=U.OUTERS, btypes=None, etype=None, referable=None):
    """has_else: False | True ('bare' <dtml-else>) | 'named' (<dtml-else NAME>, the long form)."""
    n = len(conds)
    referable = referable or U.referable
    case = {'fam': fam, 'style': rng.choice(('dtml', 'dtml', 'sgml')),
            'outer': rng.choice(outers), 'conds': conds, 'bodies': [], 'btypes': [], 'else': None}
    for i in range(n):
        bt, refs = make_body(rng, referable(conds, i), btypes[i] if btypes else rng.choice(BTYPE_DRAW))
        case['btypes'].append(bt)
        case['bodies'].append(refs)
    if has_else:
        case['etype'], case['else'] = make_body(rng, referable(conds, n),
                                                etype or rng.choice(BTYPE_DRAW))
        if has_else == 'named':
            case['ename'] = True
    if conds[0]['k'] in U.NAMED_MODES and rng.random() < 0.15:
        case['endname'] = True
    if rng.random() < 0.15:
        case['bare'] = True
    return case


def gen_ext(rng, maxn):
    n = rng.randint(1, maxn)
    conds = []
    for i in range(n):
        named = [c for c in conds if c['k'] in U.NAMED]
        if named and rng.random() < 0.3:
            c = dict(rng.choice(named))          # the same name again
            c['a'] = rng.randrange(6)
        else:
            kind = rng.choice(EXT_KINDS)
            c = make_cond(rng, kind, rng.random() < 0.4, 'c%d' % (i + 1))
        conds.append(c)
    has_else = rng.random() < 0.5
    if has_else and conds[0]['k'] in U.NAMED and rng.random() < 0.4:
        has_else = 'named'
    case = finish_case(rng, 'chain', conds, has_else)
    case['boom'] = rng.random() < 0.4
    return case



# ---------------------------------------------------------------- namespace sources ('ns' cases)
def draw_ns(rng):
    """A namespace made of several sources of several kinds (see vlib.c09_util, 'ns')."""
    ns = {'g': rng.random() < 0.25,
          'm': rng.choice((None, None) + U.MAP_STYLES),
          'c': [rng.choice(U.OBJ_STYLES) for _ in range(rng.choice((0, 0, 0, 1, 1, 2)))],
          'ctuple': rng.random() < 0.3, 'v': rng.random() < 0.15, 'k': rng.random() < 0.5,
          'sub': rng.choice((None,) * 5 + ('plain', 'defaults')), 'inner': []}
    for _ in range(rng.choice((0, 0, 0, 1, 1, 2, 3))):
        kind = rng.choice(U.INNER_KINDS)
        if kind in U.INNER_ONLY and any(k in U.INNER_ONLY for k, st in ns['inner']):
            kind = kind[:-1]                    # one `only` per case: with / with mapping instead
        ns['inner'].append([kind, ns_style(rng, kind)])
    return ns


def ns_style(rng, kind, i=None):
    pick = rng.choice if i is None else (lambda seq: seq[i % len(seq)])
    if kind in U.INNER_MAPPING:
        return pick(U.MAP_STYLES)
    if kind in U.INNER_OBJECT:
        return pick(U.OBJ_STYLES)
    return None


def attach_ns(rng, case, ns):
    """Put the case into the namespace: choose the source that binds each name (case['ns']['place'])."""
    if not (ns.get('g') or ns.get('m') or ns.get('c') or ns.get('v') or ns.get('k')):
        ns['k'] = True                          # something has to hold the names of the surrounding tags
    slots = U.ns_slots(ns)
    outer = [sl for sl in slots if sl[0] not in 'is']
    only = U.ns_only(ns)
    if only is None:
        visible = slots
    else:                                       # inside `only` the namespace is that source and deeper ones
        visible = [sl for sl in slots if sl[0] == 'i' and int(sl[1:]) >= only]
    loggable = [sl for sl in U.ns_loggable(ns) if sl in visible]
    place = {}
    for n in U.SUPPORT:
        place[n] = rng.choice(outer)
    for i, (kind, style) in enumerate(ns['inner']):
        if kind in U.INNER_MAPPING or kind in U.INNER_OBJECT:
            place['nw%d' % i] = 'i%d' % only if (only is not None and i > only) else rng.choice(outer)
    if ns.get('sub'):
        place['nsub'] = rng.choice(outer)
    for c in case['conds']:
        if c['k'] == 'nm' and not loggable:
            c['k'] = 'np'                       # no source that could report the lookup
        if c['k'] in ('un', 'ex') or c['n'] in place:
            continue
        place[c['n']] = rng.choice(loggable if c['k'] == 'nm' else visible)
    ns['place'] = place
    case['ns'] = ns
    return case


def gen_ns(rng):
    """A seeded chain / unless / call over every kind of condition, undefined names frequent, names in
    mixed case (a case-folding source reports another key than the one looked up)."""
    ns = draw_ns(rng)
    fam = rng.choice(('chain',) * 5 + ('unless',) * 2 + ('call',))
    conds = []
    for i in range(rng.randint(1, 4) if fam == 'chain' else 1):
        named = [c for c in conds if c['k'] in U.NAMED]
        if named and rng.random() < 0.25:
            c = dict(rng.choice(named))
            c['a'] = rng.randrange(6)
        else:
            c = make_cond(rng, rng.choice(NS_KINDS), rng.random() < 0.4, 'Nc%d' % (i + 1))
        conds.append(c)
    # the kind of a name is decided before the bodies are drawn (a logging value needs a logging source)
    probe = attach_ns(rng, {'conds': conds}, ns)
    if fam == 'call':
        case = {'fam': 'call', 'style': rng.choice(('dtml', 'dtml', 'sgml')),
                'outer': rng.choice((None, None, 'twice') + U.WRAPPERS), 'conds': conds,
                'bodies': [[]], 'else': None}
    else:
        has_else = fam == 'chain' and rng.random() < 0.6
        if has_else and conds[0]['k'] in U.NAMED and rng.random() < 0.3:
            has_else = 'named'
        case = finish_case(rng, fam, conds, has_else)
        case['boom'] = rng.random() < 0.3
    case['ns'] = probe['ns']
    return case


# the source layouts of the exhaustive grid: which sources exist, outermost first; MAP / OBJ are filled
# with every style
NS_LAYOUTS = (
    {'m': 1}, {'m': 1, 'k': 1}, {'g': 1, 'm': 1}, {'g': 1, 'm': 1, 'k': 1}, {'m': 1, 'v': 1},
    {'m': 1, 'c': 1}, {'m': 1, 'c': 2, 'k': 1}, {'c': 1}, {'c': 1, 'ctuple': 1, 'k': 1}, {'c': 2}, {'k': 1},
    {'k': 1, 'inner': ('withm',)}, {'k': 1, 'inner': ('withmo',)}, {'k': 1, 'inner': ('with',)},
    {'k': 1, 'inner': ('witho',)}, {'k': 1, 'inner': ('inm',)}, {'k': 1, 'inner': ('ino',)},
    {'m': 1, 'inner': ('withm',)}, {'m': 1, 'inner': ('withmo',)}, {'m': 1, 'inner': ('let',)},
    {'m': 1, 'inner': ('withns',)}, {'m': 1, 'sub': 'plain'}, {'m': 1, 'sub': 'defaults'},
    {'m': 1, 'inner': ('withm', 'withmo')}, {'m': 1, 'inner': ('withmo', 'withm')},
    {'m': 1, 'c': 1, 'inner': ('inm', 'with')}, {'m': 1, 'sub': 'plain', 'inner': ('withm',)},
)


def grid_ns(rng, layout, si, pos):
    """One case of the exhaustive grid: an undefined name in tag position `pos`, in a namespace of the given
    layout whose mappings all have style number si (objects: si modulo the object styles)."""
    ms = U.MAP_STYLES[si]
    os_ = U.OBJ_STYLES[si % len(U.OBJ_STYLES)]
    ns = {'g': bool(layout.get('g')), 'm': ms if layout.get('m') else None,
          'c': [os_] * layout.get('c', 0), 'ctuple': bool(layout.get('ctuple')),
          'v': bool(layout.get('v')), 'k': bool(layout.get('k')), 'sub': layout.get('sub'),
          'inner': [[kind, ns_style(rng, kind, si)] for kind in layout.get('inner', ())]}
    un = make_cond(rng, 'un', None, 'NoSuch1')
    if pos == 'if':
        fam, conds = 'chain', [un]
    elif pos == 'elif':                 # reached behind a false condition, a true one follows
        fam, conds = 'chain', [make_cond(rng, rng.choice(('nc', 'np', 'ex')), False, 'Nc1'), un,
                               make_cond(rng, rng.choice(('nc', 'np', 'nm')), True, 'Nc3')]
    elif pos == 'last elif':
        fam, conds = 'chain', [make_cond(rng, rng.choice(('nc', 'np', 'nf')), False, 'Nc1'), un]
    elif pos == 'twice':                # the same undefined name tested twice by one conditional
        fam, conds = 'chain', [un, dict(un, a=rng.randrange(6)), make_cond(rng, 'nc', rng.random() < 0.5, 'Nc3')]
    elif pos == 'unless':
        fam, conds = 'unless', [un]
    else:
        fam, conds = 'call', [un]
    attach_ns(rng, {'conds': conds}, ns)
    if fam == 'call':
        case = {'fam': 'call', 'style': rng.choice(('dtml', 'sgml')), 'outer': rng.choice((None, None, 'twice', 'in')),
                'conds': conds, 'bodies': [[]], 'else': None}
    else:
        case = finish_case(rng, fam, conds, fam == 'chain', outers=(None, None, None, 'in', 'twice', 'try'))
    case['ns'] = ns
    return case


def ns_facts(ctx, case, chosen):
    """Coverage of the namespace-source cases (not part of the oracle)."""
    ns = case['ns']
    conds, fam = case['conds'], case['fam']
    stack = U.ns_stack(ns)
    ctx.count('ns:cases')
    ctx.table('ns sources under the conditional', len(stack))
    ctx.table('ns sources given to the template (outermost first)',
              '>'.join(sl for sl in ('g', 'm', 'c0', 'c1', 'v', 'k') if sl in U.ns_slots(ns)))
    ctx.table('ns source-adding tags around the conditional', len(ns.get('inner') or ()))
    for kind, style in ns.get('inner') or ():
        ctx.table('ns inner tag', kind)
    if ns.get('sub'):
        ctx.table('ns inner tag', 'sub-template/' + ns['sub'])
    for n, sl in ns['place'].items():
        if n not in U.SUPPORT and not n.startswith('nw') and n != 'nsub':
            ctx.table('ns source binding a condition name', sl[0] if sl[0] != 'i' else ns['inner'][int(sl[1:])][0])
    if fam == 'chain':
        reached = conds[:(chosen + 1) if isinstance(chosen, int) else len(conds)]
    else:
        reached = conds
    seen = set()
    for i, c in enumerate(reached):
        if c['k'] != 'un':
            continue
        pos = {'unless': 'unless', 'call': 'call'}.get(fam) or ('if' if i == 0 else 'elif')
        if c['n'] in seen:
            ctx.count('ns:undefined name tested again by the same conditional')
        seen.add(c['n'])
        ctx.count('ns:undefined name looked up')
        for j, (sl, typ, st) in enumerate(stack):
            where = 'outermost' if j == 0 else ('innermost' if j == len(stack) - 1 else 'between')
            if len(stack) == 1:
                where = 'only source'
            ctx.table('ns undefined name falls through', '%s/%s' % (typ, st))
            ctx.table('ns undefined name: source x where', '%s/%s/%s' % (typ, st, where))
            if j == 0:
                ctx.table('ns undefined name: tag x outermost source', '%s/%s/%s' % (pos, typ, st))


# ---------------------------------------------------------------- histories (scripts)
def tok(rng, truth=None):
    t = (rng.random() < 0.45) if truth is None else truth
    return [t, rng.randrange(len(U.TRUE if t else U.FALSE))]


def make_segment(rng, fam, conds, safe, has_else=None, exc=None, xl=None):
    """A conditional of a script template; bodies reference only names in `safe` (bound in every round)."""
    if fam == 'call':
        seg = {'fam': 'call', 'style': rng.choice(('dtml', 'dtml', 'sgml')),
               'outer': rng.choice((None, None, 'twice') + U.WRAPPERS), 'conds': conds,
               'bodies': [[]], 'else': None}
        if rng.random() < 0.15:
            seg['bare'] = True
        return seg
    if fam == 'unless':
        has_else = False
    elif has_else is None:
        has_else = rng.random() < 0.6
    if has_else and conds[0]['k'] == 'nx' and rng.random() < 0.3:
        has_else = 'named'
    seg = finish_case(rng, fam, conds, has_else,
                      referable=lambda cs, i: U.script_referable(cs, i, safe))
    if exc:
        seg['exc'] = exc if fam == 'chain' or exc == 'ret' else 'body'
        seg['xl'] = xl
    return seg


def draw_round(rng, classes, prev=None, sticky=0.5):
    kinds = {'ev': U.EV_KINDS, 'def': U.DEFINED_KINDS, 'any': U.ANY_KINDS, 'xv': ('xv',), 'ei': ('nc',)}
    b = {}
    for n in sorted(classes):
        if prev and rng.random() < sticky:
            k = prev[n]['k']
        else:
            k = rng.choice(kinds[classes[n]])
        nv = 0 if k == 'un' else (1 if k in ('np', 'nm') else rng.choice((1, 2, 2, 3)))
        b[n] = {'k': k, 'vs': [tok(rng) for _ in range(nv)]}
    return b


def gen_script(rng, uid):
    """A seeded history: 1..3 templates of 1..3 conditionals over a pool of 1..3 names (each tested as a
    name and, for some, as the one-identifier expression), two probe() expressions and one _[name];
    1..3 rounds of bindings; every template rendered at least once, up to three more renders."""
    classes = {}
    for i in range(rng.choice((1, 2, 2, 3))):
        classes['%sp%d' % (uid, i + 1)] = rng.choice(('ev', 'ev', 'def', 'any'))
    pool = sorted(classes)
    safe = set(n for n in pool if classes[n] != 'any')
    evn = [n for n in pool if classes[n] == 'ev']
    exprs = ['%se%d' % (uid, i + 1) for i in range(2)]
    for n in exprs:
        classes[n] = 'xv'
    classes[uid + 'i1'] = 'ei'
    templates = []
    xn = 0
    for ti in range(rng.choice((1, 2, 2, 3))):
        segs = []
        for si in range(rng.choice((1, 2, 2, 3))):
            fam = rng.choice(('chain',) * 4 + ('unless',) * 2 + ('call',))
            conds = []
            for i in range(rng.randint(1, 3) if fam == 'chain' else 1):
                r = rng.random()
                names = sorted(safe) if fam == 'call' else pool     # call of an unbound name is not judged
                if r < 0.5 and names:
                    c = {'k': 'nx', 'n': rng.choice(names)}
                elif r < 0.75 and evn:
                    c = {'k': 'ev', 'n': rng.choice(evn)}
                elif r < 0.92:
                    c = {'k': 'ex', 'n': rng.choice(exprs)}
                else:
                    c = {'k': 'ei', 'n': uid + 'i1'}
                c['a'] = rng.randrange(6)
                conds.append(c)
            exc = None
            if fam != 'call' and rng.random() < 0.3:
                exc = rng.choice(('body', 'cond', 'ret'))
                xn += 1
            segs.append(make_segment(rng, fam, conds, safe, exc=exc, xl='%sx%d' % (uid, xn)))
        templates.append(segs)
    rounds = []
    for r in range(rng.choice((1, 2, 2, 3))):
        rounds.append(draw_round(rng, classes, rounds[-1] if rounds else None))
    order = list(range(len(templates)))
    rng.shuffle(order)
    sched = [[ti, rng.randrange(len(rounds)), False] for ti in order]
    for _ in range(rng.randint(0, 3)):
        sched.append([rng.randrange(len(templates)), rng.randrange(len(rounds)), rng.random() < 0.2])
    script = {'fam': 'script', 'uid': uid, 'compile': rng.choice(('first', 'lazy')),
              'templates': templates, 'rounds': rounds, 'schedule': sched}
    if rng.random() < 0.4:
        # how the bindings of each round reach the template: other kinds of namespace sources
        script['nsrc'] = [rng.choice((None, ['m', rng.choice(U.MAP_STYLES)], ['mk', rng.choice(U.MAP_STYLES)],
                                      ['c', rng.choice(U.OBJ_STYLES)])) for _ in rounds]
    return script


def position_segment(rng, uid, pos, mode, x, safe, **kw):
    """A conditional whose condition on x stands in the given tag: if / elif / unless / call."""
    c = {'k': mode, 'n': x, 'a': rng.randrange(6)}
    if pos == 'if':
        return make_segment(rng, 'chain', [c], safe, **kw)
    if pos == 'elif':                   # behind an expression that is false in every round
        return make_segment(rng, 'chain', [{'k': 'ex', 'n': uid + 'e1', 'a': rng.randrange(6)}, c], safe, **kw)
    if pos == 'unless':
        return make_segment(rng, 'unless', [c], safe, **kw)
    if pos == 'call':
        return make_segment(rng, 'call', [c], safe)
    raise ValueError(pos)


def spelling_script(rng, uid, p1, m1, p2, m2, bind, order):
    """Two templates that test one fresh identifier, each as a name or as the expression made of that
    identifier, in each tag position; rendered alternately in two rounds (second round: another kind
    of binding, the opposite truth)."""
    x = uid + 'p1'
    safe = set([x])
    templates = [[position_segment(rng, uid, p1, m1, x, safe, has_else=True)],
                 [position_segment(rng, uid, p2, m2, x, safe, has_else=True)]]
    k, t = bind
    r0 = {x: {'k': k, 'vs': [tok(rng, t)]}, uid + 'e1': {'k': 'xv', 'vs': [tok(rng, False)]}}
    r1 = {x: {'k': rng.choice(U.EV_KINDS), 'vs': [tok(rng, not t)]},
          uid + 'e1': {'k': 'xv', 'vs': [tok(rng, False)]}}
    return {'fam': 'script', 'uid': uid, 'compile': order, 'templates': templates, 'rounds': [r0, r1],
            'schedule': [[0, 0, False], [1, 0, False], [0, 1, False], [1, 1, False]]}


def exception_script(rng, uid, first, pos, kind, truth, flip):
    """One template: a conditional that evaluates the name x and is then left by an exception (handled
    by the dtml-try around it), followed by conditionals that test x again; x is a callable whose
    second evaluation returns the same or the opposite truth (plain values stay)."""
    x = uid + 'p1'
    safe = set([x])
    fam, exc = first
    c = {'k': 'nx', 'n': x, 'a': rng.randrange(6)}
    conds = [c]
    if exc == 'cond' and rng.random() < 0.5:
        conds.append({'k': 'ex', 'n': uid + 'e1', 'a': rng.randrange(6)})
    segs = [make_segment(rng, fam, conds, safe, has_else=(exc != 'cond') or None, exc=exc, xl=uid + 'x1'),
            position_segment(rng, uid, pos, 'nx', x, safe, has_else=True),
            position_segment(rng, uid, rng.choice(POSITIONS), 'nx', x, safe)]
    if exc == 'cond':
        truth = False                   # the raising condition is reached only behind false conditions
    vs = [tok(rng, truth)]
    if kind in U.SCRIPT_CALLABLE:
        vs.append(tok(rng, (not truth) if flip else truth))
        vs.append(tok(rng))
    r0 = {x: {'k': kind, 'vs': vs}, uid + 'e1': {'k': 'xv', 'vs': [tok(rng, False)]}}
    return {'fam': 'script', 'uid': uid, 'compile': 'first', 'templates': [segs], 'rounds': [r0],
            'schedule': [[0, 0, False], [0, 0, False]]}


def observe_script(script):
    """Compile / render the history with the real engine -> per scheduled render
    (source, output | None, events, exception | None); stops at the first exception."""
    from DocumentTemplate.DT_HTML import HTML
    nt = len(script['templates'])
    sources = [U.script_source(script, ti) for ti in range(nt)]
    compiled = {}
    res = []
    early = None
    if script['compile'] == 'first':
        try:
            for ti in range(nt):
                compiled[ti] = HTML(sources[ti])         # the constructor compiles
        except Exception as e:
            early = e
    for ti, ri, fresh in script['schedule']:
        if early is not None:
            res.append((sources[ti], None, [], early))
            break
        rec = Recorder()
        client, mapping, kw = U.make_script_call(script, ri, rec)
        out = exc = None
        try:
            if fresh or ti not in compiled:
                compiled[ti] = HTML(sources[ti])
            out = compiled[ti](client, mapping, **kw)
        except Exception as e:
            exc = e
        res.append((sources[ti], out, [(k, s) for k, s, d in rec.events], exc))
        if exc is not None:
            break
    return res


def run_script(ctx, script, family='seeded'):
    preds = U.predict_script(script)
    ctx.case(json.dumps(script, sort_keys=True), any(p['events'] for p in preds))
    ctx.count('script:scripts')
    ctx.table('script family', family)
    got = observe_script(script)
    for step, (src, out, got_ev, exc) in enumerate(got):
        p = preds[step]
        ti, ri, fresh = script['schedule'][step]
        ctx.count('script:renders compared')
        ctx.count('monitor:evaluation events compared', len(p['events']))
        problems = []
        if exc is not None:
            problems.append('raised %s: %s' % (type(exc).__name__, str(exc)[:160]))
        else:
            if out != p['out']:
                problems.append('output %r, expected %r' % (U_short(out), U_short(p['out'])))
            if got_ev != p['events']:
                problems.append('evaluation trace %r, expected %r' % (got_ev[:12], p['events'][:12]))
        if problems:
            what = ('history step %d (template %d, round %d%s, %d render(s) before): %s'
                    % (step, ti, ri, ', compiled again' if fresh else '', step, '; '.join(problems)))
            ctx.violation(what, script, mech=classify(script, what),
                          key='script_%s_%s' % (family.replace(' ', '-'), 'first-render' if step == 0 else 'later-render'),
                          detail={'source': src, 'sources': [U.script_source(script, i)
                                                             for i in range(len(script['templates']))],
                                  'expected_output': p['out'], 'output': out,
                                  'expected_events': p['events'], 'events': got_ev,
                                  'bindings': script['rounds'][ri]})
            return
    # ---- coverage bookkeeping (only histories that were compared to the end)
    for k, n in U.script_history(script).items():
        if n:
            ctx.count('script:history:' + k, n)
    ctx.table('script templates', len(script['templates']))
    ctx.table('script renders', len(script['schedule']))
    ctx.table('script compile order', script['compile'])
    for step, p in enumerate(preds):
        ti, ri, fresh = script['schedule'][step]
        if p['varied']:
            ctx.count('script:render in which a callable returned another value on a later evaluation')
        if p['raised']:
            ctx.count('script:conditional left by an exception', p['raised'])
        if p['after_exc']:
            ctx.count('script:name tested again after the conditional that remembered it was left by an exception',
                      p['after_exc'])
        for seg, chosen in zip(script['templates'][ti], p['chosen']):
            ctx.table('script segment', '%s/%s/%s' % (seg['fam'], seg.get('outer'), seg.get('exc')))
            if 'X' in chosen:
                ctx.table('script conditional left by', seg['exc'], chosen.count('X'))
            for ch in chosen:
                ctx.table('script branch taken', '%s/%s' % (seg['fam'], {None: 'nothing', 'E': 'else',
                                                                        'X': 'exception'}.get(ch, ch)))
            for c in seg['conds']:
                ctx.table('script condition spelling x binding',
                          '%s/%s' % (c['k'], script['rounds'][ri][c['n']]['k']))
                if script.get('nsrc') and script['nsrc'][ri]:
                    how = '/'.join(script['nsrc'][ri])
                    ctx.table('script namespace source', how)
                    if c['k'] == 'nx' and script['rounds'][ri][c['n']]['k'] == 'un':
                        ctx.table('script undefined name x namespace source', how)
                        if any(script['rounds'][r][c['n']]['k'] != 'un' for tj, r, f in script['schedule']
                               if tj == ti):
                            ctx.count('script:name undefined in an odd namespace, defined in another render '
                                      'of the same template')
    if ctx.shard % 8 == 7 and not ctx.samples and len(script['templates']) > 1 and \
            any(p['raised'] for p in preds):
        ctx.sample({'history': [{'template': ti, 'round': ri, 'compiled again': fresh, 'source': g[0],
                                 'bindings': script['rounds'][ri], 'output': g[1], 'events': g[2],
                                 'predicted_output': p['out'], 'predicted_events': p['events']}
                                for (ti, ri, fresh), g, p in zip(script['schedule'], got, preds)]})


# ---------------------------------------------------------------- one case against the engine
def observe(case, chosen=None):
    """Render the case with the real engine -> (source, output | None, events, exception | None)."""
    from DocumentTemplate.DT_HTML import HTML
    src = U.build_source(case)
    rec = Recorder()
    out = exc = None
    if case.get('ns'):
        tpl, client, mapping, kw = U.make_ns_render(case, rec, U.armed_names(case, chosen))
        try:
            out = tpl(client, **kw) if mapping is None else tpl(client, mapping, **kw)
        except Exception as e:
            exc = e
        return src, out, [(k, s) for k, s, d in rec.events], exc
    mapping, kw = U.make_namespace(case, rec, U.armed_names(case, chosen))
    try:
        out = HTML(src)(None, mapping, **kw)
    except Exception as e:                      # judged by the caller
        exc = e
    return src, out, [(k, s) for k, s, d in rec.events], exc


def classify(case, what):
    """Mechanism keys of genuine defects of the unchanged tree (none known for C09)."""
    return None


def run_case(ctx, case, sample=False):
    exp_out, exp_ev, chosen = U.predict(case)
    conds = case['conds']
    fam = case['fam']
    observable = any(c['k'] != 'np' for c in conds)
    if fam == 'call':
        rendered_refs = []
    elif chosen == 'E':
        rendered_refs = case['else']
    elif chosen is None:
        rendered_refs = []
    else:
        rendered_refs = case['bodies'][chosen]
    ctx.case(json.dumps(case, sort_keys=True), observable or bool(rendered_refs))
    src, out, got_ev, exc = observe(case, chosen)
    if U.armed_names(case, chosen):
        ctx.count('chain:cases with the later conditions armed to raise')
    key = '%s_%s' % (fam, '-'.join('%s%s' % (c['k'], {True: 'T', False: 'F', None: ''}[c['t']])
                                   for c in conds))
    ctx.count('%s:cases' % fam)
    ctx.count('monitor:evaluation events compared', len(exp_ev))

    # ---- coverage bookkeeping
    kinds_of = {}
    for c in conds:
        kinds_of.setdefault(c['n'], c['k'])
        ctx.table('condition kind x truth', '%s/%s' % (c['k'], c['t']))
        if c['k'] not in ('un', 'nt'):
            ctx.table('condition values', repr(U.value_of(c)))
    ctx.table('enclosing tag', '%s/%s' % (fam, case.get('outer')))
    ctx.table('syntax', case['style'])
    if fam == 'chain':
        ctx.table('chain length', len(conds))
        if isinstance(chosen, int):
            ctx.table('branch taken', chosen)
            if chosen < len(conds) - 1:
                ctx.count('chain:true condition followed by further conditions')
                if any(c['k'] in U.CALL_EVENT or c['k'] == 'nm' for c in conds[chosen + 1:]):
                    ctx.count('chain:...whose later conditions are observable')
        elif chosen == 'E':
            ctx.table('branch taken', 'else')
        else:
            ctx.table('branch taken', 'nothing')
        names = [c['n'] for c in conds[:(chosen + 1) if isinstance(chosen, int) else len(conds)]
                 if c['k'] in U.NAMED_DEFINED]
        if len(set(names)) < len(names):
            ctx.count('chain:repeated name reached twice')
        if any(c['k'] == 'un' for c in conds[:(chosen if isinstance(chosen, int) else len(conds))]):
            ctx.count('chain:undefined name passed over as false')
    if fam == 'unless':
        ctx.table('unless', 'body rendered' if chosen == 0 else 'body skipped')
        ctx.table('unless body type x rendered', '%s/%s' % (U.btype_of(case, 0), chosen == 0))
    if fam == 'chain':
        last = len(conds) - 1
        for i in range(len(conds)):
            bt = U.btype_of(case, i)
            if bt == 'full' and not case['bodies'][i]:
                bt = 'text'
            ctx.table('body type x position', '%s/%s' % (bt, 'first' if i == 0 else
                                                         ('last' if i == last else 'middle')))
            if i == chosen:
                ctx.table('chosen body type', bt)
                if bt in ('empty', 'ws') and (i < last or case.get('else') is not None):
                    ctx.count('chain:true branch with an empty / blank body followed by further branches')
        if case.get('else') is not None:
            et = U.btype_of(case, 'E')
            if et == 'full' and not case['else']:
                et = 'text'
            ctx.table('else body type', et)
            ctx.table('else spelling', '%s after %d elif' % ('named' if case.get('ename') else 'bare',
                                                             min(last, 2)))
            if chosen == 'E':
                ctx.table('chosen body type', 'else/' + et)
        if all(U.btype_of(case, i) == 'empty' for i in range(len(conds))) and \
                (case.get('else') is None or U.btype_of(case, 'E') == 'empty'):
            ctx.count('chain:all bodies completely empty')
        if case.get('endname'):
            ctx.count('chain:end tag repeats the name')
        if case.get('bare'):
            ctx.count('chain:no text around the conditional')
    for name, form, wrappers in rendered_refs:
        ctx.table('rendered reference form', form)
        ctx.table('rendered reference depth', len(wrappers))
        ctx.table('rendered reference form x innermost tag',
                  '%s/%s' % (form, wrappers[-1] if wrappers else '-'))
        for w in wrappers:
            ctx.table('rendered reference wrapper', w)
        if kinds_of.get(name) in U.CALL_EVENT or kinds_of.get(name) == 'nm':
            ctx.count('refs:rendered re-reference of an observable name')

    if case.get('ns'):
        ns_facts(ctx, case, chosen)

    # ---- verdict
    if exc is not None:
        if fam == 'call' and conds[0]['k'] == 'un':
            ctx.table('call of undefined name', 'raises %s' % type(exc).__name__)
            if case.get('ns'):
                # whether a name is defined does not depend on how a source words its "no": the same
                # call over ordinary dicts / objects must then raise as well
                ctx.count('ns:call of an undefined name compared with the plain-source twin')
                tsrc, tout, tev, texc = observe(U.ns_plain(case), chosen)
                if texc is None:
                    what = ('call of an undefined name raised %s: %s, but returns %r when every source is an '
                            'ordinary dict / object' % (type(exc).__name__, str(exc)[:120], U_short(tout, 60)))
                    ctx.violation(what, case, mech=classify(case, what), key=key + '_ns_raise',
                                  detail={'source': src, 'namespace': case['ns']})
            return
        what = 'render raised %s: %s' % (type(exc).__name__, str(exc)[:160])
        detail = {'source': src, 'expected': exp_out, 'events': got_ev}
        if case.get('ns'):
            detail['namespace sources, outermost first'] = U.ns_stack(case['ns'])
        ctx.violation(what, case, mech=classify(case, what), key=key + ('_ns' if case.get('ns') else '') + '_raise',
                      detail=detail)
        return
    if fam == 'call' and conds[0]['k'] == 'un':
        ctx.table('call of undefined name', 'returns')
    problems = []
    if out != exp_out:
        problems.append('output %r, expected %r' % (U_short(out), U_short(exp_out)))
    if got_ev != exp_ev:
        problems.append('evaluation trace %r, expected %r: %s'
                        % (got_ev[:12], exp_ev[:12], U.diagnose(case, chosen, exp_ev, got_ev)))
    if fam == 'call' and isinstance(out, str) and out.replace('<<', '').replace('>>', '').strip('AB'):
        problems.append('call emitted text')
    if problems:
        what = '; '.join(problems)
        detail = {'source': src, 'expected_output': exp_out, 'output': out,
                  'expected_events': exp_ev, 'events': got_ev}
        if case.get('ns'):
            detail['namespace sources, outermost first'] = U.ns_stack(case['ns'])
        ctx.violation(what, case, mech=classify(case, what), key=key + ('_ns' if case.get('ns') else ''),
                      detail=detail)
    if sample or wants_sample(ctx, case, chosen, rendered_refs):
        smp = {'source': src, 'conditions': [(c['k'], c['n'], None if c['k'] == 'un' else
                                              repr(U.value_of(c))) for c in conds],
               'output': out, 'events': got_ev, 'predicted_output': exp_out,
               'predicted_events': exp_ev}
        if case.get('ns'):
            smp['namespace sources under the conditional, outermost first'] = U.ns_stack(case['ns'])
            smp['names bound in'] = case['ns']['place']
        ctx.sample(smp)
    return out


def wants_sample(ctx, case, chosen, rendered_refs):
    """The driver keeps one sample per shard: pick a different kind of case in each shard."""
    if ctx.samples or ctx.shard % 8 == 7:       # shards 7, 15, ...: a history is the sample
        return False
    if ctx.shard % 8 == 6:                      # shards 6, 14, ...: an undefined name in an odd namespace
        return bool(case.get('ns')) and len(U.ns_stack(case['ns'])) >= 3 and \
            any(c['k'] == 'un' for c in case['conds']) and bool(rendered_refs)
    fam, conds, sel = case['fam'], case['conds'], ctx.shard % 4
    deep = any(len(r[2]) >= 2 for r in rendered_refs)
    if sel == 0:
        return (fam == 'chain' and len(conds) >= 3 and isinstance(chosen, int) and
                0 < chosen < len(conds) - 1 and deep)
    if sel == 1:
        names = [c['n'] for c in conds]
        return fam == 'chain' and len(set(names)) < len(names) and bool(rendered_refs)
    if sel == 2:
        return fam == 'unless' and deep
    return fam == 'call' and case.get('outer') == 'in' and conds[0]['k'] in ('nc', 'ex')


def U_short(x, n=240):
    s = x if isinstance(x, str) else repr(x)
    return s if len(s) <= n else s[:n] + '...'


def run_unless(ctx, case, sample=False):
    """unless case + its one-condition if twin: exactly one of the two renders the body."""
    out_u = run_case(ctx, case, sample)
    twin = dict(case, fam='chain')
    # the twin's body may only reference the name when it was found defined (same rule)
    out_i = run_case(ctx, twin)
    if isinstance(out_u, str) and isinstance(out_i, str):
        if U.btype_of(case, 0) != 'full':
            return                  # no literal marker in the body: the model comparison decides
        ctx.count('unless:complement pairs compared')
        if ('B0[' in out_u) == ('B0[' in out_i):
            ctx.violation('unless and if over the same condition %s the body (%r / %r)'
                          % ('both rendered' if 'B0[' in out_u else 'both skipped',
                             U_short(out_u, 80), U_short(out_i, 80)),
                          case, mech=classify(case, 'complement'),
                          key='unless_pair_%s%s' % (case['conds'][0]['k'], case['conds'][0]['t']))


def run_ns(ctx, case):
    if case['fam'] == 'unless':
        run_unless(ctx, case)
    else:
        run_case(ctx, case)


def controls(ctx):
    """Sensitivity controls: the monitor must see re-evaluation where nothing remembers a value."""
    from DocumentTemplate.DT_HTML import HTML
    from vlib.common import ProbeCallable
    rec = Recorder()
    out = HTML('<dtml-var c1>|<dtml-var c1>')(None, U.LogMap(rec, {}), c1=ProbeCallable(rec, 'c1', 'x'))
    if rec.calls() == ['c1', 'c1'] and out == 'x|x':
        ctx.count('control:two plain references seen as two calls')
    else:
        ctx.inconclusive('control failed: two references outside a conditional gave calls %r, output %r'
                         % (rec.calls(), out))
    rec = Recorder()

    def probe(label):
        rec.log('call', label)
        return 1
    out = HTML('<dtml-if "probe(\'e\')"><dtml-var c1><dtml-var c1></dtml-if>')(
        None, U.LogMap(rec, {}), c1=ProbeCallable(rec, 'c1', 'x'), probe=probe)
    if rec.calls() == ['e', 'c1', 'c1'] and out == 'xx':
        ctx.count('control:references to a name the conditional did not evaluate are calls')
    else:
        ctx.inconclusive('control failed: uncached references gave calls %r, output %r'
                         % (rec.calls(), out))
    rec = Recorder()
    m = U.LogMap(rec, {'m1': 'v'})
    out = HTML('<dtml-var m1><dtml-var m1>')(None, m)
    if [e[:2] for e in rec.events] == [('get', 'm1'), ('get', 'm1')] and out == 'vv':
        ctx.count('control:mapping lookups seen')
    else:
        ctx.inconclusive('control failed: logging mapping saw %r, output %r' % (rec.events, out))


# ---------------------------------------------------------------- shard
# engine internals entered by the workload: diagnosis only (the verdict and `inconclusive` rest on the
# output / trace comparisons, which name no engine function)
ANCHORS = (('render_blocks_', '_DocumentTemplate', 'render_blocks_'),
           ('If.__init__', 'DT_If', 'If.__init__'),
           ('Unless.__init__', 'DT_If', 'Unless.__init__'),
           ('Call.__init__', 'DT_Var', 'Call.__init__'),
           ('TemplateDict.getitem', '_DocumentTemplate', 'TemplateDict.getitem'))


def anchors():
    import importlib
    out = []
    for label, mod, path in ANCHORS:
        try:
            obj = importlib.import_module('DocumentTemplate.' + mod)
            for part in path.split('.'):
                obj = getattr(obj, part)
        except (ImportError, AttributeError):
            continue
        out.append((label, obj))
    return out


def run(ctx, spec):
    from vlib.reach import Reach
    reach = Reach()
    for label, fn in anchors():
        reach.watch(label, fn)
    reach.start()
    rng = ctx.rng
    tier = ctx.tier
    if ctx.shard == 0:
        controls(ctx)

    # 1. exhaustive chains
    idx = 0
    for n in range(1, MAXN[tier] + 1):
        for combo in itertools.product(range(len(OPTS)), repeat=n):
            for has_else in (False, True, 'named'):
                if has_else == 'named' and OPTS[combo[0]][0] not in U.NAMED:
                    continue                    # the long form repeats a *name*
                mine = idx % ctx.nshards == ctx.shard
                idx += 1
                if not mine:
                    continue
                conds = [make_cond(rng, OPTS[o][0], OPTS[o][1], 'c%d' % (i + 1))
                         for i, o in enumerate(combo)]
                case = finish_case(rng, 'chain', conds, has_else)
                run_case(ctx, case)
                ctx.count('chain:exhaustive cases')

    # 1b. exhaustive body types: every chain of 1..G conditions x each condition in GRID_OPTS x each
    #     body in {completely empty, white space only, text only, text + references} in every
    #     position x else in {absent, the same four body types}
    idx = 0
    for n in range(1, GRID_N[tier] + 1):
        opts = GRID_OPTS if n <= 3 else GRID_OPTS_LONG
        for combo in itertools.product(opts, repeat=n):
            for bts in itertools.product(GRID_BTYPES, repeat=n):
                for etype in (None,) + GRID_BTYPES:
                    mine = idx % ctx.nshards == ctx.shard
                    idx += 1
                    if not mine:
                        continue
                    conds = [make_cond(rng, k, t, 'c%d' % (i + 1)) for i, (k, t) in enumerate(combo)]
                    has_else = bool(etype)
                    if has_else and conds[0]['k'] in U.NAMED and rng.random() < 0.5:
                        has_else = 'named'
                    run_case(ctx, finish_case(rng, 'chain', conds, has_else, btypes=bts, etype=etype))
                    ctx.count('chain:exhaustive body-type cases')

    # 1c. exhaustive repeated names: chains of 2..D positions, each position one of the two names
    #     c1 / c2 or an expression (true / false); every binding of the two names
    idx = 0
    for n in range(2, DUP_N[tier] + 1):
        for b1 in DUP_BIND:
            for b2 in DUP_BIND:
                for combo in itertools.product(('c1', 'c2', 'exT', 'exF'), repeat=n):
                    for has_else in (False, True):
                        mine = idx % ctx.nshards == ctx.shard
                        idx += 1
                        if not mine:
                            continue
                        proto = {'c1': make_cond(rng, b1[0], b1[1], 'c1'),
                                 'c2': make_cond(rng, b2[0], b2[1], 'c2')}
                        conds = []
                        for i, what in enumerate(combo):
                            if what in proto:
                                c = dict(proto[what])
                                c['a'] = rng.randrange(6)
                            else:
                                c = make_cond(rng, 'ex', what == 'exT', 'e%d' % (i + 1))
                            conds.append(c)
                        if has_else and conds[0]['k'] in U.NAMED and rng.random() < 0.3:
                            has_else = 'named'
                        run_case(ctx, finish_case(rng, 'chain', conds, has_else))
                        ctx.count('chain:exhaustive repeated-name cases')

    # 2. seeded length-5 chains (quick only; thorough enumerates them)
    for _ in range(SEEDED_N5[tier] // ctx.nshards):
        conds = []
        for i in range(5):
            k, t = rng.choice(OPTS)
            conds.append(make_cond(rng, k, t, 'c%d' % (i + 1)))
        run_case(ctx, finish_case(rng, 'chain', conds, rng.random() < 0.5))
        ctx.count('chain:seeded length-5 cases')

    # 3. seeded chains over all kinds, with repeated names
    for i in range(SEEDED_EXT[tier] // ctx.nshards):
        run_case(ctx, gen_ext(rng, 5))
        ctx.count('chain:seeded all-kinds cases')

    # 4. unless (+ if twin) and call: every kind x every value x every enclosing tag
    singles = []
    for kind in EXT_KINDS:
        if kind == 'un':
            singles.append((kind, None, 0))
        elif kind == 'nt':
            singles += [(kind, True, 0), (kind, False, 0)]
        else:
            singles += [(kind, True, v) for v in range(len(U.TRUE))]
            singles += [(kind, False, v) for v in range(len(U.FALSE))]
    idx = 0
    for kind, truth, v in singles:
        for outer in U.OUTERS:
            for rep in range(UNLESS_SHAPES[tier]):
                mine = idx % ctx.nshards == ctx.shard
                idx += 1
                if not mine:
                    continue
                c = make_cond(rng, kind, truth, 'c1')
                c['v'] = v
                case = finish_case(rng, 'unless', [c], False,
                                   btypes=[('refs', 'text', 'empty', 'ws', 'refsonly', 'refs')[rep % 6]])
                case['outer'] = outer
                run_unless(ctx, case)
        for outer in (None, 'twice') + U.WRAPPERS:
            for style in ('dtml', 'sgml'):
                for a in range(3):
                    mine = idx % ctx.nshards == ctx.shard
                    idx += 1
                    if not mine:
                        continue
                    c = {'k': kind, 'n': 'c1', 't': truth, 'v': v, 'a': a}
                    case = {'fam': 'call', 'style': style, 'outer': outer, 'conds': [c],
                            'bodies': [[]], 'else': None}
                    run_case(ctx, case)

    # 5. exhaustive body shapes: every insertion form x every wrapper stack up to the depth bound x
    #    every kind of defined named condition x true/false (one condition, with else: either way a
    #    body that re-references the name is rendered)
    idx = 0
    for depth in range(SHAPE_DEPTH[tier] + 1):
        for stack in itertools.product(U.WRAPPERS, repeat=depth):
            for form in U.FORMS:
                for kind in U.NAMED_DEFINED:
                    for truth in (True, False):
                        mine = idx % ctx.nshards == ctx.shard
                        idx += 1
                        if not mine:
                            continue
                        c = make_cond(rng, kind, truth, 'c1')
                        ref = ['c1', form, list(stack)]
                        case = {'fam': 'chain', 'style': rng.choice(('dtml', 'sgml')),
                                'outer': rng.choice(U.OUTERS), 'conds': [c],
                                'bodies': [[ref]], 'else': [ref]}
                        run_case(ctx, case)
                        ctx.count('chain:exhaustive body-shape cases')

    # 6. histories.  6a exhaustive spelling history: two templates over one fresh identifier x each tag
    #    position x {name, one-identifier expression} for both x every binding x both compile orders
    uid = lambda i: 's%dk%d' % (ctx.shard, i)       # names never used before in this process
    serial = 0
    idx = 0
    for p1 in POSITIONS:
        for m1 in ('nx', 'ev'):
            for p2 in POSITIONS:
                for m2 in ('nx', 'ev'):
                    for bind in SPELL_BIND:
                        for order in ('first', 'lazy'):
                            mine = idx % ctx.nshards == ctx.shard
                            idx += 1
                            if not mine:
                                continue
                            serial += 1
                            run_script(ctx, spelling_script(rng, uid(serial), p1, m1, p2, m2, bind, order),
                                       'spelling grid')
                            ctx.count('script:exhaustive spelling-history cases')
    # 6b exhaustive exception history: a conditional left by an exception x the tag that tests the name
    #    next x every kind of binding x first truth x second evaluation same / opposite
    idx = 0
    for first in EXC_FIRST:
        for pos in POSITIONS:
            for kind in U.DEFINED_KINDS:
                for truth in (True, False):
                    for flip in (False, True):
                        mine = idx % ctx.nshards == ctx.shard
                        idx += 1
                        if not mine:
                            continue
                        serial += 1
                        run_script(ctx, exception_script(rng, uid(serial), first, pos, kind, truth, flip),
                                   'exception grid')
                        ctx.count('script:exhaustive exception-history cases')
    # 6c seeded histories
    for _ in range(SCRIPTS[tier] // ctx.nshards):
        serial += 1
        run_script(ctx, gen_script(rng, uid(serial)))
        ctx.count('script:seeded histories')
    # 7. namespace sources: an undefined name falls through every source of the namespace, whatever kind of
    #    mapping / object each one is and however it words its KeyError / AttributeError.
    #    7a exhaustive: source layout x style of the sources x tag position of the undefined name
    idx = 0
    for layout in NS_LAYOUTS:
        for si in range(len(U.MAP_STYLES)):
            for pos in NS_POSITIONS:
                mine = idx % ctx.nshards == ctx.shard
                idx += 1
                if not mine:
                    continue
                run_ns(ctx, grid_ns(rng, layout, si, pos))
                ctx.count('ns:exhaustive layout x style x position cases')
    #    7b seeded: chains / unless / call over all kinds of conditions in drawn namespaces
    for _ in range(NS_SEEDED[tier] // ctx.nshards):
        run_ns(ctx, gen_ns(rng))
        ctx.count('ns:seeded cases')
    reach.stop()
    reach.report(ctx)


def finish(agg):
    c = agg['counters']
    t = agg['tables']
    inc = []
    # a renamed / rewired engine helper must not mask an oracle that did evaluate: diagnosis only
    unreached = [label for label, _, _ in ANCHORS if not c.get('reach:' + label)]
    need = ['chain:true condition followed by further conditions',
            'chain:...whose later conditions are observable',
            'monitor:evaluation events compared',
            'refs:rendered re-reference of an observable name',
            'chain:repeated name reached twice',
            'chain:true branch with an empty / blank body followed by further branches',
            'chain:all bodies completely empty',
            'chain:end tag repeats the name',
            'chain:no text around the conditional',
            'chain:cases with the later conditions armed to raise',
            'chain:undefined name passed over as false',
            'unless:complement pairs compared', 'call:cases',
            'control:two plain references seen as two calls',
            'control:references to a name the conditional did not evaluate are calls',
            'control:mapping lookups seen']
    need += ['script:renders compared', 'script:seeded histories',
             'script:history:name after expression', 'script:history:expression after name',
             'script:history:re-render, other round', 'script:history:re-render, same round',
             'script:history:kind changed between renders', 'script:history:fresh compile',
             'script:render in which a callable returned another value on a later evaluation',
             'script:conditional left by an exception',
             'script:name tested again after the conditional that remembered it was left by an exception']
    need += ['ns:cases', 'ns:seeded cases', 'ns:undefined name looked up',
             'ns:undefined name tested again by the same conditional']
    for k in need:
        if not c.get(k):
            inc.append('deciding counter is zero: ' + k)
    nsgrid = len(NS_LAYOUTS) * len(U.MAP_STYLES) * len(NS_POSITIONS)
    if c.get('ns:exhaustive layout x style x position cases', 0) != nsgrid:
        inc.append('exhaustive namespace-source enumeration incomplete: %s of %d'
                   % (c.get('ns:exhaustive layout x style x position cases'), nsgrid))
    styles = [('map', st) for st in U.MAP_STYLES] + [('obj', st) for st in U.OBJ_STYLES]
    for typ, st in styles:
        for pos in ('if', 'elif', 'unless', 'call'):
            if not t.get('ns undefined name: tag x outermost source', {}).get('%s/%s/%s' % (pos, typ, st)):
                inc.append('namespace sources: no undefined name in %s looked up with a %s/%s source outermost'
                           % (pos, typ, st))
        for where in ('outermost', 'between', 'innermost', 'only source'):
            if not t.get('ns undefined name: source x where', {}).get('%s/%s/%s' % (typ, st, where)):
                inc.append('namespace sources: no undefined name fell through a %s/%s source as %s'
                           % (typ, st, where))
    for kind in U.INNER_KINDS + ('sub-template/plain', 'sub-template/defaults'):
        if not t.get('ns inner tag', {}).get(kind):
            inc.append('namespace sources: inner tag never generated: ' + kind)
    spell = (len(POSITIONS) * 2) ** 2 * len(SPELL_BIND) * 2
    if c.get('script:exhaustive spelling-history cases', 0) != spell:
        inc.append('exhaustive spelling-history enumeration incomplete: %s of %d'
                   % (c.get('script:exhaustive spelling-history cases'), spell))
    exch = len(EXC_FIRST) * len(POSITIONS) * len(U.DEFINED_KINDS) * 4
    if c.get('script:exhaustive exception-history cases', 0) != exch:
        inc.append('exhaustive exception-history enumeration incomplete: %s of %d'
                   % (c.get('script:exhaustive exception-history cases'), exch))
    for sp in ('nx', 'ev'):
        for bk in U.EV_KINDS:
            if not t.get('script condition spelling x binding', {}).get('%s/%s' % (sp, bk)):
                inc.append('history: spelling %s never rendered over a %s binding' % (sp, bk))
    for how in ('body', 'cond', 'ret'):
        if not t.get('script conditional left by', {}).get(how):
            inc.append('history: no conditional was left by: ' + how)
    if not c.get('script:name undefined in an odd namespace, defined in another render of the same template'):
        inc.append('history: no name was undefined in a render with other namespace sources and defined in '
                   'another render of the same template')
    for how in ('m', 'mk', 'c'):
        if not any(k.startswith(how + '/') and n for k, n in
                   t.get('script undefined name x namespace source', {}).items()):
            inc.append('history: no undefined name rendered with namespace source kind ' + how)
    for bk in ('nt', 'nm', 'un'):
        if not t.get('script condition spelling x binding', {}).get('nx/%s' % bk):
            inc.append('history: a name never rendered over a %s binding' % bk)
    for form in U.FORMS:
        if not t.get('rendered reference form', {}).get(form):
            inc.append('reference form never rendered: ' + form)
    for w in U.WRAPPERS:
        if not t.get('rendered reference wrapper', {}).get(w):
            inc.append('wrapper never rendered around a reference: ' + w)
    for d in range(4):
        if not t.get('rendered reference depth', {}).get(str(d)):
            inc.append('no reference rendered at depth %d' % d)
    for k, tr in OPTS:
        if not t.get('condition kind x truth', {}).get('%s/%s' % (k, tr)):
            inc.append('condition option never used: %s/%s' % (k, tr))
    for b in ('body rendered', 'body skipped'):
        if not t.get('unless', {}).get(b):
            inc.append('unless never observed with ' + b)
    for bt in ('empty', 'ws', 'text', 'full', 'refsonly'):
        for pos in ('first', 'middle', 'last'):
            if not t.get('body type x position', {}).get('%s/%s' % (bt, pos)):
                inc.append('body type never generated: %s in %s position' % (bt, pos))
        if not t.get('chosen body type', {}).get(bt):
            inc.append('body type never the chosen branch: ' + bt)
        if not t.get('else body type', {}).get(bt):
            inc.append('else body type never generated: ' + bt)
    for sp in ('bare', 'named'):
        for k in range(3):
            if not t.get('else spelling', {}).get('%s after %d elif' % (sp, k)):
                inc.append('else spelling never generated: %s after %d elif' % (sp, k))
    n = MAXN[agg['tier']]
    named_first = sum(1 for k, tr in OPTS if k in U.NAMED)
    total = sum(2 * len(OPTS) ** k + named_first * len(OPTS) ** (k - 1) for k in range(1, n + 1))
    grid = 0
    for k in range(1, GRID_N[agg['tier']] + 1):
        o = len(GRID_OPTS) if k <= 3 else len(GRID_OPTS_LONG)
        grid += (o * len(GRID_BTYPES)) ** k * (1 + len(GRID_BTYPES))
    if c.get('chain:exhaustive body-type cases', 0) != grid:
        inc.append('exhaustive body-type enumeration incomplete: %s of %d'
                   % (c.get('chain:exhaustive body-type cases'), grid))
    dups = sum(len(DUP_BIND) ** 2 * 4 ** k * 2 for k in range(2, DUP_N[agg['tier']] + 1))
    if c.get('chain:exhaustive repeated-name cases', 0) != dups:
        inc.append('exhaustive repeated-name enumeration incomplete: %s of %d'
                   % (c.get('chain:exhaustive repeated-name cases'), dups))
    if c.get('chain:exhaustive cases', 0) != total:
        inc.append('exhaustive chain enumeration incomplete: %s of %d'
                   % (c.get('chain:exhaustive cases'), total))
    shapes = sum(len(U.WRAPPERS) ** d for d in range(SHAPE_DEPTH[agg['tier']] + 1))
    shapes *= len(U.FORMS) * len(U.NAMED_DEFINED) * 2
    if c.get('chain:exhaustive body-shape cases', 0) != shapes:
        inc.append('exhaustive body-shape enumeration incomplete: %s of %d'
                   % (c.get('chain:exhaustive body-shape cases'), shapes))
    return {'inconclusive': inc,
            'coverage': {'exhaustive': True,
                         'engine anchors not entered (diagnosis only)': unreached,
                         'exhaustive_part': 'chains of 1..%d conditions x %d options per condition x '
                                            'else absent / <dtml-else> / <dtml-else NAME> = %d cases; '
                                            'body types: chains of 1..%d conditions x every body in '
                                            '{empty, blank, text, text+references} x else absent or one '
                                            'of the four = %d cases; repeated names: %d cases; '
                                            'body shapes: %d forms x all wrapper stacks of depth 0..%d '
                                            'x %d named kinds x true/false = %d cases; spelling '
                                            'histories: %d; exception histories: %d; namespace '
                                            'sources: %d layouts x %d styles x %d tag positions of an '
                                            'undefined name = %d'
                                            % (n, len(OPTS), total, GRID_N[agg['tier']], grid, dups,
                                               len(U.FORMS), SHAPE_DEPTH[agg['tier']],
                                               len(U.NAMED_DEFINED), shapes, spell, exch,
                                               len(NS_LAYOUTS), len(U.MAP_STYLES), len(NS_POSITIONS), nsgrid),
                         'explanation': 'values, spelling, enclosing tag and body references of the '
                                        'exhaustive chains are seeded; seeded families are extra'}}


def replay(ctx, rep):
    case = rep['case']
    if case['fam'] == 'script':
        run_script(ctx, case, 'replay')
    elif case['fam'] == 'unless':
        run_unless(ctx, case)
    else:
        run_case(ctx, case)
