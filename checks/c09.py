"""C09 — if/elif/else/unless render the first true branch, lazily, evaluating once; call
evaluates once and emits nothing.

Monitor: every condition is observable — names bound to probe callables / functions / bound
methods / sub-templates, names served by a logging mapping, expressions calling
``probe('c3')`` — and all of them append to one Recorder, so the ordered evaluation trace of
a render is known.  Bodies re-reference the evaluated names through every insertion form,
nested up to three tags deep.
Oracle: vlib.c09_util.predict, a small reference interpreter of conditional chains written
from the DT_If docstring and the property statement; it predicts (output, ordered trace).
"""
import itertools
import json

from vlib import c09_util as U
from vlib.common import Recorder

ID = 'C09'
LEVEL = 'exploration'
RULE = ('exhaustive: every chain of 1..N conditions (N=4 quick, 5 thorough) x each condition in '
        '{probe callable, plain value, logging-mapping value, probe() expression} x {true,false} or '
        'undefined name x else in {absent, <dtml-else>, <dtml-else NAME> (the documented long form; '
        'only when the if tests a name)}; per case ctx.rng draws the values, attribute spelling, tag '
        'syntax, end tag with/without the name, literal text around the conditional or none, the '
        'enclosing tag (none, in, the conditional written twice, with, let, if, try), the type of every '
        'body (text+references, text only, completely empty, blanks only, references only) and the '
        're-references (11 insertion forms nested in 0..3 of 7 wrapper tags); exhaustive body types: '
        'chains of 1..3 (thorough 1..4) conditions x every body in {empty, blank, text, '
        'text+references} in every position x else absent or one of the four; exhaustive repeated '
        'names: chains of 2..3 (thorough 2..4) positions over two names / expressions x every binding; '
        'exhaustive body shapes: every form x every wrapper stack of depth 0..2 (quick) / 0..3 '
        '(thorough) x every kind of defined named condition x true/false; seeded: length-5 chains '
        '(quick), chains with functions, bound methods, sub-templates, _[name] expressions, repeated '
        'names and later conditions armed to raise; unless (with its if twin, all body types) and call '
        'over every kind x every value x every enclosing tag. distinct = distinct full case '
        'descriptions; non-trivial = at least one condition whose evaluation is observable (event or '
        'undefined name) or a rendered body re-reference')
ASSUMPTIONS = [
    'body references are generated only to names the conditional has evaluated and found defined at or '
    'before the branch (that is what the statement speaks about); undefined names are never referenced',
    'an expression condition that is reached is expected to be evaluated exactly once (title: '
    '"evaluating once"); expressions are never expected to be remembered',
    'a lookup in the caller-supplied mapping is the evaluation event of a plain (non-callable) named value',
    'a named condition occurring twice in one chain is expected to be evaluated once ("at most once per '
    'conditional") and to have the same truth both times',
    'dtml-call of an undefined name: only "emits nothing" is demanded when it returns; raising is not judged',
    'a blank body is blanks and tabs without a newline: blanks + newline right after a block tag are '
    'skipped by the parser by design (skip_eol), which is not this property',
    'the deprecated standalone <dtml-else name>...</dtml-else> block (an unless synonym) is not exercised',
    'every rendering of a conditional (each dtml-in iteration, each of two copies side by side) is a new '
    'conditional: a reached named condition is evaluated again, nothing is carried over',
]
SHARD_TIMEOUT = {'quick': 600, 'thorough': 3000}
NSHARDS = {'quick': 16, 'thorough': 32}
MAXN = {'quick': 4, 'thorough': 5}
SEEDED_N5 = {'quick': 8000, 'thorough': 0}          # quick samples the length-5 chains
SEEDED_EXT = {'quick': 12000, 'thorough': 120000}
UNLESS_SHAPES = {'quick': 6, 'thorough': 40}
SHAPE_DEPTH = {'quick': 2, 'thorough': 3}
GRID_N = {'quick': 3, 'thorough': 4}
GRID_OPTS = (('nc', True), ('nc', False), ('ex', True), ('ex', False), ('un', None))
GRID_OPTS_LONG = (('nc', True), ('nc', False), ('un', None))       # length 4 (thorough)
DUP_N = {'quick': 3, 'thorough': 4}
DUP_BIND = (('nc', True), ('nc', False), ('nm', True), ('nm', False), ('un', None))

# the options of one condition in the exhaustive family
OPTS = [('nc', True), ('nc', False), ('np', True), ('np', False), ('nm', True), ('nm', False),
        ('ex', True), ('ex', False), ('un', None)]
EXT_KINDS = ('nc', 'nf', 'nb', 'nt', 'nm', 'np', 'un', 'ex', 'ei')


def plan(tier, seed):
    return [{} for _ in range(NSHARDS[tier])]


# ---------------------------------------------------------------- generation
def make_cond(rng, kind, truth, name):
    c = {'k': kind, 'n': name, 't': truth, 'v': 0, 'a': rng.randrange(6)}
    if kind == 'un':
        c['t'] = None
    elif kind != 'nt':
        c['v'] = rng.randrange(len(U.TRUE if truth else U.FALSE))
    return c


def make_refs(rng, names, atleast=0):
    if not names:
        return []
    refs = []
    for _ in range(max(atleast, rng.choice((0, 1, 1, 2)))):
        depth = rng.randrange(4)
        refs.append([rng.choice(names), rng.choice(U.FORMS),
                     [rng.choice(U.WRAPPERS) for _ in range(depth)]])
    return refs


# seeded body types: mostly text + references, but every degenerate shape is frequent
BTYPE_DRAW = ('full',) * 11 + ('empty',) * 4 + ('ws',) * 2 + ('refsonly',) * 3
# the body-type grid spells text-only and text+references apart
GRID_BTYPES = ('empty', 'ws', 'text', 'refs')


def make_body(rng, names, btype):
    """-> (stored body type, references) for a drawn / enumerated body type."""
    if btype in ('empty', 'ws'):
        return btype, []
    if btype == 'text':
        return 'full', []
    if btype == 'refs':
        return 'full', make_refs(rng, names, atleast=1)
    if btype == 'refsonly':
        return 'refsonly', make_refs(rng, names, atleast=1)
    return 'full', make_refs(rng, names)


def finish_case(rng, fam, conds, has_else, outers=U.OUTERS, btypes=None, etype=None):
    """has_else: False | True ('bare' <dtml-else>) | 'named' (<dtml-else NAME>, the long form)."""
    n = len(conds)
    case = {'fam': fam, 'style': rng.choice(('dtml', 'dtml', 'sgml')),
            'outer': rng.choice(outers), 'conds': conds, 'bodies': [], 'btypes': [], 'else': None}
    for i in range(n):
        bt, refs = make_body(rng, U.referable(conds, i), btypes[i] if btypes else rng.choice(BTYPE_DRAW))
        case['btypes'].append(bt)
        case['bodies'].append(refs)
    if has_else:
        case['etype'], case['else'] = make_body(rng, U.referable(conds, n),
                                                etype or rng.choice(BTYPE_DRAW))
        if has_else == 'named':
            case['ename'] = True
    if conds[0]['k'] in U.NAMED and rng.random() < 0.15:
        case['endname'] = True
    if rng.random() < 0.15:
        case['bare'] = True
    return case


def gen_ext(rng, maxn):
    n = rng.randint(1, maxn)
    conds = []
    for i in range(n):
        named = [c for c in conds if c['k'] in U.NAMED]
        if named and rng.random() < 0.3:
            c = dict(rng.choice(named))          # the same name again
            c['a'] = rng.randrange(6)
        else:
            kind = rng.choice(EXT_KINDS)
            c = make_cond(rng, kind, rng.random() < 0.4, 'c%d' % (i + 1))
        conds.append(c)
    has_else = rng.random() < 0.5
    if has_else and conds[0]['k'] in U.NAMED and rng.random() < 0.4:
        has_else = 'named'
    case = finish_case(rng, 'chain', conds, has_else)
    case['boom'] = rng.random() < 0.4
    return case


# ---------------------------------------------------------------- one case against the engine
def observe(case, chosen=None):
    """Render the case with the real engine -> (source, output | None, events, exception | None)."""
    from DocumentTemplate.DT_HTML import HTML
    src = U.build_source(case)
    rec = Recorder()
    mapping, kw = U.make_namespace(case, rec, U.armed_names(case, chosen))
    out = exc = None
    try:
        out = HTML(src)(None, mapping, **kw)
    except Exception as e:                      # judged by the caller
        exc = e
    return src, out, [(k, s) for k, s, d in rec.events], exc


def classify(case, what):
    """Mechanism keys of genuine defects of the unchanged tree (none known for C09)."""
    return None


def run_case(ctx, case, sample=False):
    exp_out, exp_ev, chosen = U.predict(case)
    conds = case['conds']
    fam = case['fam']
    observable = any(c['k'] != 'np' for c in conds)
    if fam == 'call':
        rendered_refs = []
    elif chosen == 'E':
        rendered_refs = case['else']
    elif chosen is None:
        rendered_refs = []
    else:
        rendered_refs = case['bodies'][chosen]
    ctx.case(json.dumps(case, sort_keys=True), observable or bool(rendered_refs))
    src, out, got_ev, exc = observe(case, chosen)
    if U.armed_names(case, chosen):
        ctx.count('chain:cases with the later conditions armed to raise')
    key = '%s_%s' % (fam, '-'.join('%s%s' % (c['k'], {True: 'T', False: 'F', None: ''}[c['t']])
                                   for c in conds))
    ctx.count('%s:cases' % fam)
    ctx.count('monitor:evaluation events compared', len(exp_ev))

    # ---- coverage bookkeeping
    kinds_of = {}
    for c in conds:
        kinds_of.setdefault(c['n'], c['k'])
        ctx.table('condition kind x truth', '%s/%s' % (c['k'], c['t']))
        if c['k'] not in ('un', 'nt'):
            ctx.table('condition values', repr(U.value_of(c)))
    ctx.table('enclosing tag', '%s/%s' % (fam, case.get('outer')))
    ctx.table('syntax', case['style'])
    if fam == 'chain':
        ctx.table('chain length', len(conds))
        if isinstance(chosen, int):
            ctx.table('branch taken', chosen)
            if chosen < len(conds) - 1:
                ctx.count('chain:true condition followed by further conditions')
                if any(c['k'] in U.CALL_EVENT or c['k'] == 'nm' for c in conds[chosen + 1:]):
                    ctx.count('chain:...whose later conditions are observable')
        elif chosen == 'E':
            ctx.table('branch taken', 'else')
        else:
            ctx.table('branch taken', 'nothing')
        names = [c['n'] for c in conds[:(chosen + 1) if isinstance(chosen, int) else len(conds)]
                 if c['k'] in U.NAMED_DEFINED]
        if len(set(names)) < len(names):
            ctx.count('chain:repeated name reached twice')
        if any(c['k'] == 'un' for c in conds[:(chosen if isinstance(chosen, int) else len(conds))]):
            ctx.count('chain:undefined name passed over as false')
    if fam == 'unless':
        ctx.table('unless', 'body rendered' if chosen == 0 else 'body skipped')
        ctx.table('unless body type x rendered', '%s/%s' % (U.btype_of(case, 0), chosen == 0))
    if fam == 'chain':
        last = len(conds) - 1
        for i in range(len(conds)):
            bt = U.btype_of(case, i)
            if bt == 'full' and not case['bodies'][i]:
                bt = 'text'
            ctx.table('body type x position', '%s/%s' % (bt, 'first' if i == 0 else
                                                         ('last' if i == last else 'middle')))
            if i == chosen:
                ctx.table('chosen body type', bt)
                if bt in ('empty', 'ws') and (i < last or case.get('else') is not None):
                    ctx.count('chain:true branch with an empty / blank body followed by further branches')
        if case.get('else') is not None:
            et = U.btype_of(case, 'E')
            if et == 'full' and not case['else']:
                et = 'text'
            ctx.table('else body type', et)
            ctx.table('else spelling', '%s after %d elif' % ('named' if case.get('ename') else 'bare',
                                                             min(last, 2)))
            if chosen == 'E':
                ctx.table('chosen body type', 'else/' + et)
        if all(U.btype_of(case, i) == 'empty' for i in range(len(conds))) and \
                (case.get('else') is None or U.btype_of(case, 'E') == 'empty'):
            ctx.count('chain:all bodies completely empty')
        if case.get('endname'):
            ctx.count('chain:end tag repeats the name')
        if case.get('bare'):
            ctx.count('chain:no text around the conditional')
    for name, form, wrappers in rendered_refs:
        ctx.table('rendered reference form', form)
        ctx.table('rendered reference depth', len(wrappers))
        ctx.table('rendered reference form x innermost tag',
                  '%s/%s' % (form, wrappers[-1] if wrappers else '-'))
        for w in wrappers:
            ctx.table('rendered reference wrapper', w)
        if kinds_of.get(name) in U.CALL_EVENT or kinds_of.get(name) == 'nm':
            ctx.count('refs:rendered re-reference of an observable name')

    # ---- verdict
    if exc is not None:
        if fam == 'call' and conds[0]['k'] == 'un':
            ctx.table('call of undefined name', 'raises %s' % type(exc).__name__)
            return
        what = 'render raised %s: %s' % (type(exc).__name__, str(exc)[:160])
        ctx.violation(what, case, mech=classify(case, what), key=key + '_raise',
                      detail={'source': src, 'expected': exp_out, 'events': got_ev})
        return
    if fam == 'call' and conds[0]['k'] == 'un':
        ctx.table('call of undefined name', 'returns')
    problems = []
    if out != exp_out:
        problems.append('output %r, expected %r' % (U_short(out), U_short(exp_out)))
    if got_ev != exp_ev:
        problems.append('evaluation trace %r, expected %r: %s'
                        % (got_ev[:12], exp_ev[:12], U.diagnose(case, chosen, exp_ev, got_ev)))
    if fam == 'call' and isinstance(out, str) and out.replace('<<', '').replace('>>', '').strip('AB'):
        problems.append('call emitted text')
    if problems:
        what = '; '.join(problems)
        ctx.violation(what, case, mech=classify(case, what), key=key,
                      detail={'source': src, 'expected_output': exp_out, 'output': out,
                              'expected_events': exp_ev, 'events': got_ev})
    if sample or wants_sample(ctx, case, chosen, rendered_refs):
        ctx.sample({'source': src, 'conditions': [(c['k'], c['n'], None if c['k'] == 'un' else
                                                   repr(U.value_of(c))) for c in conds],
                    'output': out, 'events': got_ev, 'predicted_output': exp_out,
                    'predicted_events': exp_ev})
    return out


def wants_sample(ctx, case, chosen, rendered_refs):
    """The driver keeps one sample per shard: pick a different kind of case in each shard."""
    if ctx.samples:
        return False
    fam, conds, sel = case['fam'], case['conds'], ctx.shard % 4
    deep = any(len(r[2]) >= 2 for r in rendered_refs)
    if sel == 0:
        return (fam == 'chain' and len(conds) >= 3 and isinstance(chosen, int) and
                0 < chosen < len(conds) - 1 and deep)
    if sel == 1:
        names = [c['n'] for c in conds]
        return fam == 'chain' and len(set(names)) < len(names) and bool(rendered_refs)
    if sel == 2:
        return fam == 'unless' and deep
    return fam == 'call' and case.get('outer') == 'in' and conds[0]['k'] in ('nc', 'ex')


def U_short(x, n=240):
    s = x if isinstance(x, str) else repr(x)
    return s if len(s) <= n else s[:n] + '...'


def run_unless(ctx, case, sample=False):
    """unless case + its one-condition if twin: exactly one of the two renders the body."""
    out_u = run_case(ctx, case, sample)
    twin = dict(case, fam='chain')
    # the twin's body may only reference the name when it was found defined (same rule)
    out_i = run_case(ctx, twin)
    if isinstance(out_u, str) and isinstance(out_i, str):
        if U.btype_of(case, 0) != 'full':
            return                  # no literal marker in the body: the model comparison decides
        ctx.count('unless:complement pairs compared')
        if ('B0[' in out_u) == ('B0[' in out_i):
            ctx.violation('unless and if over the same condition %s the body (%r / %r)'
                          % ('both rendered' if 'B0[' in out_u else 'both skipped',
                             U_short(out_u, 80), U_short(out_i, 80)),
                          case, mech=classify(case, 'complement'),
                          key='unless_pair_%s%s' % (case['conds'][0]['k'], case['conds'][0]['t']))


def controls(ctx):
    """Sensitivity controls: the monitor must see re-evaluation where nothing remembers a value."""
    from DocumentTemplate.DT_HTML import HTML
    from vlib.common import ProbeCallable
    rec = Recorder()
    out = HTML('<dtml-var c1>|<dtml-var c1>')(None, U.LogMap(rec, {}), c1=ProbeCallable(rec, 'c1', 'x'))
    if rec.calls() == ['c1', 'c1'] and out == 'x|x':
        ctx.count('control:two plain references seen as two calls')
    else:
        ctx.inconclusive('control failed: two references outside a conditional gave calls %r, output %r'
                         % (rec.calls(), out))
    rec = Recorder()

    def probe(label):
        rec.log('call', label)
        return 1
    out = HTML('<dtml-if "probe(\'e\')"><dtml-var c1><dtml-var c1></dtml-if>')(
        None, U.LogMap(rec, {}), c1=ProbeCallable(rec, 'c1', 'x'), probe=probe)
    if rec.calls() == ['e', 'c1', 'c1'] and out == 'xx':
        ctx.count('control:references to a name the conditional did not evaluate are calls')
    else:
        ctx.inconclusive('control failed: uncached references gave calls %r, output %r'
                         % (rec.calls(), out))
    rec = Recorder()
    m = U.LogMap(rec, {'m1': 'v'})
    out = HTML('<dtml-var m1><dtml-var m1>')(None, m)
    if [e[:2] for e in rec.events] == [('get', 'm1'), ('get', 'm1')] and out == 'vv':
        ctx.count('control:mapping lookups seen')
    else:
        ctx.inconclusive('control failed: logging mapping saw %r, output %r' % (rec.events, out))


# ---------------------------------------------------------------- shard
def run(ctx, spec):
    from DocumentTemplate import DT_If, DT_Var, _DocumentTemplate
    from vlib.reach import Reach
    reach = Reach()
    reach.watch('render_blocks_', _DocumentTemplate.render_blocks_)
    reach.watch('If.__init__', DT_If.If.__init__)
    reach.watch('Unless.__init__', DT_If.Unless.__init__)
    reach.watch('Call.__init__', DT_Var.Call.__init__)
    reach.watch('TemplateDict.getitem', _DocumentTemplate.TemplateDict.getitem)
    reach.start()
    rng = ctx.rng
    tier = ctx.tier
    if ctx.shard == 0:
        controls(ctx)

    # 1. exhaustive chains
    idx = 0
    for n in range(1, MAXN[tier] + 1):
        for combo in itertools.product(range(len(OPTS)), repeat=n):
            for has_else in (False, True, 'named'):
                if has_else == 'named' and OPTS[combo[0]][0] not in U.NAMED:
                    continue                    # the long form repeats a *name*
                mine = idx % ctx.nshards == ctx.shard
                idx += 1
                if not mine:
                    continue
                conds = [make_cond(rng, OPTS[o][0], OPTS[o][1], 'c%d' % (i + 1))
                         for i, o in enumerate(combo)]
                case = finish_case(rng, 'chain', conds, has_else)
                run_case(ctx, case)
                ctx.count('chain:exhaustive cases')

    # 1b. exhaustive body types: every chain of 1..G conditions x each condition in GRID_OPTS x each
    #     body in {completely empty, white space only, text only, text + references} in every
    #     position x else in {absent, the same four body types}
    idx = 0
    for n in range(1, GRID_N[tier] + 1):
        opts = GRID_OPTS if n <= 3 else GRID_OPTS_LONG
        for combo in itertools.product(opts, repeat=n):
            for bts in itertools.product(GRID_BTYPES, repeat=n):
                for etype in (None,) + GRID_BTYPES:
                    mine = idx % ctx.nshards == ctx.shard
                    idx += 1
                    if not mine:
                        continue
                    conds = [make_cond(rng, k, t, 'c%d' % (i + 1)) for i, (k, t) in enumerate(combo)]
                    has_else = bool(etype)
                    if has_else and conds[0]['k'] in U.NAMED and rng.random() < 0.5:
                        has_else = 'named'
                    run_case(ctx, finish_case(rng, 'chain', conds, has_else, btypes=bts, etype=etype))
                    ctx.count('chain:exhaustive body-type cases')

    # 1c. exhaustive repeated names: chains of 2..D positions, each position one of the two names
    #     c1 / c2 or an expression (true / false); every binding of the two names
    idx = 0
    for n in range(2, DUP_N[tier] + 1):
        for b1 in DUP_BIND:
            for b2 in DUP_BIND:
                for combo in itertools.product(('c1', 'c2', 'exT', 'exF'), repeat=n):
                    for has_else in (False, True):
                        mine = idx % ctx.nshards == ctx.shard
                        idx += 1
                        if not mine:
                            continue
                        proto = {'c1': make_cond(rng, b1[0], b1[1], 'c1'),
                                 'c2': make_cond(rng, b2[0], b2[1], 'c2')}
                        conds = []
                        for i, what in enumerate(combo):
                            if what in proto:
                                c = dict(proto[what])
                                c['a'] = rng.randrange(6)
                            else:
                                c = make_cond(rng, 'ex', what == 'exT', 'e%d' % (i + 1))
                            conds.append(c)
                        if has_else and conds[0]['k'] in U.NAMED and rng.random() < 0.3:
                            has_else = 'named'
                        run_case(ctx, finish_case(rng, 'chain', conds, has_else))
                        ctx.count('chain:exhaustive repeated-name cases')

    # 2. seeded length-5 chains (quick only; thorough enumerates them)
    for _ in range(SEEDED_N5[tier] // ctx.nshards):
        conds = []
        for i in range(5):
            k, t = rng.choice(OPTS)
            conds.append(make_cond(rng, k, t, 'c%d' % (i + 1)))
        run_case(ctx, finish_case(rng, 'chain', conds, rng.random() < 0.5))
        ctx.count('chain:seeded length-5 cases')

    # 3. seeded chains over all kinds, with repeated names
    for i in range(SEEDED_EXT[tier] // ctx.nshards):
        run_case(ctx, gen_ext(rng, 5))
        ctx.count('chain:seeded all-kinds cases')

    # 4. unless (+ if twin) and call: every kind x every value x every enclosing tag
    singles = []
    for kind in EXT_KINDS:
        if kind == 'un':
            singles.append((kind, None, 0))
        elif kind == 'nt':
            singles += [(kind, True, 0), (kind, False, 0)]
        else:
            singles += [(kind, True, v) for v in range(len(U.TRUE))]
            singles += [(kind, False, v) for v in range(len(U.FALSE))]
    idx = 0
    for kind, truth, v in singles:
        for outer in U.OUTERS:
            for rep in range(UNLESS_SHAPES[tier]):
                mine = idx % ctx.nshards == ctx.shard
                idx += 1
                if not mine:
                    continue
                c = make_cond(rng, kind, truth, 'c1')
                c['v'] = v
                case = finish_case(rng, 'unless', [c], False,
                                   btypes=[('refs', 'text', 'empty', 'ws', 'refsonly', 'refs')[rep % 6]])
                case['outer'] = outer
                run_unless(ctx, case)
        for outer in (None, 'twice') + U.WRAPPERS:
            for style in ('dtml', 'sgml'):
                for a in range(3):
                    mine = idx % ctx.nshards == ctx.shard
                    idx += 1
                    if not mine:
                        continue
                    c = {'k': kind, 'n': 'c1', 't': truth, 'v': v, 'a': a}
                    case = {'fam': 'call', 'style': style, 'outer': outer, 'conds': [c],
                            'bodies': [[]], 'else': None}
                    run_case(ctx, case)

    # 5. exhaustive body shapes: every insertion form x every wrapper stack up to the depth bound x
    #    every kind of defined named condition x true/false (one condition, with else: either way a
    #    body that re-references the name is rendered)
    idx = 0
    for depth in range(SHAPE_DEPTH[tier] + 1):
        for stack in itertools.product(U.WRAPPERS, repeat=depth):
            for form in U.FORMS:
                for kind in U.NAMED_DEFINED:
                    for truth in (True, False):
                        mine = idx % ctx.nshards == ctx.shard
                        idx += 1
                        if not mine:
                            continue
                        c = make_cond(rng, kind, truth, 'c1')
                        ref = ['c1', form, list(stack)]
                        case = {'fam': 'chain', 'style': rng.choice(('dtml', 'sgml')),
                                'outer': rng.choice(U.OUTERS), 'conds': [c],
                                'bodies': [[ref]], 'else': [ref]}
                        run_case(ctx, case)
                        ctx.count('chain:exhaustive body-shape cases')
    reach.stop()
    reach.report(ctx)


def finish(agg):
    c = agg['counters']
    t = agg['tables']
    inc = []
    for r in ('reach:render_blocks_', 'reach:If.__init__', 'reach:Unless.__init__',
              'reach:Call.__init__', 'reach:TemplateDict.getitem'):
        if not c.get(r):
            inc.append('anchor never entered: ' + r)
    need = ['chain:true condition followed by further conditions',
            'chain:...whose later conditions are observable',
            'monitor:evaluation events compared',
            'refs:rendered re-reference of an observable name',
            'chain:repeated name reached twice',
            'chain:true branch with an empty / blank body followed by further branches',
            'chain:all bodies completely empty',
            'chain:end tag repeats the name',
            'chain:no text around the conditional',
            'chain:cases with the later conditions armed to raise',
            'chain:undefined name passed over as false',
            'unless:complement pairs compared', 'call:cases',
            'control:two plain references seen as two calls',
            'control:references to a name the conditional did not evaluate are calls',
            'control:mapping lookups seen']
    for k in need:
        if not c.get(k):
            inc.append('deciding counter is zero: ' + k)
    for form in U.FORMS:
        if not t.get('rendered reference form', {}).get(form):
            inc.append('reference form never rendered: ' + form)
    for w in U.WRAPPERS:
        if not t.get('rendered reference wrapper', {}).get(w):
            inc.append('wrapper never rendered around a reference: ' + w)
    for d in range(4):
        if not t.get('rendered reference depth', {}).get(str(d)):
            inc.append('no reference rendered at depth %d' % d)
    for k, tr in OPTS:
        if not t.get('condition kind x truth', {}).get('%s/%s' % (k, tr)):
            inc.append('condition option never used: %s/%s' % (k, tr))
    for b in ('body rendered', 'body skipped'):
        if not t.get('unless', {}).get(b):
            inc.append('unless never observed with ' + b)
    for bt in ('empty', 'ws', 'text', 'full', 'refsonly'):
        for pos in ('first', 'middle', 'last'):
            if not t.get('body type x position', {}).get('%s/%s' % (bt, pos)):
                inc.append('body type never generated: %s in %s position' % (bt, pos))
        if not t.get('chosen body type', {}).get(bt):
            inc.append('body type never the chosen branch: ' + bt)
        if not t.get('else body type', {}).get(bt):
            inc.append('else body type never generated: ' + bt)
    for sp in ('bare', 'named'):
        for k in range(3):
            if not t.get('else spelling', {}).get('%s after %d elif' % (sp, k)):
                inc.append('else spelling never generated: %s after %d elif' % (sp, k))
    n = MAXN[agg['tier']]
    named_first = sum(1 for k, tr in OPTS if k in U.NAMED)
    total = sum(2 * len(OPTS) ** k + named_first * len(OPTS) ** (k - 1) for k in range(1, n + 1))
    grid = 0
    for k in range(1, GRID_N[agg['tier']] + 1):
        o = len(GRID_OPTS) if k <= 3 else len(GRID_OPTS_LONG)
        grid += (o * len(GRID_BTYPES)) ** k * (1 + len(GRID_BTYPES))
    if c.get('chain:exhaustive body-type cases', 0) != grid:
        inc.append('exhaustive body-type enumeration incomplete: %s of %d'
                   % (c.get('chain:exhaustive body-type cases'), grid))
    dups = sum(len(DUP_BIND) ** 2 * 4 ** k * 2 for k in range(2, DUP_N[agg['tier']] + 1))
    if c.get('chain:exhaustive repeated-name cases', 0) != dups:
        inc.append('exhaustive repeated-name enumeration incomplete: %s of %d'
                   % (c.get('chain:exhaustive repeated-name cases'), dups))
    if c.get('chain:exhaustive cases', 0) != total:
        inc.append('exhaustive chain enumeration incomplete: %s of %d'
                   % (c.get('chain:exhaustive cases'), total))
    shapes = sum(len(U.WRAPPERS) ** d for d in range(SHAPE_DEPTH[agg['tier']] + 1))
    shapes *= len(U.FORMS) * len(U.NAMED_DEFINED) * 2
    if c.get('chain:exhaustive body-shape cases', 0) != shapes:
        inc.append('exhaustive body-shape enumeration incomplete: %s of %d'
                   % (c.get('chain:exhaustive body-shape cases'), shapes))
    return {'inconclusive': inc,
            'coverage': {'exhaustive': True,
                         'exhaustive_part': 'chains of 1..%d conditions x %d options per condition x '
                                            'else absent / <dtml-else> / <dtml-else NAME> = %d cases; '
                                            'body types: chains of 1..%d conditions x every body in '
                                            '{empty, blank, text, text+references} x else absent or one '
                                            'of the four = %d cases; repeated names: %d cases; '
                                            'body shapes: %d forms x all wrapper stacks of depth 0..%d '
                                            'x %d named kinds x true/false = %d cases'
                                            % (n, len(OPTS), total, GRID_N[agg['tier']], grid, dups,
                                               len(U.FORMS), SHAPE_DEPTH[agg['tier']],
                                               len(U.NAMED_DEFINED), shapes),
                         'explanation': 'values, spelling, enclosing tag and body references of the '
                                        'exhaustive chains are seeded; seeded families are extra'}}


def replay(ctx, rep):
    case = rep['case']
    if case['fam'] == 'unless':
        run_unless(ctx, case)
    else:
        run_case(ctx, case)
