"""C03 — html_quote / &dtml-name; output is exactly the HTML-escaped value.

Monitor: the real engine renders one value through every quoting insertion form
(entity, html_quote alone, html_quote + an option that is the identity on the value,
fmt=html-quote; three surface syntaxes; alone = single-piece path, between literal text =
join path, inside if/in bodies) and through plain insertion.  Counting wrappers sit on
the routes by which the engine reaches the real ``html_quote`` (fast path in
render_blocks_, modifier table of Var.render, special_formats['html-quote']) so that the
evidence says which route served which form and whether the fast path decided to skip.
Oracle: own five-entry replacement table, cross-checked per value against
``html.escape(v, True)`` and the ``html.unescape`` round trip.
"""
import html
import re

from AccessControl.tainted import TaintedString

ID = 'C03'
LEVEL = 'exploration'
RULE = ('one case = one value (a code point as the 1-character string and embedded as a?b, a seeded '
        'random string over an alphabet dense in & < > " \' / ASCII / Latin-1 / BMP / astral, its bytes '
        'encodings, or a non-string object: str-like objects, str subclasses, containers, exceptions and marked '
        '(TaintedString) strings) pushed through every insertion form x context; a case is '
        'non-trivial when the value\'s text is non-empty; distinct = distinct (value recipe, template '
        'encoding) pairs.  The code-point part is exhaustive over its stated range.')
ASSUMPTIONS = [
    'the string form of a bytes value is its decoding with the encoding the template was created '
    'with (statement: "bytes values in the template\'s encoding")',
    'the string form of any other value is str(value)',
    '"standard HTML escaping (with quotes)" is html.escape(text, quote=True): & < > " \' become '
    '&amp; &lt; &gt; &quot; &#x27; and nothing else changes',
    'options used as "other options" are the identity on the value: spacify only on values without '
    '"_", size=1000000 on values shorter than that, missing= with the name present, etc= without size',
    'plain insertion is asserted for str values only (bytes / objects are property C19)',
]
SHARD_TIMEOUT = {'quick': 600, 'thorough': 3000}
NSHARDS = {'quick': 16, 'thorough': 48}

# ------------------------------------------------------------------ oracle (independent)
TABLE = {ord('&'): '&amp;', ord('<'): '&lt;', ord('>'): '&gt;', ord('"'): '&quot;', ord("'"): '&#x27;'}
SPECIALS = '&<>"\''
# a raw special in escaped text: any of < > " ' or an ampersand that does not start one of the
# five entities
RAW = re.compile(r'''[<>"']|&(?!amp;|lt;|gt;|quot;|\#x27;)''')


def model_escape(text):
    return text.translate(TABLE)


def has_special(text):
    return any(c in text for c in SPECIALS)


# ------------------------------------------------------------------ insertion forms
# name -> (syntax, source, path, route); path 'fast' = compiled to the simple form handled in
# render_blocks_, 'full' = Var.render; route = how html_quote() is reached when it is reached.
FORMS = {
    'entity':        ('html', '&dtml-x;', 'fast', 'fast'),
    'hq':            ('html', '<dtml-var x html_quote>', 'fast', 'fast'),
    'hq_spacify':    ('html', '<dtml-var x html_quote spacify>', 'full', 'modifier'),
    'hq_size':       ('html', '<dtml-var x html_quote size=1000000>', 'full', 'modifier'),
    'hq_missing':    ('html', '<dtml-var x html_quote missing=zz>', 'full', 'modifier'),
    'fmt':           ('html', '<dtml-var x fmt=html-quote>', 'full', 'fmt'),
    # extended: other spellings of the same four forms
    'entity_opt':    ('html', '&dtml.html_quote-x;', 'fast', 'fast'),
    'hq_expr':       ('html', '<dtml-var "x" html_quote>', 'fast', 'fast'),
    'hq_expr_etc':   ('html', '<dtml-var expr="x" html_quote etc=zz>', 'full', 'modifier'),
    'fmt_missing':   ('html', '<dtml-var x fmt=html-quote missing=zz>', 'full', 'fmt'),
    'ssi_hq':        ('html', '<!--#var x html_quote-->', 'fast', 'fast'),
    'ssi_hq_etc':    ('html', '<!--#var x html_quote etc=zz-->', 'full', 'modifier'),
    'epfs_hq':       ('epfs', '%(x html_quote)s', 'fast', 'fast'),
    'epfs_hq_missing': ('epfs', '%(x html_quote missing=zz)s', 'full', 'modifier'),
    'epfs_fmt':      ('epfs', '%(x fmt=html-quote)s', 'full', 'fmt'),
}
CORE = ('entity', 'hq', 'hq_spacify', 'hq_size', 'hq_missing', 'fmt')
EXTENDED = tuple(k for k in FORMS if k not in CORE)
NESTED_FORMS = ('entity', 'hq', 'hq_missing', 'fmt', 'hq_expr', 'ssi_hq')
PLAIN = {
    'plain':         ('html', '<dtml-var x>', 'fast', None),
    'plain_missing': ('html', '<dtml-var x missing=zz>', 'full', None),
    'plain_epfs':    ('epfs', '%(x)s', 'fast', None),
}
# context -> (source pattern, prefix, suffix); '@' is replaced by the form's source
CONTEXTS = {
    'bare':    ('@', '', ''),
    'wrapped': ('L[@]R', 'L[', ']R'),
    'if':      ('<dtml-if y>L[@]R</dtml-if>', 'L[', ']R'),
    'in':      ('<dtml-in one>L[@]R</dtml-in>', 'L[', ']R'),
    # neighbours: other insertions rendered in the same block list before / after the probed one (a marked
    # value that the engine quotes on its own, a non-string, an entity); their own output is the fixed text
    # computed here from the statement (tainted values are always escaped: C04), never from the engine
    'after_tainted': ('<dtml-var tn>L[@]R', 't&lt;n&gt;L[', ']R'),
    'after_tainted_entity': ('&dtml-tn;<dtml-var n7>L[@]R', 't&lt;n&gt;7L[', ']R'),
    'after_int': ('<dtml-var n7>L[@]R&dtml-q;', '7L[', ']R&quot;'),
    'before_tainted': ('L[@]R<dtml-var tn>&dtml-q;', 'L[', ']Rt&lt;n&gt;&quot;'),
}
# block bodies other than if/in: every place a block tag renders a section (the section inherits the
# template's encoding); 'nope' is undefined, so the try body fails and the handler is rendered
CONTEXTS.update({
    'except':  ('<dtml-try><dtml-var nope><dtml-except>L[@]R</dtml-try>', 'L[', ']R'),
    'except_named': ('<dtml-try>a<dtml-var nope>b<dtml-except KeyError NameError>L[@]R<dtml-except>other</dtml-try>', 'L[', ']R'),
    'try_else': ('<dtml-try>t<dtml-except>e<dtml-else>L[@]R</dtml-try>', 'tL[', ']R'),
    'try_body': ('<dtml-try>L[@]R<dtml-except>e</dtml-try>', 'L[', ']R'),
    'finally': ('<dtml-try>t<dtml-finally>L[@]R</dtml-try>', 'tL[', ']R'),
    'with':    ('<dtml-with wm mapping>L[@]R</dtml-with>', 'L[', ']R'),
    'let':     ('<dtml-let z=y>L[@]R</dtml-let>', 'L[', ']R'),
    'unless':  ('<dtml-unless nope>L[@]R</dtml-unless>', 'L[', ']R'),
    'else':    ('<dtml-if nope>n<dtml-else>L[@]R</dtml-if>', 'L[', ']R'),
    'in_else': ('<dtml-in none>n<dtml-else>L[@]R</dtml-in>', 'L[', ']R'),
    'in_in':   ('<dtml-in one><dtml-if y><dtml-in one>L[@]R</dtml-in></dtml-if></dtml-in>', 'L[', ']R'),
})
BLOCK_CTX = ('except', 'except_named', 'try_else', 'try_body', 'finally', 'with', 'let', 'unless', 'else',
             'in_else', 'in_in')
NEIGHBOUR_CTX = ('after_tainted', 'after_tainted_entity', 'after_int', 'before_tainted')

MECH_QUOTE = 'fastpath-skips-single-quote'
MECH_MOD = 'var-modifier-html_quote-ignores-template-encoding'
MECH_FMT = 'fmt-html-quote-ignores-template-encoding'

CONSTS = [0, -12, 3.5, None, True, 10 ** 30, 1e-300, float('inf'), 2 + 3j, (), [], {}, range(3), Ellipsis]


def plan(tier, seed):
    return [{} for _ in range(NSHARDS[tier])]


# ------------------------------------------------------------------ values
class StrObj:
    """Not callable, no __untaint__: an ordinary object whose str() is the given text."""

    def __init__(self, text):
        self.text = text

    def __str__(self):
        return self.text


class StrSub(str):
    pass


def build_value(recipe):
    """recipe -> (value, text): the object inserted and the string form the statement speaks of."""
    t = recipe['t']
    if t == 'const':
        v = CONSTS[recipe['i']]
        return v, str(v)
    text = ''.join(map(chr, recipe['cps']))
    if t == 'str':
        return text, text
    if t == 'bytes':
        # 'raw_enc': the byte string was produced with another codec (it is still a byte string "in the
        # template's encoding" whenever that encoding can decode it; the text is what THAT decoding gives)
        raw = text.encode(recipe.get('raw_enc') or recipe['enc'])
        return raw, raw.decode(recipe['enc'])
    kind = recipe['kind']
    if kind == 'strobj':
        v = StrObj(text)
    elif kind == 'strsub':
        v = StrSub(text)
    elif kind == 'list':
        v = [text]
    elif kind == 'tuple':
        v = (text, 1)
    elif kind == 'dict':
        v = {text: text}
    elif kind == 'set':
        v = frozenset([text])
    elif kind == 'tainted':
        # a marked (untrusted) string: its string form is the text, and a quoting form must give exactly the
        # escaping of that text - once - like for any other string-like value (the engine quotes marked values
        # on its own at the end of the pipeline; together with a quoting option that must not add up or cancel)
        v = TaintedString(text)
    elif kind == 'exc1':
        v = ValueError(text)
    elif kind == 'exc2':
        v = ValueError(text, 2)
    else:
        raise ValueError(kind)
    return v, str(v)


OBJ_KINDS = ('strobj', 'strsub', 'list', 'tuple', 'dict', 'set', 'exc1', 'exc2', 'tainted')


def norm_enc(enc):
    import codecs
    return codecs.lookup(enc or 'utf-8').name


# ------------------------------------------------------------------ monitor on html_quote
class Env:
    """Templates, route wrappers and local (cheap) coverage accumulators of one shard."""

    def __init__(self, ctx):
        self.ctx = ctx
        self.templates = {}
        self.calls = []          # routes by which html_quote() was entered during one render
        self.post_bad = []       # function-level postcondition failures during one render
        self.acc = {}            # (table, key) -> n, flushed at the end
        self.per_render = {}     # (form, context, value kind, routes taken) -> n, flushed at the end
        self.post_evals = 0
        self.renders = 0
        self.reported = {}
        self.installed = False
        self.extra = ''          # replay only: what the other forms make of the same value

    def install(self):
        """Wrap the three references through which the engine calls the real html_quote."""
        from DocumentTemplate import DT_Var
        from DocumentTemplate import _DocumentTemplate
        from DocumentTemplate import html_quote as hq_module
        real = hq_module.html_quote
        self.real = real
        env = self

        def make(route):
            def html_quote(v, *args, **kw):
                env.calls.append(route)
                r = real(v, *args, **kw)
                env.post_evals += 1
                if not isinstance(r, str) or RAW.search(r):
                    env.post_bad.append((route, type(v).__name__, repr(r)[:80]))
                return r
            html_quote.__wrapped__ = real
            return html_quote

        bound = 0
        if _DocumentTemplate.__dict__.get('html_quote') is real:
            _DocumentTemplate.html_quote = make('fast')
            bound += 1
        for i, (name, f) in enumerate(DT_Var.modifiers):
            if f is real:
                DT_Var.modifiers[i] = (name, make('modifier'))
                bound += 1
        if DT_Var.special_formats.get('html-quote') is real:
            DT_Var.special_formats['html-quote'] = make('fmt')
            bound += 1
        if DT_Var.__dict__.get('html_quote') is real:
            # not used by Var.render today; a repaired Var.render may call it by this name
            DT_Var.html_quote = make('var-global')
            bound += 1
        self.ctx.count('monitor:html_quote references wrapped', bound)
        self.installed = True

    def template(self, form, context, tenc):
        key = (form, context, tenc)
        t = self.templates.get(key)
        if t is None:
            from DocumentTemplate.DT_HTML import HTML
            from DocumentTemplate.DT_String import String
            syntax, frag = (FORMS.get(form) or PLAIN[form])[:2]
            src = CONTEXTS[context][0].replace('@', frag)
            cls = HTML if syntax == 'html' else String
            t = cls(src, encoding=tenc) if tenc else cls(src)
            t.cook()
            self.templates[key] = t
        return t

    def add(self, table, key, n=1):
        k = (table, key)
        self.acc[k] = self.acc.get(k, 0) + n

    def flush(self):
        ctx = self.ctx
        for (form, context, vk0, routes), n in self.per_render.items():
            ctx.count('oracle:output comparisons', n)
            ctx.table('html_quote route by form', '%s:%s' % (form, '+'.join(routes) or 'none'), n)
            ctx.table('renders by form and context', '%s/%s' % (form, context), n)
            if form in FORMS and FORMS[form][2] == 'fast':
                ctx.table('fast path decision', '%s:%s' % (vk0, 'quoted' if routes else 'skipped'), n)
        self.per_render.clear()
        for (table, key), n in self.acc.items():
            if table is None:
                ctx.count(key, n)
            else:
                ctx.table(table, key, n)
        self.acc.clear()
        ctx.count('renders', self.renders)
        ctx.count('monitor:html_quote postcondition evaluations', self.post_evals)
        self.renders = 0
        self.post_evals = 0


# ------------------------------------------------------------------ one value through many forms
def classify(path, route, recipe, text, inner, value):
    """Mechanism key of a known defect, recognised from the form and the shape of the damage."""
    if inner is None:
        return None
    if (path == 'fast' and recipe['t'] != 'bytes' and inner == text and "'" in text
            and not any(c in text for c in '&<>"')):
        # simple-form var tag: a str whose only special character is ' is not quoted at all
        return MECH_QUOTE
    if path == 'full' and recipe['t'] == 'bytes' and isinstance(value, bytes):
        wrong = value.decode('latin-1')
        if wrong != text and inner == model_escape(wrong):
            # Var.render called html_quote() without the template encoding: Latin-1 was used
            return MECH_FMT if route == 'fmt' else MECH_MOD
    return None


def applicable(form, text, value):
    if form == 'hq_spacify' and ('_' in text or (isinstance(value, bytes) and b'_' in value)):
        # spacify would legitimately change the value (for bytes: also when the byte 0x5F occurs in
        # the encoded form, e.g. UTF-16, so that the option is the identity however it is decoded)
        return False
    return True


def check_value(ctx, env, recipe, tenc, forms, contexts, plain=()):
    """Render one value through forms x contexts; compare with the oracle. Returns #problems."""
    value, text = build_value(recipe)
    desc = (recipe['t'], recipe.get('kind'), recipe.get('enc'), tuple(recipe.get('cps', ())),
            recipe.get('i'), tenc, recipe.get('raw_enc'))
    ctx.case(desc, bool(text))
    expected = model_escape(text)
    # oracle cross-check (table vs html.escape vs unescape round trip vs raw-special scan)
    if expected != html.escape(text, True) or html.unescape(expected) != text or RAW.search(expected):
        ctx.inconclusive('oracle self-check failed for %r' % (text[:40],))
        return 0
    env.add(None, 'oracle:cross-checked values')
    vkind = recipe['t'] if recipe['t'] != 'obj' else 'obj:' + recipe['kind']
    env.add('value kinds', vkind)
    if recipe['t'] == 'bytes':
        env.add('bytes encodings (value/template)', '%s/%s' % (recipe['enc'], tenc or 'default'))
    kw = {'x': value, 'y': 1, 'one': [0], 'tn': TaintedString('t<n>'), 'n7': 7, 'q': '"', 'wm': {'w': 1}, 'none': []}
    calls = env.calls
    per_render = env.per_render
    vk0 = vkind.split(':')[0]
    results = []
    problems = 0
    todo = [(f, c, False) for f in forms for c in contexts
            if not (c in ('if', 'in') + BLOCK_CTX and (FORMS[f][0] != 'html' or f not in NESTED_FORMS))
            and not (c in NEIGHBOUR_CTX and FORMS[f][0] != 'html')]
    if recipe['t'] == 'str':
        todo += [(f, c, True) for f in plain for c in contexts
                 if not (c in ('if', 'in') + NEIGHBOUR_CTX + BLOCK_CTX and PLAIN[f][0] != 'html')]
    for form, context, is_plain in todo:
        if not is_plain and not applicable(form, text, value):
            env.add(None, 'skipped: spacify on a value containing "_"')
            continue
        syntax, frag, path, route = (PLAIN if is_plain else FORMS)[form]
        tmpl = env.template(form, context, tenc)
        del calls[:]
        del env.post_bad[:]
        env.renders += 1
        try:
            obs = tmpl(**kw)
        except Exception as e:
            problems += 1
            report(ctx, env, 'render raised %s: %s' % (type(e).__name__, str(e)[:120]),
                   recipe, tenc, form, context, None, None)
            continue
        k = (form, context, vk0, tuple(calls))
        per_render[k] = per_render.get(k, 0) + 1
        pre, suf = CONTEXTS[context][1:]
        want_inner = text if is_plain else expected
        want = pre + want_inner + suf
        if env.post_bad and not is_plain:
            problems += 1
            report(ctx, env, 'html_quote() postcondition: result is not text in the five-entity escaped form: %r'
                   % (env.post_bad[:2],), recipe, tenc, form, context, None, obs)
        if isinstance(obs, str) and obs == want:
            results.append((form, context, want_inner))
            continue
        problems += 1
        inner = None
        if isinstance(obs, str) and obs.startswith(pre) and obs.endswith(suf) and len(obs) >= len(pre) + len(suf):
            inner = obs[len(pre):len(obs) - len(suf)]
        results.append((form, context, inner))
        if is_plain:
            report(ctx, env, 'plain insertion changed an ordinary string: %s in context %s gave <%s> for <%s>'
                   % (frag, context, short(obs), short(text)), recipe, tenc, form, context, None, obs)
            continue
        mech = classify(path, route, recipe, text, inner, value)
        if mech:
            seen = env.reported[mech] = env.reported.get(mech, 0) + 1
            if seen > ctx.MAX_DETAIL:
                # the worker keeps MAX_DETAIL full reports per mechanism; further ones are only counted
                ctx.violation(mech, None, mech=mech)
                continue
        diag = []
        if inner is None:
            diag.append('literal text around the value damaged or result not text (%s)' % type(obs).__name__)
        else:
            raw = sorted(set(RAW.findall(inner)))
            if raw:
                diag.append('unescaped %s in the output' % ' '.join(raw))
            if html.unescape(inner) != text:
                diag.append('unescaping the output does not give the value back')
            others = sorted(set(f for f, c, i in results if i is not None and i != inner))
            if others:
                diag.append('disagrees with form(s) %s' % ','.join(others[:4]))
        report(ctx, env, 'form %s (%s, %s path, context %s, template encoding %s) gave <%s>, the escaping of <%s> is <%s>: %s'
               % (form, frag, path, context, tenc or 'default', short(obs), short(value), short(want),
                  '; '.join(diag) or 'differs'),
               recipe, tenc, form, context, mech, obs)
    return problems


def short(x, n=60):
    s = x.encode('unicode_escape').decode('ascii') if isinstance(x, str) else ascii(x)
    return s if len(s) <= n else s[:n] + '...'


def report(ctx, env, what, recipe, tenc, form, context, mech, obs):
    case = {'value': recipe, 'tenc': tenc, 'form': form, 'context': context}
    cps = recipe.get('cps', [recipe.get('i', 0)])
    key = '%s_%s_%s_%s' % (form, context, recipe['t'] + (recipe.get('enc') or recipe.get('kind') or ''),
                           '-'.join('%x' % c for c in cps[:8]))
    ctx.violation(what + env.extra, case, mech=mech, key=key,
                  detail={'observed': short(obs, 300) if obs is not None else None})


# ------------------------------------------------------------------ workload generators
LETTERS = 'abcxyzABC019 ;#_-.'
FRAGMENTS = ['&amp;', '&lt;', '&gt', '&quot;', '&#39;', '&#x27;', '&#x27', '&&', '&;', '<<', '>>', "''", '""',
             '"\'', '<a href="x">', "it's", '\x00', '\n', '\t', ';', '#x27;', 'amp;', '&dtml-x;', '<dtml-var x>',
             '%(x)s', ']R', 'L[', '\\', '\xa0', '\x7f']


def rand_cp(rng, pool):
    if pool == 'special':
        return ord(rng.choice(SPECIALS))
    if pool == 'ascii':
        return rng.randint(0x20, 0x7e)
    if pool == 'ctrl':
        return rng.randint(0, 0x1f)
    if pool == 'latin1':
        return rng.randint(0x80, 0xff)
    if pool == 'bmp':
        c = rng.randint(0x100, 0xffff)
        return c if not 0xd800 <= c <= 0xdfff else 0x20ac
    if pool == 'surrogate':
        return rng.randint(0xd800, 0xdfff)
    return rng.randint(0x10000, 0x10ffff)


PROFILES = {
    # pool weights
    'dense':   [('special', 10), ('ascii', 4), ('latin1', 2), ('bmp', 2), ('astral', 2)],
    'mixed':   [('special', 3), ('ascii', 8), ('latin1', 3), ('bmp', 3), ('astral', 2), ('ctrl', 1)],
    'latin':   [('special', 3), ('ascii', 3), ('latin1', 10)],
    'wide':    [('special', 2), ('bmp', 6), ('astral', 6), ('surrogate', 1)],
}


def rand_text(rng):
    """cps of a random string of length <= 24."""
    n = rng.randint(0, 24)
    r = rng.random()
    if r < 0.25:
        # exactly one kind of special character among harmless letters (non-ASCII allowed):
        # this is what separates the individual tests of the fast path
        sp = rng.choice(SPECIALS)
        extra = rng.choice(['', '', '\xe9', '€', '\U0001f600'])
        out = [rng.choice(LETTERS + extra) for _ in range(max(n - 1, 0))]
        for _ in range(rng.randint(1, 3)):
            out.insert(rng.randint(0, len(out)), sp)
        return [ord(c) for c in out[:24]]
    if r < 0.35:
        s = ''
        while len(s) < n:
            s += rng.choice(FRAGMENTS) if rng.random() < 0.6 else rng.choice(LETTERS)
        return [ord(c) for c in s[:24]]
    prof = PROFILES[rng.choice(sorted(PROFILES))]
    pools = [p for p, w in prof for _ in range(w)]
    return [rand_cp(rng, rng.choice(pools)) for _ in range(n)]


def encodable(cps, enc):
    try:
        ''.join(map(chr, cps)).encode(enc)
        return True
    except UnicodeError:
        return False


def codepoint_case(ctx, env, cp, full_bytes):
    probs = 0
    for cps in ([cp], [0x61, cp, 0x62]):
        probs += check_value(ctx, env, {'t': 'str', 'cps': cps}, None, CORE, ('bare', 'wrapped'),
                             plain=('plain', 'plain_missing'))
        if len(cps) == 1 and not full_bytes:
            continue
        for enc in ('utf-8', 'latin-1'):
            if encodable(cps, enc):
                probs += check_value(ctx, env, {'t': 'bytes', 'cps': cps, 'enc': enc},
                                     None if enc == 'utf-8' else enc, CORE, ('bare', 'wrapped'))
            else:
                env.add(None, 'bytes: value not encodable in %s (skipped)' % enc)
    env.add(None, 'code points evaluated')
    return probs


def string_case(ctx, env, rng, cps):
    allforms = CORE + EXTENDED
    k = rng.randrange(len(BLOCK_CTX))
    ctxs = ('bare', 'wrapped', 'if', 'in') + NEIGHBOUR_CTX + (BLOCK_CTX[k], BLOCK_CTX[(k + 4) % len(BLOCK_CTX)],
                                                              BLOCK_CTX[(k + 7) % len(BLOCK_CTX)])
    probs = check_value(ctx, env, {'t': 'str', 'cps': cps}, rng.choice([None, None, 'latin-1', 'utf-8']),
                        allforms, ctxs, plain=tuple(PLAIN))
    encs = ['utf-8', 'latin-1']
    r = rng.random()
    if r < 0.15:
        encs.append('cp1252')
    elif r < 0.25:
        encs.append('utf-16')
    for enc in encs:
        if not encodable(cps, enc):
            env.add(None, 'bytes: value not encodable in %s (skipped)' % enc)
            continue
        tenc = enc
        if enc == 'utf-8' and rng.random() < 0.5:
            tenc = None              # the default encoding of a new template is UTF-8
        probs += check_value(ctx, env, {'t': 'bytes', 'cps': cps, 'enc': enc}, tenc, allforms, ctxs)
        if enc == 'utf-8':
            # history: the very same byte string right afterwards in a Latin-1 template (every byte string is
            # valid Latin-1); a result remembered per value, not per (value, encoding), shows here
            probs += check_value(ctx, env, {'t': 'bytes', 'cps': cps, 'enc': 'latin-1', 'raw_enc': 'utf-8'},
                                 'latin-1', allforms, ('bare', 'wrapped'))
            env.add(None, 'bytes: same byte string re-read under a second template encoding')
    env.add(None, 'random strings evaluated')
    return probs


LONG_LENGTHS = (255, 256, 257, 1023, 1024, 1025, 4095, 4096, 4097, 65536, 70001)


def long_case(ctx, env, rng, k):
    """Long values ("whatever other characters it contains", any length): a filler of harmless text with every
    special character placed at the start, in the middle and at the very end; lengths straddle the powers of
    two a length-dependent fast path would use."""
    n = LONG_LENGTHS[k % len(LONG_LENGTHS)]
    filler = rng.choice(['a', 'ab ', 'x\xe9', '\u65e5\u672c', 'word \n'])
    body = (filler * (n // len(filler) + 1))[:n]
    probs = 0
    for sp in SPECIALS:
        cps = [ord(c) for c in body]
        for pos in (0, n // 2, n - 1):
            cps[pos] = ord(sp)
        probs += check_value(ctx, env, {'t': 'str', 'cps': cps}, None, CORE + EXTENDED, ('bare', 'wrapped', 'in'),
                             plain=('plain',))
        if encodable(cps, 'utf-8'):
            probs += check_value(ctx, env, {'t': 'bytes', 'cps': cps, 'enc': 'utf-8'}, None, CORE, ('bare', 'wrapped'))
    env.add(None, 'long values evaluated (lengths 255..70001)')
    return probs


def object_case(ctx, env, rng, j):
    if j % 10 == 9:
        recipe = {'t': 'const', 'i': rng.randrange(len(CONSTS))}
    else:
        recipe = {'t': 'obj', 'kind': OBJ_KINDS[j % len(OBJ_KINDS)], 'cps': rand_text(rng)}
    env.add(None, 'non-string values evaluated')
    return check_value(ctx, env, recipe, None, CORE + EXTENDED, ('bare', 'wrapped', 'if', 'after_tainted'))


QUICK_LOW = 0x3000          # every code point below, quick tier
QUICK_SAMPLED = 4000
NSTRINGS = {'quick': 5000, 'thorough': 200000}
NOBJECTS = {'quick': 1600, 'thorough': 32000}


def run(ctx, spec):
    from DocumentTemplate import DT_Var
    from DocumentTemplate import _DocumentTemplate
    from DocumentTemplate import html_quote as hq_module
    from DocumentTemplate.DT_HTML import dtml_re_class
    from vlib.reach import Reach
    reach = Reach()
    reach.watch('html_quote.html_quote', hq_module.html_quote)
    reach.watch('Var.render', DT_Var.Var.render)
    reach.watch('Var.__init__', DT_Var.Var.__init__)
    reach.watch('render_blocks_', _DocumentTemplate.render_blocks_)
    reach.watch('dtml_re_class.search', dtml_re_class.search)
    reach.start()
    env = Env(ctx)
    env.install()
    rng = ctx.rng
    sh, n = ctx.shard, ctx.nshards
    # --- part A: code points
    if ctx.tier == 'quick':
        cps = list(range(sh, QUICK_LOW, n))
        cps += [rng.randint(QUICK_LOW, 0x10ffff) for _ in range(QUICK_SAMPLED // n)]
        # the rest of the surrogate and the plane boundaries are always in
        cps += [c for c in (0xd800, 0xdbff, 0xdc00, 0xdfff, 0xfffe, 0xffff, 0x10000, 0x10ffff, 0xfeff, 0xe000)
                if c % n == sh]
    else:
        cps = range(sh, 0x110000, n)
    for cp in cps:
        codepoint_case(ctx, env, cp, full_bytes=(ctx.tier == 'quick' or cp < 0x3000))
    # --- part B: random strings
    for _ in range(NSTRINGS[ctx.tier] // n):
        string_case(ctx, env, rng, rand_text(rng))
    # --- part B2: long values
    for k in range(len(LONG_LENGTHS)):
        if k % n == sh % len(LONG_LENGTHS) or ctx.tier == 'thorough' and (k + sh) % 4 == 0:
            long_case(ctx, env, rng, k)
    # --- part C: non-string values
    for j in range(NOBJECTS[ctx.tier] // n):
        object_case(ctx, env, rng, j + sh)
    # one real case per shard for the evidence (the driver keeps one sample per shard)
    fixed = ('<a href="x">it\'s</a> &amp; \u20ac', "it's", 'caf\xe9 <b>'.encode('utf-8'), ['a<b'])
    v = fixed[sh] if sh < len(fixed) else ''.join(map(chr, rand_text(rng))).encode('utf-8', 'replace').decode('utf-8')
    row = {'value': repr(v)}
    for f in ('entity', 'hq', 'hq_missing', 'fmt'):
        row['L[%s]R' % FORMS[f][1]] = env.template(f, 'wrapped', None)(x=v)
    row['expected inner'] = model_escape(v.decode('utf-8') if isinstance(v, bytes) else str(v))
    ctx.sample(row)
    env.flush()
    reach.stop()
    reach.report(ctx)


def finish(agg):
    c = agg['counters']
    t = agg['tables']
    inc = []
    for r in ('reach:html_quote.html_quote', 'reach:Var.render', 'reach:Var.__init__', 'reach:render_blocks_',
              'reach:dtml_re_class.search'):
        if not c.get(r):
            inc.append('anchor never entered: ' + r)
    if c.get('monitor:html_quote references wrapped', 0) < 3 * NSHARDS[agg['tier']]:
        inc.append('a route to html_quote() could not be wrapped (fast path / modifier table / special_formats)')
    if not c.get('monitor:html_quote postcondition evaluations'):
        inc.append('html_quote postcondition never evaluated')
    fp = t.get('fast path decision', {})
    for k in ('str:quoted', 'str:skipped', 'bytes:quoted', 'obj:quoted'):
        if not fp.get(k):
            inc.append('fast-path branch never observed: ' + k)
    routes = t.get('html_quote route by form', {})
    for form, (syntax, frag, path, route) in FORMS.items():
        seen = [k for k in routes if k.startswith(form + ':')]
        if not seen:
            inc.append('form never rendered: ' + form)
        elif path == 'full' and not (routes.get('%s:%s' % (form, route)) or routes.get('%s:var-global' % form)):
            inc.append('full-path form %s never reached html_quote() through the %s route (nor through '
                       'DT_Var.html_quote)' % (form, route))
    if not c.get('oracle:output comparisons'):
        inc.append('no output comparison ran')
    if not c.get('code points evaluated') or not c.get('random strings evaluated') \
            or not c.get('non-string values evaluated'):
        inc.append('a workload part did not run')
    cov = {'forms': {k: v[1] for k, v in FORMS.items()},
           'plain_forms': {k: v[1] for k, v in PLAIN.items()},
           'contexts': {k: v[0] for k, v in CONTEXTS.items()}}
    if agg['tier'] == 'thorough':
        cov['exhaustive'] = True
        cov['explanation'] = ('every code point U+0000..U+10FFFF (lone surrogates included) as a 1-character str '
                              'and as a?b through the 6 core forms x (alone, between literal text) plus plain '
                              'insertion; a?b also as UTF-8 / Latin-1 bytes where encodable; the random strings '
                              'and the non-string values are seeded samples')
        cov['code_points'] = 0x110000
    else:
        cov['exhaustive'] = False
        cov['explanation'] = ('every code point U+0000..U+2FFF plus %d sampled above; seeded random strings and '
                              'non-string values' % QUICK_SAMPLED)
    return {'inconclusive': inc, 'coverage': cov}


def replay(ctx, rep):
    env = Env(ctx)
    env.install()
    c = rep['case']
    form, context = c['form'], c['context']
    plain = (form,) if form in PLAIN else ()
    forms = (form,) if form in FORMS else ()
    # for the reader: what every other form makes of the same value
    value, text = build_value(c['value'])
    rows = {}
    for f in FORMS:
        if FORMS[f][0] == 'epfs' and context in ('if', 'in'):
            continue
        try:
            rows[f] = short(env.template(f, context, c.get('tenc'))(x=value, y=1, one=[0]), 200)
        except Exception as e:
            rows[f] = 'raised %r' % (e,)
    env.extra = ' | all forms in this context: ' + ', '.join('%s=<%s>' % kv for kv in rows.items())
    n = check_value(ctx, env, c['value'], c.get('tenc'), forms, (context,), plain=plain)
    env.flush()
    ctx.count('replayed problems', n)
